(* C09, stage 1a: the gap list.  Facts about contains / is_missing / sort_gaps / the
   _cleanup_gaps loop / _remove_gap, and the specification of _update_gaps. *)
From Coq Require Import Lia ZifyBool.
From Verif Require Import gen.RingBuffer model.RingBuffer.

(* the translated OrderedRingBuffer.wrap is the floor modulus the proofs reason about *)
Lemma wrap_mod : forall c i, wrap c i = i mod c.
Proof. reflexivity. Qed.

(* Gap.contains as translated: start <= timestamp < end *)
Lemma gap_contains_spec : forall k s e, gap_contains k s e = (s <=? k) && (k <? e).
Proof. intros. unfold gap_contains. destruct ((s <=? k) && (k <? e)); reflexivity. Qed.

Lemma contains_unfold : forall g k, contains g k = (fst g <=? k) && (k <? snd g).
Proof. intros. rewrite ?contains_unfold. apply gap_contains_spec. Qed.

(* normalize_timestamp as translated: the datetime align + n * period, where n is the floor
   quotient, plus one when the remainder is beyond half a period (or exactly half and n is odd) *)
Lemma normalize_timestamp_spec : forall t a p h,
  rb_normalize_timestamp t a p h =
  a + (let n := (t - a) / p in let r := (t - a) mod p in
       if negb (r =? 0) && (((h =? r) && negb (n mod 2 =? 0)) || (h <? r)) then n + 1 else n) * p.
Proof.
  intros. unfold rb_normalize_timestamp. cbv zeta.
  destruct (negb ((t - a) mod p =? 0)); cbn [andb]; [|reflexivity].
  destruct (((h =? (t - a) mod p) && negb ((t - a) / p mod 2 =? 0)) || (h <? (t - a) mod p)); reflexivity.
Qed.

Lemma norm_slot_unfold : forall p a t, 0 < p ->
  norm_slot p a t =
  (let n := (t - a) / p in let r := (t - a) mod p in
   if negb (r =? 0) && (((td_half p =? r) && negb (n mod 2 =? 0)) || (td_half p <? r)) then n + 1 else n).
Proof.
  intros p a t Hp. unfold norm_slot. rewrite normalize_timestamp_spec.
  match goal with |- (a + ?n * p - a) / p = _ => replace (a + n * p - a) with (n * p) by lia end.
  apply Z.div_mul. lia.
Qed.

Ltac brk :=
  repeat match goal with
         | |- context[if ?b then _ else _] => let E := fresh "E" in destruct b eqn:E
         end.
Ltac brkh H :=
  repeat match type of H with
         | context[if ?b then _ else _] => let E := fresh "E" in destruct b eqn:E
         end.

(* ------------------------------------------------------------------ shapes of gap lists *)
(* sorted, non-empty, pairwise disjoint (adjacent allowed), all starts >= lo *)
Fixpoint chain (lo : Z) (l : list gap) : Prop :=
  match l with
  | [] => True
  | g :: r => lo <= fst g /\ fst g < snd g /\ chain (snd g) r
  end.

(* sorted, non-empty, disjoint, NON-adjacent, inside [lo, hi] *)
Fixpoint gaps_wf (lo hi : Z) (l : list gap) : Prop :=
  match l with
  | [] => True
  | g :: r => lo <= fst g /\ fst g < snd g /\ snd g <= hi /\ gaps_wf (snd g + 1) hi r
  end.

Definition disj (g h : gap) : Prop := snd g <= fst h \/ snd h <= fst g.

Fixpoint pdisj (l : list gap) : Prop :=
  match l with
  | [] => True
  | g :: r => fst g < snd g /\ (forall x, In x r -> disj g x) /\ pdisj r
  end.

Lemma contains_iff : forall g k, contains g k = true <-> fst g <= k < snd g.
Proof. intros g k. rewrite contains_unfold. lia. Qed.

Lemma is_missing_cons : forall g l k, is_missing (g :: l) k = contains g k || is_missing l k.
Proof. reflexivity. Qed.

Lemma is_missing_app : forall l1 l2 k, is_missing (l1 ++ l2) k = is_missing l1 k || is_missing l2 k.
Proof. intros. unfold is_missing. apply existsb_app. Qed.

Lemma is_missing_In : forall l k, is_missing l k = true <-> exists g, In g l /\ fst g <= k < snd g.
Proof.
  intros l k. unfold is_missing. rewrite existsb_exists.
  split; intros [g [Hin Hc]]; exists g; split; auto; apply contains_iff; auto.
Qed.

Lemma chain_weaken : forall l lo lo', lo' <= lo -> chain lo l -> chain lo' l.
Proof. destruct l as [|g r]; cbn; intros; auto. intuition lia. Qed.

Lemma chain_starts : forall l lo x, chain lo l -> In x l -> lo <= fst x /\ fst x < snd x.
Proof.
  induction l as [|g r IH]; cbn; intros lo x Hc Hin; [contradiction|].
  destruct Hc as (H1 & H2 & H3). destruct Hin as [->|Hin]; [lia|].
  specialize (IH _ _ H3 Hin). lia.
Qed.

Lemma chain_below : forall l lo k, chain lo l -> k < lo -> is_missing l k = false.
Proof.
  induction l as [|g r IH]; intros lo k Hc Hk; [reflexivity|].
  cbn [chain] in Hc. destruct Hc as (H1 & H2 & H3).
  rewrite is_missing_cons, (IH (snd g) k H3) by lia. rewrite ?contains_unfold. lia.
Qed.

Lemma chain_pdisj : forall l lo, chain lo l -> pdisj l.
Proof.
  induction l as [|g r IH]; cbn; intros lo Hc; auto.
  destruct Hc as (H1 & H2 & H3). split; [lia|]. split; [|eauto].
  intros x Hin. destruct (chain_starts _ _ _ H3 Hin). left. lia.
Qed.

Lemma wf_chain : forall l lo hi, gaps_wf lo hi l -> chain lo l.
Proof.
  induction l as [|g r IH]; cbn; intros lo hi H; auto.
  destruct H as (H1 & H2 & H3 & H4). repeat split; try lia.
  apply chain_weaken with (snd g + 1); [lia|eauto].
Qed.

Lemma wf_ends : forall l lo hi x, gaps_wf lo hi l -> In x l -> snd x <= hi.
Proof.
  induction l as [|g r IH]; cbn; intros lo hi x H Hin; [contradiction|].
  destruct H as (H1 & H2 & H3 & H4). destruct Hin as [->|Hin]; eauto.
Qed.

Lemma wf_weaken : forall l lo lo' hi, lo' <= lo -> gaps_wf lo hi l -> gaps_wf lo' hi l.
Proof. destruct l as [|g r]; cbn; intros; auto. intuition lia. Qed.

Lemma wf_range : forall l lo hi k, gaps_wf lo hi l -> is_missing l k = true -> lo <= k < hi.
Proof.
  intros l lo hi k H Hm. apply is_missing_In in Hm. destruct Hm as [g [Hin Hk]].
  pose proof (wf_ends _ _ _ _ H Hin). pose proof (chain_starts _ _ _ (wf_chain _ _ _ H) Hin). lia.
Qed.

(* ------------------------------------------------------------------ sort_gaps *)
Lemma is_missing_ins : forall l g k, is_missing (ins_gap g l) k = contains g k || is_missing l k.
Proof.
  induction l as [|h t IH]; intros g k; cbn [ins_gap]; auto.
  destruct (fst g <=? fst h); [reflexivity|].
  rewrite !is_missing_cons, IH. destruct (contains g k), (contains h k); reflexivity.
Qed.

Lemma is_missing_sort : forall l k, is_missing (sort_gaps l) k = is_missing l k.
Proof.
  induction l as [|h t IH]; intros k; cbn [sort_gaps]; auto.
  rewrite is_missing_ins, is_missing_cons, IH. reflexivity.
Qed.

Lemma In_ins : forall l g x, In x (ins_gap g l) <-> x = g \/ In x l.
Proof.
  induction l as [|h t IH]; intros g x; cbn [ins_gap].
  - cbn. intuition.
  - destruct (fst g <=? fst h); cbn [In]; [intuition|]. rewrite IH. intuition.
Qed.

Lemma In_sort : forall l x, In x (sort_gaps l) <-> In x l.
Proof.
  induction l as [|h t IH]; intros x; cbn [sort_gaps]; [tauto|].
  rewrite In_ins, IH. cbn. intuition.
Qed.

Lemma chain_ins : forall L lo lo' h,
  chain lo L -> fst h < snd h -> (forall x, In x L -> disj h x) -> lo' <= lo -> lo' <= fst h ->
  chain lo' (ins_gap h L).
Proof.
  induction L as [|x L' IH]; intros lo lo' h Hc Hne Hd Hlo Hlo'; cbn [ins_gap].
  - cbn. lia.
  - cbn in Hc. destruct Hc as (H1 & H2 & H3).
    assert (Hdx : disj h x) by (apply Hd; left; reflexivity). unfold disj in Hdx.
    destruct (fst h <=? fst x) eqn:E.
    + cbn. repeat split; try lia. apply chain_weaken with (snd x); [lia|exact H3].
    + cbn [chain]. repeat split; try lia.
      apply IH with (lo := snd x); auto; try lia. intros y Hy. apply Hd. right. exact Hy.
Qed.

Lemma chain_sort : forall l lo, pdisj l -> (forall x, In x l -> lo <= fst x) -> chain lo (sort_gaps l).
Proof.
  induction l as [|h t IH]; intros lo Hp Hlo; cbn [sort_gaps]; [exact I|].
  cbn in Hp. destruct Hp as (Hne & Hd & Hp).
  apply chain_ins with (lo := lo); auto; try lia.
  - apply IH; auto. intros x Hx. apply Hlo. right. exact Hx.
  - intros x Hx. apply Hd. apply In_sort. exact Hx.
  - apply Hlo. left. reflexivity.
Qed.

Lemma pdisj_snoc : forall l g, pdisj l -> fst g < snd g -> (forall x, In x l -> disj x g) -> pdisj (l ++ [g]).
Proof.
  induction l as [|h t IH]; intros g Hp Hne Hd; cbn.
  - repeat split; auto. intros x [].
  - cbn in Hp. destruct Hp as (H1 & H2 & H3). split; [lia|]. split.
    + intros x Hx. apply in_app_or in Hx. destruct Hx as [Hx|[<-|[]]]; [auto|]. apply Hd. left. reflexivity.
    + apply IH; auto. intros x Hx. apply Hd. right. exact Hx.
Qed.

(* ------------------------------------------------------------------ the cleanup loop *)
Lemma trim_spec : forall old w,
  (snd w <= old /\ trim old w = None) \/
  (old < snd w /\ fst w < old /\ trim old w = Some (old, snd w)) \/
  (old < snd w /\ old <= fst w /\ trim old w = Some w).
Proof.
  intros old w. unfold trim.
  destruct (snd w <=? old) eqn:E1; [left; split; [lia|reflexivity]|].
  destruct (fst w <? old) eqn:E2; [right; left|right; right]; repeat split; lia.
Qed.

Definition cur_contains (cur : option gap) (j : Z) : bool :=
  match cur with Some w => contains w j | None => false end.

Lemma cl_spec : forall old hi l cur L,
  (forall x, In x l -> snd x <= hi) ->
  match cur with
  | None => chain L l
  | Some w => Z.max L old <= fst w /\ fst w < snd w /\ snd w <= hi /\ chain (snd w) l
  end ->
  gaps_wf (Z.max L old) hi (cl old cur l) /\
  forall j, is_missing (cl old cur l) j = cur_contains cur j || (is_missing l j && (old <=? j)).
Proof.
  intros old hi. induction l as [|x r IH]; intros cur L Hhi Hc.
  - destruct cur as [w|]; cbn [cl gaps_wf].
    + split; [intuition lia|]. intros j. cbn. rewrite !orb_false_r. reflexivity.
    + split; [exact I|]. reflexivity.
  - assert (Hhir : forall y, In y r -> snd y <= hi) by (intros y Hy; apply Hhi; right; exact Hy).
    assert (Hx : snd x <= hi) by (apply Hhi; left; reflexivity).
    destruct cur as [w|]; cbn [cl].
    + destruct Hc as (Hw1 & Hw2 & Hw3 & Hch). cbn [chain] in Hch. destruct Hch as (Hx1 & Hx2 & Hch).
      destruct ((fst w <=? fst x) && (snd w >=? snd x)) eqn:Esub; [exfalso; lia|].
      destruct (snd w >=? fst x) eqn:Emerge.
      * (* adjacent: merge *)
        assert (Heq : snd w = fst x) by lia.
        destruct (trim_spec old (fst w, snd x)) as [[Ht _]|[[_ [Ht _]]|[_ [_ Ht]]]]; cbn [fst snd] in Ht; try lia.
        rewrite Ht.
        destruct (IH (Some (fst w, snd x)) L Hhir) as [Hwf Hmem].
        { cbn [fst snd]. repeat split; try lia. exact Hch. }
        split; [exact Hwf|]. intros j. rewrite Hmem, is_missing_cons. cbn [cur_contains].
        rewrite ?contains_unfold. cbn [fst snd].
        destruct (is_missing r j); lia.
      * (* separate: emit w, go on with x *)
        destruct (trim_spec old x) as [[Ht _]|[[_ [Ht _]]|[_ [_ Ht]]]]; try lia.
        rewrite Ht.
        destruct (IH (Some x) (snd w + 1) Hhir) as [Hwf Hmem].
        { repeat split; try lia. exact Hch. }
        split.
        -- cbn [gaps_wf]. repeat split; try lia.
           replace (Z.max (snd w + 1) old) with (snd w + 1) in Hwf by lia. exact Hwf.
        -- intros j. rewrite is_missing_cons, Hmem, is_missing_cons. cbn [cur_contains].
           rewrite ?contains_unfold. destruct (is_missing r j); lia.
    + cbn [chain] in Hc. destruct Hc as (Hx1 & Hx2 & Hch).
      destruct (trim_spec old x) as [[Ho Ht]|[[Ho [Hs Ht]]|[Ho [Hs Ht]]]]; rewrite Ht.
      * destruct (IH None (snd x) Hhir Hch) as [Hwf Hmem].
        split.
        -- replace (Z.max L old) with (Z.max (snd x) old) by lia. exact Hwf.
        -- intros j. rewrite Hmem, is_missing_cons. cbn [cur_contains]. rewrite ?contains_unfold.
           destruct (is_missing r j); lia.
      * destruct (IH (Some (old, snd x)) L Hhir) as [Hwf Hmem].
        { cbn [fst snd]. repeat split; try lia. exact Hch. }
        split; [exact Hwf|]. intros j. rewrite Hmem, is_missing_cons. cbn [cur_contains].
        rewrite ?contains_unfold. cbn [fst snd]. destruct (is_missing r j); lia.
      * destruct (IH (Some x) L Hhir) as [Hwf Hmem].
        { repeat split; try lia. exact Hch. }
        split; [exact Hwf|]. intros j. rewrite Hmem, is_missing_cons. cbn [cur_contains].
        rewrite ?contains_unfold. destruct (is_missing r j); lia.
Qed.

(* what _cleanup_gaps achieves on any list of non-empty, pairwise disjoint gaps *)
Lemma cleanup_spec : forall old hi lo gs,
  pdisj gs -> (forall x, In x gs -> lo <= fst x /\ snd x <= hi) ->
  gaps_wf old hi (cleanup_gaps old gs) /\
  forall j, is_missing (cleanup_gaps old gs) j = is_missing gs j && (old <=? j).
Proof.
  intros old hi lo gs Hp Hb. unfold cleanup_gaps.
  destruct (cl_spec old hi (sort_gaps gs) None lo) as [Hwf Hmem].
  - intros x Hx. rewrite In_sort in Hx. apply Hb. exact Hx.
  - apply chain_sort; auto. intros x Hx. apply Hb. exact Hx.
  - split.
    + apply wf_weaken with (Z.max lo old); [lia|exact Hwf].
    + intros j. rewrite Hmem, is_missing_sort. reflexivity.
Qed.

(* ------------------------------------------------------------------ _remove_gap *)
Lemma remove_gap_go_spec : forall k gs lo hi r a,
  chain lo gs -> (forall x, In x gs -> snd x <= hi) -> remove_gap_go k gs = (r, a) ->
  chain lo r /\ (forall x, In x r -> snd x <= hi) /\
  (forall g, a = Some g -> fst g < snd g /\ lo <= fst g /\ snd g <= hi /\ forall x, In x r -> disj x g) /\
  (forall j, is_missing r j || cur_contains a j = is_missing gs j && negb (j =? k)).
Proof.
  intros k. induction gs as [|g rest IH]; intros lo hi r a Hc Hhi Hgo; cbn [remove_gap_go] in Hgo.
  - injection Hgo as Hr Ha; subst r a. cbn. split; [exact I|]. split; [intros x []|]. split; [discriminate|reflexivity].
  - cbn [chain] in Hc. destruct Hc as (H1 & H2 & H3).
    assert (Hg : snd g <= hi) by (apply Hhi; left; reflexivity).
    assert (Hrest : forall x, In x rest -> snd x <= hi) by (intros x Hx; apply Hhi; right; exact Hx).
    destruct (contains g k) eqn:Ec.
    + apply contains_iff in Ec.
      assert (Hnk : is_missing rest k = false) by (apply chain_below with (snd g); [exact H3|lia]).
      destruct (fst g =? k) eqn:E1.
      * destruct (snd g =? k + 1) eqn:E2; injection Hgo as Hr Ha; subst r a.
        -- split; [|split; [|split]].
           ++ apply chain_weaken with (snd g); [lia|exact H3].
           ++ exact Hrest.
           ++ discriminate.
           ++ intros j. rewrite is_missing_cons. cbn [cur_contains]. rewrite ?contains_unfold.
              destruct (Z.eq_dec j k) as [->|Hne]; [rewrite Hnk; lia|].
              destruct (is_missing rest j); lia.
        -- split; [|split; [|split]].
           ++ cbn [chain fst snd]. split; [lia|]. split; [lia|]. exact H3.
           ++ intros x [<-|Hx]; cbn [snd]; auto.
           ++ discriminate.
           ++ intros j. rewrite !is_missing_cons. cbn [cur_contains]. rewrite ?contains_unfold. cbn [fst snd].
              destruct (Z.eq_dec j k) as [->|Hne]; [rewrite Hnk; lia|].
              destruct (is_missing rest j); lia.
      * destruct (snd g - 1 =? k) eqn:E2; injection Hgo as Hr Ha; subst r a.
        -- split; [|split; [|split]].
           ++ cbn [chain fst snd]. split; [lia|]. split; [lia|]. apply chain_weaken with (snd g); [lia|exact H3].
           ++ intros x [<-|Hx]; cbn [snd]; auto. lia.
           ++ discriminate.
           ++ intros j. rewrite !is_missing_cons. cbn [cur_contains]. rewrite ?contains_unfold. cbn [fst snd].
              destruct (Z.eq_dec j k) as [->|Hne]; [rewrite Hnk; lia|].
              destruct (is_missing rest j); lia.
        -- split; [|split; [|split]].
           ++ cbn [chain fst snd]. split; [lia|]. split; [lia|]. apply chain_weaken with (snd g); [lia|exact H3].
           ++ intros x [<-|Hx]; cbn [snd]; auto. lia.
           ++ intros g0 Hg0. injection Hg0 as <-. cbn [fst snd].
              split; [lia|]. split; [lia|]. split; [lia|].
              intros x [<-|Hx]; unfold disj; cbn [fst snd]; [lia|].
              destruct (chain_starts _ _ _ H3 Hx). lia.
           ++ intros j. rewrite !is_missing_cons. cbn [cur_contains]. rewrite ?contains_unfold. cbn [fst snd].
              destruct (Z.eq_dec j k) as [->|Hne]; [rewrite Hnk; lia|].
              destruct (is_missing rest j); lia.
    + destruct (remove_gap_go k rest) as [r' a'] eqn:Ego. injection Hgo as Hr Ha; subst r a.
      destruct (IH (snd g) hi r' a' H3 Hrest eq_refl) as (I1 & I2 & I3 & I4).
      split; [|split; [|split]].
      * cbn [chain]. split; [lia|]. split; [lia|]. exact I1.
      * intros x [<-|Hx]; auto.
      * intros g0 Hg0. destruct (I3 g0 Hg0) as (J1 & J2 & J3 & J4).
        split; [lia|]. split; [lia|]. split; [lia|].
        intros x [<-|Hx]; [left; lia|auto].
      * intros j. rewrite !is_missing_cons. specialize (I4 j).
        rewrite ?contains_unfold in *. destruct (is_missing r' j), (cur_contains a' j), (is_missing rest j); lia.
Qed.

Lemma remove_gap_spec : forall k gs lo hi,
  chain lo gs -> (forall x, In x gs -> snd x <= hi) ->
  pdisj (remove_gap k gs) /\
  (forall x, In x (remove_gap k gs) -> lo <= fst x /\ snd x <= hi) /\
  (forall j, is_missing (remove_gap k gs) j = is_missing gs j && negb (j =? k)).
Proof.
  intros k gs lo hi Hc Hhi. unfold remove_gap.
  destruct (remove_gap_go k gs) as [r a] eqn:Ego.
  destruct (remove_gap_go_spec k gs lo hi r a Hc Hhi Ego) as (I1 & I2 & I3 & I4).
  destruct a as [g|].
  - destruct (I3 g eq_refl) as (J1 & J2 & J3 & J4). split; [|split].
    + apply pdisj_snoc; auto. eapply chain_pdisj; eauto.
    + intros x H. apply in_app_or in H. destruct H as [Hx|[<-|[]]]; [|lia].
      destruct (chain_starts _ _ _ I1 Hx). specialize (I2 x Hx). lia.
    + intros j. rewrite is_missing_app, <- I4. cbn. rewrite orb_false_r. reflexivity.
  - split; [|split].
    + eapply chain_pdisj; eauto.
    + intros x Hx. destruct (chain_starts _ _ _ I1 Hx). specialize (I2 x Hx). lia.
    + intros j. rewrite <- I4. cbn. rewrite orb_false_r. reflexivity.
Qed.
