(* C15 end to end on the battery path: the set-points and the remaining power are no longer inputs but
   what the model of the REAL distribution algorithm (model/Dist.v, C01/C02's subject) computes from any
   battery / inverter data; they are pushed through the accounting model (model/Accounting.v) under any
   vector of API outcomes.  The hypothesis `sum set-points + remaining == requested` of
   C15_bat_succeeded is discharged by DistFacts.distribute_sum, the lemma behind Theorem C01_sum.

   model.Dist is loaded WITHOUT Import: both models define qsum, result, mkBat, insert_desc.
   The set_power calls are taken in the order of Dist.res_dist (battery groups in processing order); the
   sums do not depend on the order, the outcome vector is aligned with that same order. *)
From Coq Require Import QArith List Lqa.
From Verif Require model.Dist proofs.DistFacts.
From Verif Require Import model.Accounting proofs.AccountingFacts.
Import ListNotations.
Open Scope Q_scope.

Lemma qsum_bridge : forall l, Dist.qsum l = Accounting.qsum l.
Proof. induction l as [|a t IH]; [reflexivity|]. cbn. rewrite <- IH. reflexivity. Qed.

(* the accounting input built from a run of the distribution algorithm *)
Definition bat_of_distribution (p : Q) (r : Dist.result) (m : list (Z * list Z)) (outs : list outcome) : bat_in :=
  mkBat p (Dist.res_dist r) (Dist.res_rem r) m outs.

Lemma distribution_identity : forall powf gs p r m outs,
  Dist.czero p = false -> Dist.distribute powf gs p = Some r ->
  let x := bat_of_distribution p r m outs in
  Accounting.qsum (map snd (b_dist x)) + b_rem x == b_req x.
Proof.
  intros powf gs p r m outs Hp Hd. cbn.
  pose proof (DistFacts.distribute_sum powf gs p r Hp Hd) as S.
  unfold Dist.sumsp in S. rewrite qsum_bridge in S. exact S.
Qed.

Lemma bat_end_to_end : forall powf gs p r m outs,
  Dist.czero p = false -> Dist.distribute powf gs p = Some r ->
  let x := bat_of_distribution p r m outs in
  bat_wf x -> Dist.res_dist r <> [] ->
  r_reported (bat_result x) = true /\
  r_succeeded_power (bat_result x) + r_failed_power (bat_result x) + r_excess (bat_result x) == p /\
  r_failed_power (bat_result x) == Accounting.qsum (map snd (failed_calls (Dist.res_dist r) outs)) /\
  r_succeeded_power (bat_result x) == Accounting.qsum (map snd (ok_calls (Dist.res_dist r) outs)) /\
  r_excess (bat_result x) == Dist.res_rem r.
Proof.
  intros powf gs p r m outs Hp Hd x W N.
  assert (N' : b_dist x <> []) by exact N.
  split; [apply bat_reported; exact N'|].
  split; [exact (bat_sum x N')|].
  split; [rewrite <- failed_setpoints_spec; exact (bat_failed_power x W)|].
  split.
  - rewrite <- ok_setpoints_spec. apply (bat_succeeded_power x W).
    exact (distribution_identity powf gs p r m outs Hp Hd).
  - rewrite (bat_result_nonempty x N'). unfold bat_answer. destruct (is_nil _); cbn; apply Qeq_refl.
Qed.
