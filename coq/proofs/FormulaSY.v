(* Formula engine (C05): the shunting-yard builder with the translated precedence table compiles
   every well-formed formula to a post-fix program whose result is the value of the formula under
   ordinary precedence / left-to-right evaluation.

   Layers:
   1. [D]-level shunting yard on one parenthesis-free segment ([sy]) = ordinary evaluation [std]:
      invariant [Rel] over the 16 operator-stack shapes that can occur, 16 x 4 step cases and 16
      final cases, each an identity of exact arithmetic WITH undefinedness ([D] = option Q, a zero
      divisor or a missing operand is [None]; nothing uses x / 0 = 0).
   2. the builder's push_oper / finalize refine that machine ([pop_ops_reduce], [collapse_exec]),
      generically in the stack (no enumeration), for every frame bottom ("(" or empty stack).
   3. structural induction over the grammar form lifts it through parentheses ([atom_all]).
   4. the AST printed by the standard printer [pp] is in grammar form ([pp_flat]) with the same
      value ([flat_value]). *)
From Coq Require Import ZArith NArith QArith List Bool Lia Setoid Morphisms.
From Verif Require Import model.Common gen.Formula model.Formula proofs.FormulaFacts proofs.FormulaHO.
Import ListNotations.
Local Open Scope list_scope.

(* ------------------------------------------------------------------ D as a setoid *)
Lemma Qeq_bool_proper x y : Qeq x y -> Qeq_bool x 0 = Qeq_bool y 0.
Proof.
  intros H. destruct (Qeq_bool x 0) eqn:Ex, (Qeq_bool y 0) eqn:Ey; try reflexivity.
  - apply Qeq_bool_iff in Ex. apply Qeq_bool_neq in Ey. exfalso. apply Ey. rewrite <- H. exact Ex.
  - apply Qeq_bool_iff in Ey. apply Qeq_bool_neq in Ex. exfalso. apply Ex. rewrite H. exact Ey.
Qed.

Global Instance deq_equiv : Equivalence deq.
Proof.
  split.
  - intros [x|]; cbn; [reflexivity|exact I].
  - intros [x|] [y|]; cbn; try tauto. intros H. symmetry. exact H.
  - intros [x|] [y|] [z|]; cbn; try tauto. intros H1 H2. rewrite H1. exact H2.
Qed.

Global Instance dapp_proper : Proper (eq ==> deq ==> deq ==> deq) dapp.
Proof.
  intros o o' <- [a|] [a'|] Ha [b|] [b'|] Hb; cbn in *; try contradiction; try exact I.
  destruct o; cbn; try (rewrite Ha, Hb; reflexivity).
  rewrite (Qeq_bool_proper b b' Hb). destruct (Qeq_bool b' 0); cbn; [exact I|].
  rewrite Ha, Hb. reflexivity.
Qed.

Ltac dsolve :=
  repeat match goal with x : D |- _ => destruct x as [?|] end;
  cbn;
  repeat match goal with |- context [Qeq_bool ?q 0] => destruct (Qeq_bool q 0); cbn end;
  try exact I; try (unfold Qdiv, Qminus; ring).

Lemma dapp_zero_l x : deq (dapp Add (Some 0%Q) x) x.
Proof. dsolve. Qed.

(* ------------------------------------------------------------------ 1. one segment, on D *)
Definition brank (o : bop) : nat := match o with Div => 5 | Mul => 6 | Sub => 7 | Add => 8 end.

Lemma rank_bop o : rank (oper_of_bop o) = brank o.
Proof. destruct o; reflexivity. Qed.

Fixpoint reduce (o : bop) (vs : list D) (os : list bop) : option (list D * list bop) :=
  match os with
  | [] => Some (vs, [])
  | p :: os' =>
      if (brank o <? brank p)%nat then Some (vs, os)
      else match vs with
           | b :: a :: vs' => reduce o (dapp p a b :: vs') os'
           | _ => None
           end
  end.

Fixpoint collapse (vs : list D) (os : list bop) : option D :=
  match os, vs with
  | [], [v] => Some v
  | o :: os', b :: a :: vs' => collapse (dapp o a b :: vs') os'
  | _, _ => None
  end.

Fixpoint sy (vs : list D) (os : list bop) (rest : list (bop * D)) : option D :=
  match rest with
  | [] => collapse vs os
  | (o, x) :: r =>
      match reduce o vs os with
      | Some (vs', os') => sy (x :: vs') (o :: os') r
      | None => None
      end
  end.

(* the standard left-to-right state (S pm T) that a shunting-yard state stands for *)
Definition Rel (vs : list D) (os : list bop) (S : D) (pm : bop) (T : D) : Prop :=
  match os, vs with
  | [], [t] => deq S (Some 0%Q) /\ pm = Add /\ deq T t
  | [Add], [t; a] => deq S a /\ pm = Add /\ deq T t
  | [Sub], [t; a] => deq S a /\ pm = Sub /\ deq T t
  | [Sub; Add], [t; b; a] => deq S (dapp Add a b) /\ pm = Sub /\ deq T t
  | [Mul], [t; a] => deq S (Some 0%Q) /\ pm = Add /\ deq T (dapp Mul a t)
  | [Div], [t; a] => deq S (Some 0%Q) /\ pm = Add /\ deq T (dapp Div a t)
  | [Div; Mul], [t; b; a] => deq S (Some 0%Q) /\ pm = Add /\ deq T (dapp Mul a (dapp Div b t))
  | [Mul; Add], [t; b; a] => deq S a /\ pm = Add /\ deq T (dapp Mul b t)
  | [Mul; Sub], [t; b; a] => deq S a /\ pm = Sub /\ deq T (dapp Mul b t)
  | [Div; Add], [t; b; a] => deq S a /\ pm = Add /\ deq T (dapp Div b t)
  | [Div; Sub], [t; b; a] => deq S a /\ pm = Sub /\ deq T (dapp Div b t)
  | [Mul; Sub; Add], [t; c; b; a] => deq S (dapp Add a b) /\ pm = Sub /\ deq T (dapp Mul c t)
  | [Div; Sub; Add], [t; c; b; a] => deq S (dapp Add a b) /\ pm = Sub /\ deq T (dapp Div c t)
  | [Div; Mul; Add], [t; c; b; a] => deq S a /\ pm = Add /\ deq T (dapp Mul b (dapp Div c t))
  | [Div; Mul; Sub], [t; c; b; a] => deq S a /\ pm = Sub /\ deq T (dapp Mul b (dapp Div c t))
  | [Div; Mul; Sub; Add], [t; d; c; b; a] =>
      deq S (dapp Add a b) /\ pm = Sub /\ deq T (dapp Mul c (dapp Div d t))
  | _, _ => False
  end.

Lemma std_proper rest : forall S S' pm T T',
  deq S S' -> deq T T' -> deq (std S pm T rest) (std S' pm T' rest).
Proof.
  induction rest as [|[o x] r IH]; intros S S' pm T T' HS HT; cbn.
  - rewrite HS, HT. reflexivity.
  - destruct o; apply IH; try assumption; try reflexivity; rewrite ?HS, ?HT; reflexivity.
Qed.

Ltac shape os vs :=
  destruct os as [|[] [|[] [|[] [|[] [|? ?]]]]]; cbn in *; try contradiction;
  destruct vs as [|? [|? [|? [|? [|? [|? ?]]]]]]; cbn in *; try contradiction.

Lemma sy_std rest : forall vs os S pm T, Rel vs os S pm T ->
  exists res, sy vs os rest = Some res /\ deq res (std S pm T rest).
Proof.
  induction rest as [|[o x] r IH]; intros vs os S pm T HR.
  - shape os vs; destruct HR as (HS & -> & HT); eexists; (split; [reflexivity|]);
      cbn; rewrite HS, HT; clear HS HT; dsolve.
  - shape os vs; destruct HR as (HS & -> & HT); destruct o; cbn;
    match goal with
    | |- exists r0, sy ?vs' ?os' r = Some r0 /\ deq r0 (std ?S' ?pm' ?T' r) =>
      let H := fresh in
      assert (H : Rel vs' os' S' pm' T')
        by (cbn; repeat split; try reflexivity; rewrite ?HS, ?HT; clear HS HT; dsolve);
      destruct (IH vs' os' S' pm' T' H) as (r0 & Hsy & Heq);
      exists r0; split; [exact Hsy | exact Heq]
    end.
Qed.

Theorem sy_flat_correct v0 rest :
  exists res, sy [v0] [] rest = Some res /\ deq res (std (Some 0%Q) Add v0 rest).
Proof. apply sy_std; cbn; repeat split; reflexivity. Qed.

(* ------------------------------------------------------------------ grammar form: induction, values *)
Section GInd.
Variable P : gexpr -> Prop.
Hypothesis HV : forall n, P (GVar n).
Hypothesis HC : forall q, P (GConst q).
Hypothesis HS : forall f r, P f -> Forall (fun p => P (snd p)) r -> P (GSeg f r).
Fixpoint gexpr_ind' (g : gexpr) : P g :=
  match g with
  | GVar n => HV n
  | GConst q => HC q
  | GSeg f r =>
      HS f r (gexpr_ind' f)
         ((fix go (r : list (bop * gexpr)) : Forall (fun p => P (snd p)) r :=
             match r with
             | [] => Forall_nil _
             | p :: r' => Forall_cons p (gexpr_ind' (snd p)) (go r')
             end) r)
  end.
End GInd.

(* the value as the shunting yard associates it *)
Fixpoint gsy (fd : N -> D) (g : gexpr) : D :=
  match g with
  | GVar n => fd n
  | GConst q => Some q
  | GSeg f r =>
      match sy [gsy fd f] [] (map (fun p => (fst p, gsy fd (snd p))) r) with
      | Some d => d
      | None => None
      end
  end.

Lemma std_proper_rest : forall r r' S S' pm T T',
  Forall2 (fun p q => fst p = fst q /\ deq (snd p) (snd q)) r r' ->
  deq S S' -> deq T T' -> deq (std S pm T r) (std S' pm T' r').
Proof.
  induction r as [|[o x] r IH]; intros r' S S' pm T T' HF HS HT; inversion HF; subst; cbn.
  - rewrite HS, HT. reflexivity.
  - destruct y as [o' x']. cbn in *. destruct H1 as [<- Hx].
    destruct o; apply IH; try assumption; try reflexivity; rewrite ?HS, ?HT, ?Hx; reflexivity.
Qed.

Lemma gsy_gval fd : forall g, deq (gsy fd g) (gval fd g).
Proof.
  induction g as [n|q|f r IHf IHr] using gexpr_ind'; cbn [gsy gval]; try reflexivity.
  destruct (sy_flat_correct (gsy fd f) (map (fun p => (fst p, gsy fd (snd p))) r)) as (res & -> & Hres).
  rewrite Hres. apply std_proper_rest; [|reflexivity|exact IHf].
  clear Hres. induction IHr as [|p r Hp _ IH]; cbn; [constructor|constructor; [split; [reflexivity|exact Hp]|exact IH]].
Qed.

(* ------------------------------------------------------------------ 2. the builder refines the D machine *)
Lemma vapp_inj o a b : vapp Num o (inj a) (inj b) = inj (dapp o a b).
Proof.
  destruct a as [x|], b as [y|], o; cbn; try reflexivity.
  - destruct (Qeq_bool y 0); reflexivity.
  - destruct (Qeq_bool y 0); reflexivity.
Qed.

Lemma step_of_bop rnd fv o st : exec_step rnd fv (step_of (oper_of_bop o)) st = bin2 (vapp rnd o) st.
Proof. destruct o; reflexivity. Qed.

Lemma bop_nonparen o : is_paren (oper_of_bop o) = false.
Proof. destruct o; reflexivity. Qed.

Lemma bops_nonparen os : nonparen (map oper_of_bop os).
Proof. induction os; constructor; [apply bop_nonparen|assumption]. Qed.

Section Refine.
Variable fv : N -> val.
Variable nz : bool.
Notation ex := (exec Num fv).

Lemma pop_ops_reduce o base : base_ok base -> forall os vs vs' os',
  reduce o vs os = Some (vs', os') ->
  exists popped,
    pop_ops (oper_of_bop o) (map oper_of_bop os ++ base) = (map oper_of_bop popped, map oper_of_bop os' ++ base) /\
    forall st, ex (map step_of (map oper_of_bop popped)) (map inj vs ++ st) = Some (map inj vs' ++ st).
Proof.
  intros Hb. induction os as [|p os IH]; intros vs vs' os' H; cbn [reduce] in H.
  - injection H as <- <-. exists []. split; [|reflexivity].
    cbn. apply pop_ops_base; [exact Hb|apply bop_nonparen].
  - cbn [map app]. rewrite pop_ops_cons, !rank_bop.
    destruct (brank o <? brank p)%nat.
    + injection H as <- <-. exists []. split; reflexivity.
    + destruct vs as [|b [|a vs0]]; try discriminate.
      destruct (IH _ _ _ H) as (popped & Hp & Hx).
      exists (p :: popped). split.
      * rewrite Hp. destruct o, p; reflexivity.
      * intros st. cbn [map exec]. rewrite step_of_bop. cbn [map app bin2]. rewrite vapp_inj. apply (Hx st).
Qed.

Lemma push_bop_refines bld o os vs vs' os' base :
  base_ok base -> b_stack bld = map oper_of_bop os ++ base -> reduce o vs os = Some (vs', os') ->
  let bld' := feed nz bld (TOper (oper_of_bop o)) in
  b_stack bld' = map oper_of_bop (o :: os') ++ base /\
  exists code, extends bld bld' code /\ forall st, ex code (map inj vs ++ st) = Some (map inj vs' ++ st).
Proof.
  intros Hb Hs Hr. destruct (pop_ops_reduce o base Hb os vs vs' os' Hr) as (popped & Hp & Hx).
  cbn [feed]. unfold push_oper.
  replace (is_lp (oper_of_bop o)) with false by (destruct o; reflexivity).
  rewrite Hs, Hp. cbn [b_stack b_steps]. split.
  - destruct o; reflexivity.
  - eexists. split; [reflexivity|exact Hx].
Qed.

Lemma collapse_exec : forall os vs res st, collapse vs os = Some res ->
  ex (map step_of (map oper_of_bop os)) (map inj vs ++ st) = Some (inj res :: st).
Proof.
  induction os as [|p os IH]; intros vs res st H.
  - destruct vs as [|v [|? ?]]; cbn in H; try discriminate. injection H as <-. reflexivity.
  - destruct vs as [|b [|a vs0]]; cbn in H; try discriminate.
    cbn [map exec]. rewrite step_of_bop. cbn [map app bin2]. rewrite vapp_inj. apply (IH (dapp p a b :: vs0)), H.
Qed.

(* ------------------------------------------------------------------ 3. lifting through parentheses *)
Variable fd : N -> D.
Hypothesis fv_fd : forall n, fv n = inj (fd n).

Definition atom_ok (g : gexpr) : Prop :=
  forall bld, let bld' := run_toks nz bld (gatom g) in
  b_stack bld' = b_stack bld /\
  exists code, extends bld bld' code /\ forall st, ex code st = Some (inj (gsy fd g) :: st).

Lemma grest_cons o a r : grest ((o, a) :: r) = TOper (oper_of_bop o) :: gatom a ++ grest r.
Proof. reflexivity. Qed.

Lemma seg_lemma : forall r, Forall (fun p => atom_ok (snd p)) r ->
  forall bld os vs base res,
    b_stack bld = map oper_of_bop os ++ base -> base_ok base ->
    sy vs os (map (fun p => (fst p, gsy fd (snd p))) r) = Some res ->
    let bld' := run_toks nz bld (grest r) in
    exists os' vs' code,
      b_stack bld' = map oper_of_bop os' ++ base /\ extends bld bld' code /\
      (forall st, ex code (map inj vs ++ st) = Some (map inj vs' ++ st)) /\
      collapse vs' os' = Some res.
Proof.
  induction 1 as [|[o a] r Ha _ IH]; intros bld os vs base res Hs Hb Hsy; cbn zeta.
  - exists os, vs, []. cbn in *. unfold extends. rewrite app_nil_r. auto.
  - cbn [map fst snd sy] in Hsy.
    destruct (reduce o vs os) as [[vs1 os1]|] eqn:Hr; [|discriminate].
    rewrite grest_cons, run_toks_cons, run_toks_app.
    destruct (push_bop_refines bld o os vs vs1 os1 base Hb Hs Hr) as (Hs1 & c1 & He1 & Hx1).
    cbn zeta in *. set (b1 := feed nz bld (TOper (oper_of_bop o))) in *. clearbody b1.
    destruct (Ha b1) as (Hs2 & c2 & He2 & Hx2). cbn zeta in *. cbn [snd] in *.
    set (b2 := run_toks nz b1 (gatom a)) in *. clearbody b2.
    rewrite Hs1 in Hs2.
    destruct (IH b2 (o :: os1) (gsy fd a :: vs1) base res Hs2 Hb Hsy) as (os' & vs' & c3 & Hs3 & He3 & Hx3 & Hc).
    exists os', vs', (c1 ++ c2 ++ c3). repeat split.
    + exact Hs3.
    + apply (extends_trans _ _ _ _ _ He1). apply (extends_trans _ _ _ _ _ He2 He3).
    + intros st. rewrite (exec_app_some _ _ _ _ _ _ (Hx1 st)), (exec_app_some _ _ _ _ _ _ (Hx2 _)). apply (Hx3 st).
    + exact Hc.
Qed.

Lemma gatom_seg f r : gatom (GSeg f r) = TOper OLp :: (gatom f ++ grest r) ++ [TOper ORp].
Proof.
  cbn [gatom].
  assert (E : forall r0, (fix rest (r : list (bop * gexpr)) : list tok :=
                            match r with
                            | [] => []
                            | (o, a) :: r' => TOper (oper_of_bop o) :: gatom a ++ rest r'
                            end) r0 = grest r0).
  { induction r0 as [|[o a] r0 IH]; [reflexivity|]. rewrite grest_cons, <- IH. reflexivity. }
  rewrite E. reflexivity.
Qed.

Lemma atom_all : forall g, atom_ok g.
Proof.
  induction g as [n|q|f r IHf IHr] using gexpr_ind'; intros bld; cbn zeta.
  - cbn. split; [reflexivity|]. exists [SFetch n]. split; [reflexivity|]. intros st. cbn. rewrite fv_fd. reflexivity.
  - cbn. split; [reflexivity|]. exists [SConst (Num q)]. split; [reflexivity|]. reflexivity.
  - rewrite gatom_seg.
    change (TOper OLp :: (gatom f ++ grest r) ++ [TOper ORp]) with ([TOper OLp] ++ (gatom f ++ grest r) ++ [TOper ORp]).
    rewrite !run_toks_app.
    set (b0 := run_toks nz bld [TOper OLp]).
    assert (Hs0 : b_stack b0 = OLp :: b_stack bld) by reflexivity.
    assert (Hc0 : b_steps b0 = b_steps bld) by apply push_lp_steps.
    clearbody b0.
    destruct (IHf b0) as (Hs1 & c1 & He1 & Hx1). cbn zeta in *.
    set (b1 := run_toks nz b0 (gatom f)) in *. clearbody b1.
    destruct (sy_flat_correct (gsy fd f) (map (fun p => (fst p, gsy fd (snd p))) r)) as (res & Hsy & _).
    assert (Hb : base_ok (OLp :: b_stack bld)) by (right; eexists; reflexivity).
    rewrite Hs0 in Hs1.
    destruct (seg_lemma r IHr b1 [] [gsy fd f] (OLp :: b_stack bld) res Hs1 Hb Hsy)
      as (os' & vs' & c2 & Hs2 & He2 & Hx2 & Hcol). cbn zeta in *.
    set (b2 := run_toks nz b1 (grest r)) in *. clearbody b2.
    destruct (close_frame nz b2 _ _ (bops_nonparen os') Hs2) as [Hs3 Hc3].
    change (run_toks nz b2 [TOper ORp]) with (feed nz b2 (TOper ORp)).
    split; [exact Hs3|].
    exists (c1 ++ c2 ++ map step_of (map oper_of_bop os')). split.
    + unfold extends in *. rewrite Hc3, He2, He1, Hc0, <- !app_assoc. reflexivity.
    + intros st. rewrite (exec_app_some _ _ _ _ _ _ (Hx1 st)).
      rewrite (exec_app_some _ _ _ _ _ _ (Hx2 st)).
      rewrite (collapse_exec os' vs' res st Hcol). cbn [gsy]. rewrite Hsy. reflexivity.
Qed.

(* the whole formula: tokens, then finalize *)
Theorem gtokens_exec g : ex (fst (compile nz (gtokens g))) [] = Some [inj (gsy fd g)].
Proof.
  unfold compile, finalize. cbn [fst]. fold (run_toks nz empty_builder (gtokens g)).
  assert (Hatom : forall g', gtokens g' = gatom g' ->
            ex (b_steps (run_toks nz empty_builder (gtokens g')) ++ map step_of (b_stack (run_toks nz empty_builder (gtokens g')))) []
            = Some [inj (gsy fd g')]).
  { intros g' ->. destruct (atom_all g' empty_builder) as (Hs & c & He & Hx). cbn zeta in *.
    rewrite Hs. unfold extends in He. rewrite He. cbn. rewrite app_nil_r. apply Hx. }
  destruct g as [n|q|f r]; try (apply Hatom; reflexivity).
  cbn [gtokens]. rewrite run_toks_app.
  destruct (atom_all f empty_builder) as (Hs1 & c1 & He1 & Hx1). cbn zeta in *.
  set (b1 := run_toks nz empty_builder (gatom f)) in *. clearbody b1.
  destruct (sy_flat_correct (gsy fd f) (map (fun p => (fst p, gsy fd (snd p))) r)) as (res & Hsy & _).
  assert (IHr : Forall (fun p => atom_ok (snd p)) r) by (apply Forall_forall; intros p _; apply atom_all).
  cbn in Hs1.
  destruct (seg_lemma r IHr b1 [] [gsy fd f] [] res Hs1 (or_introl eq_refl) Hsy)
    as (os' & vs' & c2 & Hs2 & He2 & Hx2 & Hcol). cbn zeta in *.
  set (b2 := run_toks nz b1 (grest r)) in *. clearbody b2.
  unfold extends in *. cbn in He1. rewrite He2, He1, Hs2, app_nil_r, <- app_assoc.
  rewrite (exec_app_some _ _ _ _ _ _ (Hx1 [])).
  rewrite (exec_app_some _ _ _ _ _ _ (Hx2 [])).
  rewrite (collapse_exec os' vs' res [] Hcol). cbn [gsy]. rewrite Hsy. reflexivity.
Qed.
End Refine.

(* ------------------------------------------------------------------ rounds *)
Lemma fetch_val_D nz i : fetch_val nz i = inj (fetch_D nz i).
Proof. destruct i, nz; reflexivity. Qed.

Lemma finish_inj d : finish (Some [inj d]) = Emit d.
Proof. destruct d; reflexivity. Qed.

Theorem gexpr_round nz g env :
  outcome_equiv (run_round Num (compile nz (gtokens g)) env)
                (Emit (gval (fun n => fetch_D nz (env n)) g)).
Proof.
  rewrite run_round_compile.
  rewrite (gtokens_exec (fun n => fetch_val nz (env n)) nz (fun n => fetch_D nz (env n))
             (fun n => fetch_val_D nz (env n)) g).
  rewrite finish_inj. cbn. apply gsy_gval.
Qed.

(* ------------------------------------------------------------------ 4. ASTs and the standard printer *)
Definition seg := (gexpr * list (bop * gexpr))%type.
Definition seg_toks (s : seg) : list tok := gatom (fst s) ++ grest (snd s).
Definition vals (fd : N -> D) (r : list (bop * gexpr)) : list (bop * D) := map (fun p => (fst p, gval fd (snd p))) r.
Definition seg_val (fd : N -> D) (s : seg) : D := std (Some 0%Q) Add (gval fd (fst s)) (vals fd (snd s)).

Fixpoint flat (lvl : nat) (e : expr) : seg :=
  match e with
  | EVar n => (GVar n, [])
  | EConst q => (GConst q, [])
  | EParen e' => (GSeg (fst (flat 0 e')) (snd (flat 0 e')), [])
  | EBin o a b =>
      let sa := flat (level o) a in
      let sb := flat (S (level o)) b in
      let s := (fst sa, snd sa ++ (o, fst sb) :: snd sb) in
      if (lvl <=? level o)%nat then s else (GSeg (fst s) (snd s), [])
  end.

Definition to_g (e : expr) : gexpr := GSeg (fst (flat 0 e)) (snd (flat 0 e)).

Lemma grest_app r1 r2 : grest (r1 ++ r2) = grest r1 ++ grest r2.
Proof. induction r1 as [|[o a] r1 IH]; [reflexivity|]. cbn [app]. rewrite !grest_cons, IH. cbn [app]. rewrite <- app_assoc. reflexivity. Qed.

Lemma pp_flat : forall e lvl, pp lvl e = seg_toks (flat lvl e).
Proof.
  induction e as [n|q|o a IHa b IHb|e IH]; intros lvl; cbn [pp flat].
  - reflexivity.
  - reflexivity.
  - assert (E : pp (level o) a ++ TOper (oper_of_bop o) :: pp (S (level o)) b =
                seg_toks (fst (flat (level o) a), snd (flat (level o) a) ++ (o, fst (flat (S (level o)) b)) :: snd (flat (S (level o)) b))).
    { rewrite IHa, IHb. unfold seg_toks. cbn [fst snd]. rewrite grest_app, grest_cons, <- !app_assoc. reflexivity. }
    destruct (lvl <=? level o)%nat; [exact E|].
    rewrite E. unfold seg_toks. cbn [fst snd grest]. rewrite gatom_seg, app_nil_r. reflexivity.
  - rewrite IH. unfold seg_toks. cbn [fst snd grest]. rewrite gatom_seg, app_nil_r. reflexivity.
Qed.

Lemma pp_gtokens e : pp 0 e = gtokens (to_g e).
Proof. rewrite pp_flat. reflexivity. Qed.

(* facts about [std] *)
Definition muldiv (r : list (bop * D)) : Prop := Forall (fun p => level (fst p) = 1%nat) r.
Fixpoint mfold (T : D) (r : list (bop * D)) : D :=
  match r with [] => T | (o, x) :: r' => mfold (dapp o T x) r' end.

Lemma std_muldiv r : muldiv r -> forall S pm T, std S pm T r = dapp pm S (mfold T r).
Proof.
  induction 1 as [|[o x] r Ho _ IH]; intros S pm T; [reflexivity|].
  cbn in Ho. destruct o; try discriminate; cbn; apply IH.
Qed.

Lemma std_split r1 o x r2 : level o = 0%nat -> forall S pm T,
  std S pm T (r1 ++ (o, x) :: r2) = std (std S pm T r1) o x r2.
Proof.
  intros Ho. induction r1 as [|[o1 x1] r1 IH]; intros S pm T.
  - destruct o; try discriminate; reflexivity.
  - cbn. destruct o1; apply IH.
Qed.

Lemma mfold_app T r1 r2 : mfold T (r1 ++ r2) = mfold (mfold T r1) r2.
Proof. revert T; induction r1 as [|[o x] r1 IH]; intros T; [reflexivity|]. cbn. apply IH. Qed.

Lemma muldiv_app r1 r2 : muldiv r1 -> muldiv r2 -> muldiv (r1 ++ r2).
Proof. intros H1 H2. apply Forall_app. auto. Qed.

Section Flat.
Variable fd : N -> D.

Lemma vals_app r1 r2 : vals fd (r1 ++ r2) = vals fd r1 ++ vals fd r2.
Proof. apply map_app. Qed.

(* operators in the rest of a segment printed at level >= 1 are * and /; at level >= 2 there are none *)
Lemma flat_levels : forall e lvl,
  ((1 <= lvl)%nat -> muldiv (vals fd (snd (flat lvl e)))) /\ ((2 <= lvl)%nat -> snd (flat lvl e) = []).
Proof.
  induction e as [n|q|o a IHa b IHb|e IH]; intros lvl; cbn [flat]; try (split; intros; [constructor|reflexivity]).
  destruct (lvl <=? level o)%nat eqn:El; cbn [snd]; [|split; intros; [constructor|reflexivity]].
  apply Nat.leb_le in El. split; intros Hl.
  - assert (Ho : level o = 1%nat) by (destruct o; cbn in *; lia).
    rewrite Ho in *. rewrite vals_app. apply muldiv_app; [apply IHa; lia|].
    destruct (IHb 2%nat) as [_ Hb2]. rewrite Hb2 by lia. cbn. constructor; [exact Ho|constructor].
  - destruct o; cbn in *; lia.
Qed.

Lemma seg_val_paren s : deq (seg_val fd (GSeg (fst s) (snd s), [])) (seg_val fd s).
Proof. unfold seg_val. cbn [fst snd vals map std gval]. apply dapp_zero_l. Qed.

Lemma flat_value : forall e lvl, deq (seg_val fd (flat lvl e)) (evalD fd e).
Proof.
  induction e as [n|q|o a IHa b IHb|e IH]; intros lvl; cbn [flat evalD].
  - unfold seg_val. cbn [flat fst snd vals map std gval]. apply dapp_zero_l.
  - unfold seg_val. cbn [flat fst snd vals map std gval]. apply dapp_zero_l.
  - set (sa := flat (level o) a). set (sb := flat (S (level o)) b).
    assert (E : deq (seg_val fd (fst sa, snd sa ++ (o, fst sb) :: snd sb)) (dapp o (evalD fd a) (evalD fd b))).
    { rewrite <- (IHa (level o)), <- (IHb (S (level o))). fold sa sb.
      unfold seg_val. cbn [fst snd]. rewrite vals_app. cbn [vals map fst snd]. fold (vals fd (snd sb)).
      destruct (flat_levels b (S (level o))) as [Hb1 Hb2]. fold sb in Hb1, Hb2.
      destruct (level o) eqn:Ho.
      - (* + or - : a is a sum, b a product *)
        rewrite (std_split _ o _ _ Ho).
        rewrite (std_muldiv _ (Hb1 (le_n 1))).
        rewrite (std_muldiv _ (Hb1 (le_n 1)) (Some 0%Q) Add).
        rewrite dapp_zero_l. reflexivity.
      - (* * or / : a is a product, b an atom *)
        assert (Ho1 : n = 0%nat) by (destruct o; cbn in Ho; lia). subst n.
        destruct (flat_levels a 1%nat) as [Ha1 _]. fold sa in Ha1. specialize (Ha1 (le_n 1)).
        rewrite Hb2 by lia. cbn [vals map].
        assert (Hm : muldiv (vals fd (snd sa) ++ [(o, gval fd (fst sb))])).
        { apply muldiv_app; [exact Ha1|]. constructor; [exact Ho|constructor]. }
        rewrite (std_muldiv _ Hm), mfold_app. cbn [mfold].
        rewrite (std_muldiv _ Ha1). cbn [std].
        rewrite !dapp_zero_l. reflexivity. }
    destruct (lvl <=? level o)%nat; [exact E|].
    rewrite (seg_val_paren (fst sa, snd sa ++ (o, fst sb) :: snd sb)). exact E.
  - rewrite (seg_val_paren (flat 0 e)). apply IH.
Qed.

Lemma to_g_value e : deq (gval fd (to_g e)) (evalD fd e).
Proof. rewrite <- (flat_value e 0). reflexivity. Qed.
End Flat.

(* C05 for formula strings (token level) *)
Theorem string_round nz e env :
  outcome_equiv (run_round Num (compile nz (pp 0 e)) env)
                (Emit (evalD (fun n => fetch_D nz (env n)) e)).
Proof.
  rewrite pp_gtokens.
  pose proof (gexpr_round nz (to_g e) env) as H.
  destruct (run_round Num (compile nz (gtokens (to_g e))) env) as [x|]; cbn in *; [|exact H].
  rewrite <- (to_g_value _ e). exact H.
Qed.
