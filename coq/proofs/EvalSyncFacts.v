(* Facts about model/EvalSync.v used by props/C06.v *)
From Coq Require Import Lia ZifyBool Permutation.
From Verif Require Import model.EvalSync.

(* ------------------------------------------------------------------ grids *)
(* [s] is consecutive with step [d], starting at timestamp [t] *)
Fixpoint on_grid (d t : Z) (s : list sample) : Prop :=
  match s with
  | [] => True
  | x :: r => fst x = t /\ on_grid d (t + d) r
  end.

(* the value a stream carries for timestamp t *)
Definition value_at (s : list sample) (t : Z) : option Z :=
  option_map snd (find (fun x => fst x =? t) s).

Lemma on_grid_skipn : forall q d t s,
  on_grid d t s -> on_grid d (t + Z.of_nat q * d) (skipn q s).
Proof.
  induction q as [|q IH]; intros d t s H.
  - cbn [skipn]. replace (t + Z.of_nat 0 * d) with t by lia. exact H.
  - destruct s as [|x r].
    + cbn. exact I.
    + cbn [skipn]. destruct H as [_ H]. apply IH in H.
      replace (t + Z.of_nat (S q) * d) with (t + d + Z.of_nat q * d) by lia. exact H.
Qed.

Lemma nth_skipn_add : forall (q k : nat) (l : list sample) dflt,
  nth k (skipn q l) dflt = nth (q + k) l dflt.
Proof.
  induction q as [|q IH]; intros k l dflt.
  - reflexivity.
  - destruct l as [|x r].
    + cbn [skipn]. destruct k; reflexivity.
    + cbn [skipn]. rewrite IH. reflexivity.
Qed.

Lemma value_at_grid : forall s d t j,
  0 < d -> on_grid d t s -> (j < length s)%nat ->
  value_at s (t + Z.of_nat j * d) = Some (snd (nth j s (0, 0))).
Proof.
  induction s as [|x r IH]; intros d t j Hd Hg Hj.
  - cbn in Hj. lia.
  - destruct Hg as [Hx Hg]. unfold value_at. cbn [find].
    destruct j as [|j].
    + replace (t + Z.of_nat 0 * d) with t by lia.
      replace (fst x =? t) with true by lia. reflexivity.
    + replace (fst x =? t + Z.of_nat (S j) * d) with false by nia.
      replace (t + Z.of_nat (S j) * d) with (t + d + Z.of_nat j * d) by lia.
      cbn in Hj. specialize (IH d (t + d) j Hd Hg ltac:(lia)).
      unfold value_at in IH. rewrite IH. reflexivity.
Qed.

(* ------------------------------------------------------------------ pop *)
Lemma upd_same : forall A (g : nat -> A) i x, upd g i x i = x.
Proof. intros. unfold upd. rewrite Nat.eqb_refl. reflexivity. Qed.

Lemma upd_other : forall A (g : nat -> A) i j x, j <> i -> upd g i x j = g j.
Proof. intros A g i j x H. unfold upd. destruct (Nat.eqb j i) eqn:E; [apply Nat.eqb_eq in E; contradiction|reflexivity]. Qed.

Lemma pop_names_spec : forall names s,
  NoDup names -> (forall j, In j names -> rem s j <> []) ->
  exists s', pop_names names s = Some s' /\
    (forall j, In j names -> rem s j = cur s' j :: rem s' j) /\
    (forall j, ~ In j names -> rem s' j = rem s j /\ cur s' j = cur s j).
Proof.
  induction names as [|a ns IH]; intros s Hnd Hne.
  - exists s. split; [reflexivity|]. split; [intros j []|intros; split; reflexivity].
  - inversion Hnd as [|? ? Ha Hnd']; subst.
    cbn [pop_names]. unfold pop.
    destruct (rem s a) as [|x r] eqn:Ea.
    { exfalso. apply (Hne a); [left; reflexivity|exact Ea]. }
    set (s1 := mkE (upd (rem s) a r) (upd (cur s) a x)).
    destruct (IH s1 Hnd') as [s' [Hp [Hin Hout]]].
    { intros j Hj. cbn. rewrite upd_other by (intro; subst; contradiction). apply Hne. right; exact Hj. }
    exists s'. split; [exact Hp|]. split.
    + intros j [Hj|Hj].
      * subst j. destruct (Hout a Ha) as [Hr Hc]. rewrite Hr, Hc. cbn. rewrite !upd_same. exact Ea.
      * rewrite <- (Hin j Hj). cbn. rewrite upd_other by (intro; subst; contradiction). reflexivity.
    + intros j Hj. assert (j <> a) by (intro; subst; apply Hj; left; reflexivity).
      assert (~ In j ns) by (intro; apply Hj; right; assumption).
      destruct (Hout j H0) as [Hr Hc]. rewrite Hr, Hc. cbn. rewrite !upd_other by assumption. split; reflexivity.
Qed.

Lemma pop_names_none : forall names s j,
  In j names -> rem s j = [] -> pop_names names s = None.
Proof.
  induction names as [|a ns IH]; intros s j Hj He.
  - destruct Hj.
  - cbn [pop_names]. unfold pop. destruct (Nat.eq_dec a j) as [->|Hn].
    + rewrite He. reflexivity.
    + destruct (rem s a) as [|x r] eqn:Ea; [reflexivity|].
      apply (IH _ j).
      * destruct Hj as [Hj|Hj]; [contradiction|exact Hj].
      * cbn. rewrite upd_other by (intro; subst; contradiction). exact He.
Qed.

(* ------------------------------------------------------------------ steady state *)
Section Steady.
  Variable n : nat.
  Variable f : list Z -> Z.
  Variable dfuel : nat.
  Variable ords : nat -> list nat.
  Variable d : Z.
  Hypothesis Hn : (0 < n)%nat.
  Hypothesis Hord : forall r, Permutation (seq 0 n) (ords r).

  Lemma pick_in_range : forall r, (hd 0%nat (ords r) < n)%nat.
  Proof.
    intros r. specialize (Hord r).
    destruct (ords r) as [|p l] eqn:E.
    - apply Permutation_length in Hord. rewrite seq_length in Hord. cbn in Hord. lia.
    - cbn. assert (In p (seq 0 n)) by (eapply Permutation_in; [apply Permutation_sym; exact Hord|left; reflexivity]).
      apply in_seq in H. lia.
  Qed.

  Lemma run_steady_nth : forall fuel r s T k,
    (forall i, (i < n)%nat -> on_grid d T (rem s i)) ->
    (forall i, (i < n)%nat -> (k < length (rem s i))%nat) ->
    (k < fuel)%nat ->
    nth_error (run n f dfuel ords fuel r false s) k =
      Some (T + Z.of_nat k * d, f (map (fun i => snd (nth k (rem s i) (0, 0))) (seq 0 n))).
  Proof.
    induction fuel as [|fu IH]; intros r s T k Hg Hk Hf; [lia|].
    cbn [run].
    destruct (pop_names_spec (seq 0 n) s (seq_NoDup n 0)) as [s1 [Hp [Hin _]]].
    { intros j Hj He. apply in_seq in Hj. specialize (Hk j ltac:(lia)). rewrite He in Hk. cbn in Hk. lia. }
    rewrite Hp.
    assert (Hcons : forall i, (i < n)%nat -> rem s i = cur s1 i :: rem s1 i).
    { intros i Hi. apply Hin. apply in_seq. lia. }
    destruct k as [|k].
    - cbn [nth_error]. f_equal. f_equal.
      + pose proof (pick_in_range r) as Hpk. specialize (Hg _ Hpk). rewrite (Hcons _ Hpk) in Hg.
        destruct Hg as [Hx _]. lia.
      + unfold vals. f_equal. apply map_ext_in. intros i Hi. apply in_seq in Hi.
        rewrite (Hcons i ltac:(lia)). reflexivity.
    - cbn [nth_error]. rewrite (IH (S r) s1 (T + d) k).
      + f_equal. f_equal; [lia|]. f_equal. apply map_ext_in. intros i Hi. apply in_seq in Hi.
        rewrite (Hcons i ltac:(lia)). reflexivity.
      + intros i Hi. specialize (Hg i Hi). rewrite (Hcons i Hi) in Hg. apply Hg.
      + intros i Hi. specialize (Hk i Hi). rewrite (Hcons i Hi) in Hk. cbn in Hk. lia.
      + lia.
  Qed.

  Lemma run_steady_len : forall fuel r s L,
    (forall i, (i < n)%nat -> (L <= length (rem s i))%nat) ->
    (exists i, (i < n)%nat /\ length (rem s i) = L) ->
    (L < fuel)%nat ->
    length (run n f dfuel ords fuel r false s) = L.
  Proof.
    induction fuel as [|fu IH]; intros r s L Hall Hex Hf; [lia|].
    cbn [run].
    destruct L as [|L].
    - destruct Hex as [i [Hi Hl]].
      rewrite (pop_names_none (seq 0 n) s i); [reflexivity|apply in_seq; lia|].
      destruct (rem s i); [reflexivity|cbn in Hl; lia].
    - destruct (pop_names_spec (seq 0 n) s (seq_NoDup n 0)) as [s1 [Hp [Hin _]]].
      { intros j Hj He. apply in_seq in Hj. specialize (Hall j ltac:(lia)). rewrite He in Hall. cbn in Hall. lia. }
      rewrite Hp. cbn [length]. f_equal.
      assert (Hcons : forall i, (i < n)%nat -> rem s i = cur s1 i :: rem s1 i).
      { intros i Hi. apply Hin. apply in_seq. lia. }
      apply IH.
      + intros i Hi. specialize (Hall i Hi). rewrite (Hcons i Hi) in Hall. cbn in Hall. lia.
      + destruct Hex as [i [Hi Hl]]. exists i. split; [exact Hi|]. rewrite (Hcons i Hi) in Hl. cbn in Hl. lia.
      + lia.
  Qed.
End Steady.

(* ------------------------------------------------------------------ first round: latest timestamp *)
Lemma fold_max_le : forall l a M, a <= M -> (forall x, In x l -> x <= M) -> fold_left Z.max l a <= M.
Proof.
  induction l as [|y l IH]; intros a M Ha Hl; cbn [fold_left]; [exact Ha|].
  apply IH; [|intros x Hx; apply Hl; right; exact Hx].
  specialize (Hl y (or_introl eq_refl)). lia.
Qed.

Lemma fold_max_ge : forall l a x, (x = a \/ In x l) -> x <= fold_left Z.max l a.
Proof.
  induction l as [|y l IH]; intros a x Hx; cbn [fold_left].
  - destruct Hx as [->|[]]. lia.
  - destruct Hx as [->|[->|Hx]].
    + transitivity (Z.max a y); [lia|]. apply IH. left; reflexivity.
    + transitivity (Z.max a x); [lia|]. apply IH. left; reflexivity.
    + apply IH. right; exact Hx.
Qed.

Lemma latest_ts_max : forall ord c M i0,
  (forall i, In i ord -> fst (c i) <= M) -> In i0 ord -> fst (c i0) = M -> latest_ts ord c = M.
Proof.
  intros ord c M i0 Hle Hi0 He. unfold latest_ts.
  assert (Hhd : In (hd 0%nat ord) ord) by (destruct ord; [destruct Hi0|left; reflexivity]).
  apply Z.le_antisymm.
  - apply fold_max_le; [apply Hle; exact Hhd|].
    intros x Hx. apply in_map_iff in Hx. destruct Hx as [i [<- Hi]]. apply Hle; exact Hi.
  - rewrite <- He. apply fold_max_ge. right. apply in_map_iff. exists i0. split; [reflexivity|exact Hi0].
Qed.

(* ------------------------------------------------------------------ metrics_by_ts *)
Definition groups_ok (c : nat -> sample) (gs : list (Z * list nat)) : Prop :=
  forall t names, In (t, names) gs -> names <> [] /\ forall j, In j names -> fst (c j) = t.

Lemma g_insert_perm : forall t i gs,
  Permutation (concat (map snd (g_insert t i gs))) (i :: concat (map snd gs)).
Proof.
  induction gs as [|[t' ns] r IH]; cbn [g_insert].
  - cbn. apply Permutation_refl.
  - destruct (t' =? t).
    + cbn [map snd concat]. rewrite <- app_assoc. cbn [app].
      apply Permutation_sym. apply Permutation_middle.
    + cbn [map snd concat].
      eapply Permutation_trans; [apply Permutation_app_head; exact IH|].
      apply Permutation_sym. apply Permutation_middle.
Qed.

Lemma g_insert_ok : forall c t i gs,
  groups_ok c gs -> fst (c i) = t -> groups_ok c (g_insert t i gs).
Proof.
  intros c t i gs. induction gs as [|[t' ns] r IH]; intros Hok Hi; cbn [g_insert].
  - intros t0 names [H|[]]. injection H as Ht Hnm. subst t0 names. split; [discriminate|].
    intros j [<-|[]]. exact Hi.
  - destruct (t' =? t) eqn:E.
    + apply Z.eqb_eq in E. subst t'.
      intros t0 names [H|H].
      * injection H as Ht Hnm. subst t0 names. split; [destruct ns; discriminate|].
        intros j Hj. apply in_app_or in Hj. destruct Hj as [Hj|[<-|[]]].
        -- destruct (Hok t ns (or_introl eq_refl)) as [_ Hm]. apply Hm; exact Hj.
        -- exact Hi.
      * apply Hok. right; exact H.
    + intros t0 names [H|H].
      * apply Hok. left; exact H.
      * apply IH; [intros t1 n1 H1; apply Hok; right; exact H1|exact Hi|exact H].
Qed.

Lemma groups_fold : forall c ord acc,
  groups_ok c acc ->
  let gs := fold_left (fun gs i => g_insert (fst (c i)) i gs) ord acc in
  groups_ok c gs /\ Permutation (concat (map snd gs)) (concat (map snd acc) ++ ord).
Proof.
  intros c. induction ord as [|a ord IH]; intros acc Hacc; cbn [fold_left].
  - split; [exact Hacc|]. rewrite app_nil_r. apply Permutation_refl.
  - destruct (IH (g_insert (fst (c a)) a acc) (g_insert_ok c _ a acc Hacc eq_refl)) as [H1 H2].
    split; [exact H1|].
    eapply Permutation_trans; [exact H2|].
    eapply Permutation_trans; [apply Permutation_app_tail; apply g_insert_perm|].
    cbn [app]. apply Permutation_middle.
Qed.

Lemma groups_spec : forall c ord,
  groups_ok c (groups ord c) /\ Permutation (concat (map snd (groups ord c))) ord.
Proof.
  intros c ord. unfold groups.
  destruct (groups_fold c ord [] ltac:(intros t names [])) as [H1 H2]. split; [exact H1|exact H2].
Qed.

(* ------------------------------------------------------------------ drain *)
Lemma drain_unfold : forall fuel latest names s mts,
  drain fuel latest names s mts =
  if mts <? latest then
    match fuel with
    | O => None
    | S fu => match pop_names names s with
              | None => None
              | Some s' => drain fu latest names s' (fst (cur s' (last names 0%nat)))
              end
    end
  else Some (s, mts).
Proof. destruct fuel; reflexivity. Qed.

Lemma last_in : forall (l : list nat) dflt, l <> [] -> In (last l dflt) l.
Proof.
  induction l as [|a l IH]; intros dflt H; [contradiction|].
  destruct l as [|b l]; [left; reflexivity|].
  right. apply IH. discriminate.
Qed.

Lemma drain_grid : forall d (q : nat) fuel names s t latest,
  0 < d -> names <> [] -> NoDup names ->
  latest = t + Z.of_nat q * d ->
  (forall j, In j names -> fst (cur s j) = t /\ on_grid d (t + d) (rem s j) /\ (q <= length (rem s j))%nat) ->
  (q <= fuel)%nat ->
  exists s', drain fuel latest names s t = Some (s', latest) /\
    (forall j, In j names -> fst (cur s' j) = latest /\ cur s' j :: rem s' j = skipn q (cur s j :: rem s j)) /\
    (forall j, ~ In j names -> rem s' j = rem s j /\ cur s' j = cur s j).
Proof.
  intros d. induction q as [|q IH]; intros fuel names s t latest Hd Hne Hnd Hl Hm Hf.
  - exists s. rewrite drain_unfold. replace (t <? latest) with false by lia.
    split; [f_equal; f_equal; lia|]. split.
    + intros j Hj. destruct (Hm j Hj) as [H1 _]. split; [lia|reflexivity].
    + intros; split; reflexivity.
  - rewrite drain_unfold. replace (t <? latest) with true by nia.
    destruct fuel as [|fu]; [lia|].
    destruct (pop_names_spec names s Hnd) as [s1 [Hp [Hin Hout]]].
    { intros j Hj He. destruct (Hm j Hj) as [_ [_ H3]]. rewrite He in H3. cbn in H3. lia. }
    rewrite Hp.
    assert (Hts : forall j, In j names -> fst (cur s1 j) = t + d /\ on_grid d (t + d + d) (rem s1 j) /\ (q <= length (rem s1 j))%nat).
    { intros j Hj. destruct (Hm j Hj) as [_ [H2 H3]]. rewrite (Hin j Hj) in H2, H3.
      destruct H2 as [H2 H2']. cbn in H3. repeat split; [exact H2|exact H2'|lia]. }
    pose proof (last_in names 0%nat Hne) as Hlast.
    destruct (Hts _ Hlast) as [Hlt _]. rewrite Hlt.
    destruct (IH fu names s1 (t + d) latest Hd Hne Hnd ltac:(lia) Hts ltac:(lia)) as [s' [Hdr [Hin' Hout']]].
    exists s'. split; [exact Hdr|]. split.
    + intros j Hj. destruct (Hin' j Hj) as [H1 H2]. split; [exact H1|].
      rewrite H2. cbn [skipn]. rewrite (Hin j Hj). reflexivity.
    + intros j Hj. destruct (Hout' j Hj) as [H1 H2]. destruct (Hout j Hj) as [H3 H4].
      rewrite H1, H2, H3, H4. split; reflexivity.
Qed.

(* ------------------------------------------------------------------ the loop over the groups *)
Lemma NoDup_app_inv : forall (l1 l2 : list nat),
  NoDup (l1 ++ l2) -> NoDup l1 /\ NoDup l2 /\ forall j, In j l1 -> ~ In j l2.
Proof.
  induction l1 as [|a l1 IH]; intros l2 H.
  - split; [constructor|]. split; [exact H|intros j []].
  - cbn in H. inversion H as [|? ? Ha Hr]; subst. destruct (IH l2 Hr) as [H1 [H2 H3]].
    split; [constructor; [intro Hi; apply Ha; apply in_or_app; left; exact Hi|exact H1]|].
    split; [exact H2|].
    intros j [<-|Hj]; [intro Hi; apply Ha; apply in_or_app; right; exact Hi|apply H3; exact Hj].
Qed.

Lemma sync_groups_grid : forall d T0 dfuel gs s,
  0 < d ->
  NoDup (concat (map snd gs)) ->
  groups_ok (cur s) gs ->
  (forall j, In j (concat (map snd gs)) ->
     on_grid d (fst (cur s j) + d) (rem s j) /\
     exists q : nat, T0 = fst (cur s j) + Z.of_nat q * d /\ (q <= length (rem s j))%nat /\ (q <= dfuel)%nat) ->
  exists s', sync_groups dfuel T0 gs s = SOk s' /\
    (forall j, In j (concat (map snd gs)) ->
       fst (cur s' j) = T0 /\
       exists q : nat, T0 = fst (cur s j) + Z.of_nat q * d /\ cur s' j :: rem s' j = skipn q (cur s j :: rem s j)) /\
    (forall j, ~ In j (concat (map snd gs)) -> rem s' j = rem s j /\ cur s' j = cur s j).
Proof.
  intros d T0 dfuel. induction gs as [|[t names] r IH]; intros s Hd Hnd Hok Hpend.
  - exists s. split; [reflexivity|]. split; [intros j []|intros; split; reflexivity].
  - cbn [map snd concat] in Hnd, Hpend |- *.
    destruct (NoDup_app_inv _ _ Hnd) as [Hnd_n [Hnd_r Hdisj]].
    destruct (Hok t names (or_introl eq_refl)) as [Hne Hmem].
    assert (Hok_r : forall s2, (forall j, In j (concat (map snd r)) -> cur s2 j = cur s j) -> groups_ok (cur s2) r).
    { intros s2 Heq t1 n1 H1. destruct (Hok t1 n1 (or_intror H1)) as [Ha Hb]. split; [exact Ha|].
      intros j Hj. rewrite Heq; [apply Hb; exact Hj|].
      apply in_concat. exists n1. split; [|exact Hj]. apply in_map_iff. exists (t1, n1). split; [reflexivity|exact H1]. }
    cbn [sync_groups].
    destruct (t =? T0) eqn:Et.
    + apply Z.eqb_eq in Et. subst t.
      destruct (IH s Hd Hnd_r (Hok_r s ltac:(intros; reflexivity))) as [s' [Hs [Hin Hout]]].
      { intros j Hj. apply Hpend. apply in_or_app. right; exact Hj. }
      exists s'. split; [exact Hs|]. split.
      * intros j Hj. apply in_app_or in Hj. destruct Hj as [Hj|Hj].
        -- destruct (Hout j (Hdisj j Hj)) as [H1 H2]. rewrite H1, H2. split; [apply Hmem; exact Hj|].
           exists 0%nat. split; [rewrite (Hmem j Hj); lia|reflexivity].
        -- apply Hin; exact Hj.
      * intros j Hj. apply Hout. intro Hr. apply Hj. apply in_or_app. right; exact Hr.
    + apply Z.eqb_neq in Et.
      (* the number of steps this group is behind *)
      destruct names as [|j0 ns] eqn:En; [contradiction|]. rewrite <- En in *.
      assert (Hj0 : In j0 names) by (rewrite En; left; reflexivity).
      destruct (Hpend j0 (in_or_app _ _ _ (or_introl Hj0))) as [_ [q [Hq [_ Hqf]]]].
      rewrite (Hmem j0 Hj0) in Hq.
      destruct (drain_grid d q dfuel names s t T0 Hd Hne Hnd_n Hq) as [s1 [Hdr [Hin1 Hout1]]].
      { intros j Hj. destruct (Hpend j (in_or_app _ _ _ (or_introl Hj))) as [Hg [q' [Hq' [Hl' _]]]].
        rewrite (Hmem j Hj) in Hg, Hq'. assert (q' = q) by nia. subst q'. repeat split; [apply Hmem; exact Hj|exact Hg|exact Hl']. }
      { exact Hqf. }
      rewrite Hdr. replace (T0 <? T0) with false by lia.
      destruct (IH s1 Hd Hnd_r) as [s' [Hs [Hin Hout]]].
      { apply Hok_r. intros j Hj. apply Hout1. intro Hn. exact (Hdisj j Hn Hj). }
      { intros j Hj.
        assert (Hnn : ~ In j names) by (intro Hn; exact (Hdisj j Hn Hj)).
        destruct (Hout1 j Hnn) as [H1 H2]. rewrite H1, H2. apply Hpend. apply in_or_app. right; exact Hj. }
      exists s'. split; [exact Hs|]. split.
      * intros j Hj. apply in_app_or in Hj. destruct Hj as [Hj|Hj].
        -- destruct (Hout j (Hdisj j Hj)) as [H1 H2]. rewrite H1, H2.
           destruct (Hin1 j Hj) as [H3 H4]. split; [exact H3|].
           exists q. split; [rewrite (Hmem j Hj); exact Hq|exact H4].
        -- assert (Hnn : ~ In j names) by (intro Hn; exact (Hdisj j Hn Hj)).
           destruct (Hout1 j Hnn) as [H1 H2]. destruct (Hin j Hj) as [H3 [q' [H4 H5]]].
           split; [exact H3|]. exists q'. rewrite H1, H2 in *. split; assumption.
      * intros j Hj.
        assert (Hn1 : ~ In j names) by (intro; apply Hj; apply in_or_app; left; assumption).
        assert (Hn2 : ~ In j (concat (map snd r))) by (intro; apply Hj; apply in_or_app; right; assumption).
        destruct (Hout j Hn2) as [H1 H2]. destruct (Hout1 j Hn1) as [H3 H4].
        rewrite H1, H2, H3, H4. split; reflexivity.
Qed.

(* ------------------------------------------------------------------ the engine on grid inputs *)
Section EngineGrid.
  Variable n : nat.
  Variable f : list Z -> Z.
  Variable ords : nat -> list nat.
  Variable d T0 : Z.
  Variable ms : nat -> nat.              (* how many steps input i starts before T0 *)
  Variable ss : nat -> list sample.
  Variables fuel dfuel : nat.
  Hypothesis Hd : 0 < d.
  Hypothesis Hn : (0 < n)%nat.
  Hypothesis Hord : forall r, Permutation (seq 0 n) (ords r).
  Hypothesis Hgrid : forall i, (i < n)%nat -> on_grid d (T0 - Z.of_nat (ms i) * d) (ss i).
  Hypothesis Hmax : exists i0, (i0 < n)%nat /\ ms i0 = 0%nat.
  Hypothesis Hreach : forall i, (i < n)%nat -> (ms i < length (ss i))%nat.
  Hypothesis Hfuel : forall i, (i < n)%nat -> (length (ss i) < fuel)%nat /\ (length (ss i) < dfuel)%nat.

  Let out := run n f dfuel ords fuel 0%nat true (init ss).

  Lemma fuel_pos : fuel = S (pred fuel).
  Proof. destruct (Hfuel 0%nat Hn). lia. Qed.

  Lemma first_round : forall fu, fuel = S fu ->
    exists s2,
      out = (T0, f (vals n s2)) :: run n f dfuel ords fu 1%nat false s2 /\
      forall i, (i < n)%nat -> cur s2 i :: rem s2 i = skipn (ms i) (ss i).
  Proof.
    intros fu Ef. unfold out. rewrite Ef. cbn [run].
    destruct (pop_names_spec (seq 0 n) (init ss) (seq_NoDup n 0)) as [s1 [Hp [Hin _]]].
    { intros j Hj He. apply in_seq in Hj. specialize (Hreach j ltac:(lia)). cbn in He. rewrite He in Hreach. cbn in Hreach. lia. }
    rewrite Hp.
    assert (Hcons : forall i, (i < n)%nat -> ss i = cur s1 i :: rem s1 i).
    { intros i Hi. apply (Hin i). apply in_seq. lia. }
    assert (Hts : forall i, (i < n)%nat -> fst (cur s1 i) = T0 - Z.of_nat (ms i) * d /\ on_grid d (fst (cur s1 i) + d) (rem s1 i)).
    { intros i Hi. specialize (Hgrid i Hi). rewrite (Hcons i Hi) in Hgrid. destruct Hgrid as [H1 H2]. rewrite H1. split; [reflexivity|exact H2]. }
    assert (Hinord : forall i, In i (ords 0%nat) <-> (i < n)%nat).
    { intros i. split; intro H.
      - eapply Permutation_in in H; [|apply Permutation_sym; apply Hord]. apply in_seq in H. lia.
      - eapply Permutation_in; [apply Hord|]. apply in_seq. lia. }
    assert (Hlat : latest_ts (ords 0%nat) (cur s1) = T0).
    { destruct Hmax as [i0 [Hi0 Hm0]]. apply (latest_ts_max _ _ _ i0).
      - intros i Hi. apply Hinord in Hi. destruct (Hts i Hi) as [H1 _]. rewrite H1. nia.
      - apply Hinord; exact Hi0.
      - destruct (Hts i0 Hi0) as [H1 _]. rewrite H1, Hm0. lia. }
    rewrite Hlat.
    destruct (groups_spec (cur s1) (ords 0%nat)) as [Hgok Hgperm].
    assert (Hinc : forall j, In j (concat (map snd (groups (ords 0%nat) (cur s1)))) <-> (j < n)%nat).
    { intros j. rewrite <- Hinord. split; intro H.
      - eapply Permutation_in; [exact Hgperm|exact H].
      - eapply Permutation_in; [apply Permutation_sym; exact Hgperm|exact H]. }
    destruct (sync_groups_grid d T0 dfuel (groups (ords 0%nat) (cur s1)) s1 Hd) as [s2 [Hs [Hin2 _]]].
    - eapply Permutation_NoDup; [apply Permutation_sym; exact Hgperm|].
      eapply Permutation_NoDup; [apply Hord|apply seq_NoDup].
    - exact Hgok.
    - intros j Hj. apply Hinc in Hj. destruct (Hts j Hj) as [H1 H2]. split; [exact H2|].
      exists (ms j). rewrite H1. split; [lia|].
      specialize (Hreach j Hj). destruct (Hfuel j Hj) as [_ Hdf]. rewrite (Hcons j Hj) in Hreach, Hdf. cbn in Hreach, Hdf. lia.
    - rewrite Hs. exists s2. split; [reflexivity|].
      intros i Hi. destruct (Hin2 i (proj2 (Hinc i) Hi)) as [_ [q [Hq Hsk]]].
      destruct (Hts i Hi) as [H1 _]. rewrite H1 in Hq. assert (q = ms i) by nia. subst q.
      rewrite Hsk, <- (Hcons i Hi). reflexivity.
  Qed.

  Lemma engine_grid_nth : forall k,
    (forall i, (i < n)%nat -> (ms i + k < length (ss i))%nat) ->
    nth_error out k =
      Some (T0 + Z.of_nat k * d, f (map (fun i => snd (nth (ms i + k) (ss i) (0, 0))) (seq 0 n))).
  Proof.
    intros k Hk. pose proof fuel_pos as Ef. set (fu := pred fuel) in *.
    destruct (first_round fu Ef) as [s2 [Hout Hsk]]. rewrite Hout.
    assert (Hnth : forall i j, (i < n)%nat -> nth j (cur s2 i :: rem s2 i) (0, 0) = nth (ms i + j) (ss i) (0, 0)).
    { intros i j Hi. rewrite (Hsk i Hi). apply nth_skipn_add. }
    destruct k as [|k].
    - cbn [nth_error]. f_equal. f_equal; [lia|]. unfold vals. f_equal. apply map_ext_in.
      intros i Hi. apply in_seq in Hi. rewrite <- (Hnth i 0%nat ltac:(lia)). reflexivity.
    - cbn [nth_error].
      rewrite (run_steady_nth n f dfuel ords d Hn Hord fu 1%nat s2 (T0 + d) k).
      + f_equal. f_equal; [lia|]. f_equal. apply map_ext_in. intros i Hi. apply in_seq in Hi.
        rewrite <- (Hnth i (S k) ltac:(lia)). reflexivity.
      + intros i Hi. pose proof (on_grid_skipn (ms i) d _ _ (Hgrid i Hi)) as Hg.
        rewrite <- (Hsk i Hi) in Hg. destruct Hg as [_ Hg].
        replace (T0 - Z.of_nat (ms i) * d + Z.of_nat (ms i) * d + d) with (T0 + d) in Hg by lia. exact Hg.
      + intros i Hi. specialize (Hk i Hi).
        assert (Hlen : length (cur s2 i :: rem s2 i) = (length (ss i) - ms i)%nat) by (rewrite (Hsk i Hi); apply skipn_length).
        cbn in Hlen. lia.
      + specialize (Hk 0%nat Hn). destruct (Hfuel 0%nat Hn). lia.
  Qed.

  Lemma engine_grid_len : forall L,
    (forall i, (i < n)%nat -> (ms i + L <= length (ss i))%nat) ->
    (exists i, (i < n)%nat /\ (ms i + L)%nat = length (ss i)) ->
    length out = L.
  Proof.
    intros L Hall Hex. pose proof fuel_pos as Ef. set (fu := pred fuel) in *.
    destruct (first_round fu Ef) as [s2 [Hout Hsk]]. rewrite Hout.
    assert (Hlen : forall i, (i < n)%nat -> S (length (rem s2 i)) = (length (ss i) - ms i)%nat).
    { intros i Hi. change (S (length (rem s2 i))) with (length (cur s2 i :: rem s2 i)). rewrite (Hsk i Hi). apply skipn_length. }
    destruct L as [|L].
    { destruct Hex as [i [Hi He]]. specialize (Hreach i Hi). lia. }
    cbn [length]. f_equal.
    apply (run_steady_len n f dfuel ords Hn).
    - intros i Hi. specialize (Hall i Hi). specialize (Hlen i Hi). lia.
    - destruct Hex as [i [Hi He]]. exists i. split; [exact Hi|]. specialize (Hlen i Hi). lia.
    - destruct Hex as [i [Hi He]]. destruct (Hfuel i Hi). lia.
  Qed.
End EngineGrid.

(* ------------------------------------------------------------------ 3-phase zipper *)
Definition step1 (lt : Z) (x : sample) (a : list sample) : option (sample * list sample) :=
  if fst x <? lt then match a with [] => None | x' :: a' => Some (x', a') end else Some (x, a).

Lemma step1_in : forall lt x a x1 a1,
  step1 lt x a = Some (x1, a1) -> In x1 (x :: a) /\ incl a1 a.
Proof.
  intros lt x a x1 a1 H. unfold step1 in H. destruct (fst x <? lt).
  - destruct a as [|x' a']; [discriminate|]. inversion H; subst. split; [right; left; reflexivity|].
    intros e He. right; exact He.
  - inversion H; subst. split; [left; reflexivity|apply incl_refl].
Qed.

Lemma align_spec : forall fuel x a y b z c x1 a1 y1 b1 z1 c1,
  align fuel x a y b z c = Some (x1, a1, (y1, b1), (z1, c1)) ->
  fst y1 = fst x1 /\ fst z1 = fst x1 /\
  In x1 (x :: a) /\ In y1 (y :: b) /\ In z1 (z :: c) /\ incl a1 a /\ incl b1 b /\ incl c1 c.
Proof.
  induction fuel as [|fu IH]; intros x a y b z c x1 a1 y1 b1 z1 c1 H.
  - cbn [align] in H.
    destruct ((fst x =? Z.max (fst x) (Z.max (fst y) (fst z))) && (fst y =? Z.max (fst x) (Z.max (fst y) (fst z))) &&
              (fst z =? Z.max (fst x) (Z.max (fst y) (fst z)))) eqn:E; [|discriminate].
    inversion H; subst. repeat split; try lia; try (left; reflexivity); apply incl_refl.
  - cbn [align] in H.
    destruct ((fst x =? Z.max (fst x) (Z.max (fst y) (fst z))) && (fst y =? Z.max (fst x) (Z.max (fst y) (fst z))) &&
              (fst z =? Z.max (fst x) (Z.max (fst y) (fst z)))) eqn:E.
    + inversion H; subst. repeat split; try lia; try (left; reflexivity); apply incl_refl.
    + fold (step1 (Z.max (fst x) (Z.max (fst y) (fst z))) x a) in H.
      fold (step1 (Z.max (fst x) (Z.max (fst y) (fst z))) y b) in H.
      fold (step1 (Z.max (fst x) (Z.max (fst y) (fst z))) z c) in H.
      destruct (step1 _ x a) as [[x2 a2]|] eqn:Ex; [|discriminate].
      destruct (step1 _ y b) as [[y2 b2]|] eqn:Ey; [|discriminate].
      destruct (step1 _ z c) as [[z2 c2]|] eqn:Ez; [|discriminate].
      apply step1_in in Ex, Ey, Ez. destruct Ex as [Ex1 Ex2], Ey as [Ey1 Ey2], Ez as [Ez1 Ez2].
      apply IH in H. destruct H as [H1 [H2 [H3 [H4 [H5 [H6 [H7 H8]]]]]]].
      repeat split; try assumption.
      * destruct H3 as [<-|H3]; [exact Ex1|right; apply Ex2; exact H3].
      * destruct H4 as [<-|H4]; [exact Ey1|right; apply Ey2; exact H4].
      * destruct H5 as [<-|H5]; [exact Ez1|right; apply Ez2; exact H5].
      * eapply incl_tran; eassumption.
      * eapply incl_tran; eassumption.
      * eapply incl_tran; eassumption.
Qed.

(* every emitted 3-phase sample consists of three phase samples stamped with its timestamp *)
Lemma zip3_single_ts : forall fuel a b c t v1 v2 v3,
  In (t, (v1, v2, v3)) (zip3 fuel a b c) -> In (t, v1) a /\ In (t, v2) b /\ In (t, v3) c.
Proof.
  induction fuel as [|fu IH]; intros a b c t v1 v2 v3 H; [destruct H|].
  cbn [zip3] in H.
  destruct a as [|x a']; [destruct H|]. destruct b as [|y b']; [destruct H|]. destruct c as [|z c']; [destruct H|].
  destruct (align (S fu) x a' y b' z c') as [[[[x1 a1] [y1 b1]] [z1 c1]]|] eqn:Ea; [|destruct H].
  apply align_spec in Ea. destruct Ea as [H1 [H2 [H3 [H4 [H5 [H6 [H7 H8]]]]]]].
  destruct H as [H|H].
  - inversion H; subst.
    destruct x1 as [tx vx], y1 as [ty vy], z1 as [tz vz]. cbn in *. subst. repeat split; assumption.
  - apply IH in H. destruct H as [Ha [Hb Hc]].
    repeat split; right; [apply H6|apply H7|apply H8]; assumption.
Qed.

(* grid phase streams with the same first timestamp: nothing is discarded *)
Lemma zip3_equal_start : forall d fuel a b c t,
  on_grid d t a -> on_grid d t b -> on_grid d t c ->
  (length a < fuel)%nat ->
  zip3 fuel a b c = zip3_unaligned a b c.
Proof.
  intros d. induction fuel as [|fu IH]; intros a b c t Ha Hb Hc Hf; [lia|].
  cbn [zip3].
  destruct a as [|x a']; [reflexivity|]. destruct b as [|y b']; [reflexivity|]. destruct c as [|z c']; [reflexivity|].
  destruct Ha as [Hx Ha], Hb as [Hy Hb], Hc as [Hz Hc].
  cbn [align].
  replace ((fst x =? Z.max (fst x) (Z.max (fst y) (fst z))) && (fst y =? Z.max (fst x) (Z.max (fst y) (fst z))) &&
           (fst z =? Z.max (fst x) (Z.max (fst y) (fst z)))) with true by lia.
  cbn [zip3_unaligned]. f_equal. apply (IH a' b' c' (t + d)); try assumption. cbn in Hf. lia.
Qed.

Lemma zip3_unaligned_grid : forall d a b c t k,
  on_grid d t a -> on_grid d t b -> on_grid d t c ->
  (k < length a)%nat -> (k < length b)%nat -> (k < length c)%nat ->
  nth_error (zip3_unaligned a b c) k =
    Some (t + Z.of_nat k * d, (snd (nth k a (0, 0)), snd (nth k b (0, 0)), snd (nth k c (0, 0)))).
Proof.
  intros d. induction a as [|x a' IH]; intros b c t k Ha Hb Hc Hka Hkb Hkc; [cbn in Hka; lia|].
  destruct b as [|y b']; [cbn in Hkb; lia|]. destruct c as [|z c']; [cbn in Hkc; lia|].
  destruct Ha as [Hx Ha], Hb as [Hy Hb], Hc as [Hz Hc]. cbn [zip3_unaligned].
  destruct k as [|k].
  - cbn. f_equal. f_equal. lia.
  - cbn [nth_error nth]. cbn in Hka, Hkb, Hkc.
    rewrite (IH b' c' (t + d) k Ha Hb Hc ltac:(lia) ltac:(lia) ltac:(lia)). f_equal. f_equal. lia.
Qed.

(* the zipper as it was before the fix pairs different timestamps as soon as one phase starts later *)
Lemma zip3_unaligned_refuted :
  exists a b c, on_grid 1 0 a /\ on_grid 1 1 b /\ on_grid 1 0 c /\
    exists t v1 v2 v3, In (t, (v1, v2, v3)) (zip3_unaligned a b c) /\ ~ In (t, v2) b.
Proof.
  exists [(0, 10); (1, 11)], [(1, 21); (2, 22)], [(0, 30); (1, 31)].
  cbn. repeat split; try reflexivity.
  exists 0, 10, 21, 30. split; [left; reflexivity|].
  intros [H|[H|[]]]; inversion H.
Qed.

(* ------------------------------------------------------------------ statements used by props/C06.v *)
Definition grid_inputs (n : nat) (d T0 : Z) (ms : nat -> nat) (ss : nat -> list sample) : Prop :=
  (forall i, (i < n)%nat -> on_grid d (T0 - Z.of_nat (ms i) * d) (ss i)) /\   (* common grid, own start *)
  (exists i0, (i0 < n)%nat /\ ms i0 = 0%nat) /\                               (* T0 = latest first timestamp *)
  (forall i, (i < n)%nat -> (ms i < length (ss i))%nat).                      (* every input reaches T0 *)

Lemma nth_map_seq : forall (g : nat -> Z) n i, (i < n)%nat -> nth i (map g (seq 0 n)) 0 = g i.
Proof.
  intros g n i Hi. rewrite (nth_indep _ 0 (g 0%nat)) by (rewrite map_length, seq_length; exact Hi).
  rewrite map_nth. rewrite seq_nth by exact Hi. reflexivity.
Qed.

Lemma engine_single_ts : forall n f ords d T0 ms ss fuel,
  0 < d -> (0 < n)%nat -> (forall r, Permutation (seq 0 n) (ords r)) ->
  grid_inputs n d T0 ms ss ->
  (forall i, (i < n)%nat -> (length (ss i) < fuel)%nat) ->
  forall k, (forall i, (i < n)%nat -> (ms i + k < length (ss i))%nat) ->
  exists vs, nth_error (engine n f ords fuel ss) k = Some (T0 + Z.of_nat k * d, f vs) /\
             length vs = n /\
             forall i, (i < n)%nat -> value_at (ss i) (T0 + Z.of_nat k * d) = Some (nth i vs 0).
Proof.
  intros n f ords d T0 ms ss fuel Hd Hn Hord [Hg [Hmax Hreach]] Hfuel k Hk.
  exists (map (fun i => snd (nth (ms i + k) (ss i) (0, 0))) (seq 0 n)).
  split; [|split].
  - unfold engine. apply (engine_grid_nth n f ords d T0 ms ss fuel fuel Hd Hn Hord Hg Hmax Hreach); [|exact Hk].
    intros i Hi. split; apply Hfuel; exact Hi.
  - rewrite map_length, seq_length. reflexivity.
  - intros i Hi. rewrite (nth_map_seq (fun i => snd (nth (ms i + k) (ss i) (0, 0)))) by exact Hi.
    pose proof (value_at_grid (ss i) d _ (ms i + k) Hd (Hg i Hi) (Hk i Hi)) as H.
    replace (T0 - Z.of_nat (ms i) * d + Z.of_nat (ms i + k) * d) with (T0 + Z.of_nat k * d) in H by lia.
    exact H.
Qed.

Lemma engine_count : forall n f ords d T0 ms ss fuel L,
  0 < d -> (0 < n)%nat -> (forall r, Permutation (seq 0 n) (ords r)) ->
  grid_inputs n d T0 ms ss ->
  (forall i, (i < n)%nat -> (length (ss i) < fuel)%nat) ->
  (forall i, (i < n)%nat -> (ms i + L <= length (ss i))%nat) ->
  (exists i, (i < n)%nat /\ (ms i + L)%nat = length (ss i)) ->
  length (engine n f ords fuel ss) = L.
Proof.
  intros n f ords d T0 ms ss fuel L Hd Hn Hord [Hg [Hmax Hreach]] Hfuel Hall Hex.
  unfold engine. apply (engine_grid_len n f ords d T0 ms ss fuel fuel Hd Hn Hord Hg Hmax Hreach); [|exact Hall|exact Hex].
  intros i Hi. split; apply Hfuel; exact Hi.
Qed.

Lemma min_exists : forall n (g : nat -> nat), (0 < n)%nat ->
  exists L, (forall i, (i < n)%nat -> (L <= g i)%nat) /\ exists i, (i < n)%nat /\ g i = L.
Proof.
  induction n as [|n IH]; intros g Hn; [lia|].
  destruct n as [|n].
  - exists (g 0%nat). split; [intros i Hi; assert (i = 0%nat) by lia; subst; lia|exists 0%nat; split; [lia|reflexivity]].
  - destruct (IH g ltac:(lia)) as [L [Hall [i [Hi He]]]].
    destruct (Nat.le_gt_cases L (g (S n))) as [Hle|Hgt].
    + exists L. split.
      * intros j Hj. destruct (Nat.eq_dec j (S n)) as [->|Hne]; [exact Hle|apply Hall; lia].
      * exists i. split; [lia|exact He].
    + exists (g (S n)). split.
      * intros j Hj. destruct (Nat.eq_dec j (S n)) as [->|Hne]; [lia|]. specialize (Hall j ltac:(lia)). lia.
      * exists (S n). split; [lia|reflexivity].
Qed.

Lemma nth_error_ext : forall (A : Type) (l1 l2 : list A),
  (forall k, nth_error l1 k = nth_error l2 k) -> l1 = l2.
Proof.
  induction l1 as [|x l1 IH]; intros l2 H.
  - destruct l2 as [|y l2]; [reflexivity|]. specialize (H 0%nat). discriminate.
  - destruct l2 as [|y l2]; [specialize (H 0%nat); discriminate|].
    pose proof (H 0%nat) as H0. cbn in H0. inversion H0; subst. f_equal.
    apply IH. intros k. exact (H (S k)).
Qed.

(* the result does not depend on the iteration order of the task set *)
Lemma engine_order_free : forall n f ords ords' d T0 ms ss fuel,
  0 < d -> (0 < n)%nat ->
  (forall r, Permutation (seq 0 n) (ords r)) -> (forall r, Permutation (seq 0 n) (ords' r)) ->
  grid_inputs n d T0 ms ss ->
  (forall i, (i < n)%nat -> (length (ss i) < fuel)%nat) ->
  engine n f ords fuel ss = engine n f ords' fuel ss.
Proof.
  intros n f ords ords' d T0 ms ss fuel Hd Hn Ho Ho' Hgi Hfuel.
  pose proof Hgi as [Hg [Hmax Hreach]].
  destruct (min_exists n (fun i => (length (ss i) - ms i)%nat) Hn) as [L [Hall [i0 [Hi0 He0]]]].
  assert (Hall' : forall i, (i < n)%nat -> (ms i + L <= length (ss i))%nat).
  { intros i Hi. specialize (Hall i Hi). specialize (Hreach i Hi). cbn in Hall. lia. }
  assert (Hex' : exists i, (i < n)%nat /\ (ms i + L)%nat = length (ss i)).
  { exists i0. split; [exact Hi0|]. specialize (Hreach i0 Hi0). cbn in He0. lia. }
  pose proof (engine_count n f ords d T0 ms ss fuel L Hd Hn Ho Hgi Hfuel Hall' Hex') as Hl.
  pose proof (engine_count n f ords' d T0 ms ss fuel L Hd Hn Ho' Hgi Hfuel Hall' Hex') as Hl'.
  apply nth_error_ext. intros k.
  destruct (Nat.lt_ge_cases k L) as [Hk|Hk].
  - assert (Hkk : forall i, (i < n)%nat -> (ms i + k < length (ss i))%nat).
    { intros i Hi. specialize (Hall' i Hi). lia. }
    unfold engine.
    rewrite (engine_grid_nth n f ords d T0 ms ss fuel fuel Hd Hn Ho Hg Hmax Hreach (fun i Hi => conj (Hfuel i Hi) (Hfuel i Hi)) k Hkk).
    rewrite (engine_grid_nth n f ords' d T0 ms ss fuel fuel Hd Hn Ho' Hg Hmax Hreach (fun i Hi => conj (Hfuel i Hi) (Hfuel i Hi)) k Hkk).
    reflexivity.
  - rewrite (proj2 (nth_error_None _ k)) by lia. rewrite (proj2 (nth_error_None _ k)) by lia. reflexivity.
Qed.

Lemma zip3_grid_equal_start : forall d fuel a b c t k,
  on_grid d t a -> on_grid d t b -> on_grid d t c -> (length a < fuel)%nat ->
  (k < length a)%nat -> (k < length b)%nat -> (k < length c)%nat ->
  nth_error (zip3 fuel a b c) k =
    Some (t + Z.of_nat k * d, (snd (nth k a (0, 0)), snd (nth k b (0, 0)), snd (nth k c (0, 0)))).
Proof.
  intros d fuel a b c t k Ha Hb Hc Hf Hka Hkb Hkc.
  rewrite (zip3_equal_start d fuel a b c t Ha Hb Hc Hf).
  exact (zip3_unaligned_grid d a b c t k Ha Hb Hc Hka Hkb Hkc).
Qed.
