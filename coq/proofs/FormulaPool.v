(* Formula engine pool: requests for the same formula string and different metrics never share an
   engine.  The key is the CONCATENATION formula ++ metric name; it is injective because formula
   characters (# digits + - * / ( ) white-space) are never letters and metric names start with one. *)
From Coq Require Import ZArith NArith QArith List Bool Lia.
From Verif Require Import model.Common gen.Formula model.Formula.
Import ListNotations.
Local Open Scope list_scope.

Definition letter_free (f : list N) : Prop := Forall (fun c => is_letter c = false) f.
Definition name_ok (m : list N) : Prop := exists c r, m = c :: r /\ is_letter c = true.

Lemma key_inj : forall f1 f2 m1 m2, letter_free f1 -> letter_free f2 -> name_ok m1 -> name_ok m2 ->
  f1 ++ m1 = f2 ++ m2 -> f1 = f2 /\ m1 = m2.
Proof.
  induction f1 as [|a f1 IH]; intros f2 m1 m2 H1 H2 (c1 & r1 & -> & L1) (c2 & r2 & -> & L2) E.
  - destruct f2 as [|b f2]; [split; [reflexivity|exact E]|].
    cbn in E. injection E as -> _. inversion H2; subst. congruence.
  - destruct f2 as [|b f2].
    + cbn in E. injection E as -> _. inversion H1; subst. congruence.
    + cbn in E. injection E as -> E. inversion H1; inversion H2; subst.
      destruct (IH f2 (c1 :: r1) (c2 :: r2)) as [-> E']; auto; try (eexists; eexists; split; [reflexivity|assumption]).
Qed.

Lemma list_eqb_N_eq : forall a b, list_eqb N.eqb a b = true -> a = b.
Proof.
  induction a as [|x a IH]; destruct b as [|y b]; cbn; intros H; try discriminate; [reflexivity|].
  apply andb_true_iff in H. destruct H as [H1 H2]. apply N.eqb_eq in H1. rewrite H1, (IH b H2). reflexivity.
Qed.

(* every stored engine sits under the key of ITS formula and ITS metric *)
Definition pool_inv (p : list (list N * pengine)) : Prop :=
  Forall (fun ke => exists f nz, letter_free f /\ name_ok (pe_metric (snd ke)) /\
                                fst ke = f ++ pe_metric (snd ke) /\ pe_prog (snd ke) = compile_string nz f) p.

Lemma pool_find_in k p e : pool_find k p = Some e -> In (k, e) p.
Proof.
  induction p as [|[k' e'] p IH]; cbn; [discriminate|].
  destruct (list_eqb N.eqb k k') eqn:E; intros H.
  - injection H as <-. apply list_eqb_N_eq in E. subst. left. reflexivity.
  - right. apply IH, H.
Qed.

Lemma pool_from_string_ok p f m nz : pool_inv p -> letter_free f -> name_ok m ->
  pool_inv (fst (pool_from_string p f m nz)) /\
  pe_metric (snd (pool_from_string p f m nz)) = m /\
  exists nz0, pe_prog (snd (pool_from_string p f m nz)) = compile_string nz0 f.
Proof.
  intros Hp Hf Hm. unfold pool_from_string.
  destruct (pool_find (f ++ m) p) as [e|] eqn:E; cbn [fst snd].
  - split; [exact Hp|].
    apply pool_find_in in E. unfold pool_inv in Hp. rewrite Forall_forall in Hp.
    destruct (Hp _ E) as (f' & nz' & Hf' & Hm' & Hk & Hprog). cbn [fst snd] in *.
    destruct (key_inj f f' m (pe_metric e) Hf Hf' Hm Hm' Hk) as [-> ->].
    split; [reflexivity|]. exists nz'. exact Hprog.
  - split; [|split; [reflexivity|exists nz; reflexivity]].
    apply Forall_app. split; [exact Hp|]. constructor; [|constructor].
    exists f, nz. cbn. auto.
Qed.

(* For every sequence of requests over the tokenizer's alphabet and letter-initial metric names, the
   engine handed out for a request reads the request's metric and runs the request's formula (with
   the flag of some request for the same formula and metric -- the first one). *)
Theorem pool_no_alias : forall reqs p, pool_inv p ->
  Forall (fun r => letter_free (fst (fst r)) /\ name_ok (snd (fst r))) reqs ->
  Forall2 (fun r e => pe_metric e = snd (fst r) /\ exists nz0, pe_prog e = compile_string nz0 (fst (fst r)))
          reqs (pool_run p reqs).
Proof.
  induction reqs as [|[[f m] nz] reqs IH]; intros p Hp Hr; cbn [pool_run]; [constructor|].
  inversion Hr as [|? ? [Hf Hm] Hr']; subst. cbn [fst snd] in *.
  destruct (pool_from_string_ok p f m nz Hp Hf Hm) as (Hp' & Hmet & Hprog).
  destruct (pool_from_string p f m nz) as [p' e]. cbn [fst snd] in *.
  constructor; [split; assumption|]. apply IH; assumption.
Qed.
