(* Invariants of the task-set / waiter / run system (model/Actor.v, Part 2), for ALL event
   sequences accepted by [gstep]. *)
From Coq Require Import Lia ZifyBool.
From Verif Require Import model.Actor.

Definition outc (st : gstate) (x : nat) : option outcome := t_outcome (g_tasks st x).
(* finished tasks stay finished, with the same outcome *)
Definition mono (st st' : gstate) : Prop := forall x o, outc st x = Some o -> outc st' x = Some o.
Definition live (s : lstate) : bool := match s with Ended _ => false | _ => true end.

Lemma updn_same {A} (f : nat -> A) k v : updn f k v k = v.
Proof. unfold updn. rewrite Nat.eqb_refl. reflexivity. Qed.
Lemma updn_other {A} (f : nat -> A) k v x : x <> k -> updn f k v x = f x.
Proof. intros H. unfold updn. destruct (Nat.eqb_spec x k); [contradiction|reflexivity]. Qed.

Lemma memn_In x l : memn x l = true <-> In x l.
Proof.
  unfold memn. rewrite existsb_exists. split.
  - intros (y & Hy & He). apply Nat.eqb_eq in He. subst. exact Hy.
  - intros H. exists x. split; [exact H|apply Nat.eqb_refl].
Qed.

Lemma removen_In x l r : In x (removen l r) <-> In x l /\ ~ In x r.
Proof.
  unfold removen. rewrite filter_In. split; intros [H1 H2]; split; try assumption.
  - intros Hr. apply memn_In in Hr. rewrite Hr in H2. discriminate.
  - destruct (memn x r) eqn:E; [apply memn_In in E; contradiction|reflexivity].
Qed.

Lemma is_done_outc st x : is_done st x = true <-> exists o, outc st x = Some o.
Proof.
  unfold is_done, outc. destruct (t_outcome (g_tasks st x)) as [o|]; split; intros H; try discriminate.
  - exists o. reflexivity.
  - reflexivity.
  - destruct H as [o H]. discriminate.
Qed.

Lemma cancel_info_outcome ti : t_outcome (cancel_info ti) = t_outcome ti.
Proof. destruct ti as [[a s|a o]|]; cbn; try reflexivity. destruct s; reflexivity. Qed.

Lemma cancel_all_outc st l x : outc (cancel_all st l) x = outc st x.
Proof. unfold outc, cancel_all. cbn. destruct (memn x l); [apply cancel_info_outcome|reflexivity]. Qed.

Lemma begin_wait_tasks st k a w : g_tasks (begin_wait st k a w) = g_tasks st.
Proof. unfold begin_wait. destruct (g_set st a); reflexivity. Qed.

Lemma wake_tasks st w st' : wake st w = Some st' -> g_tasks st' = g_tasks st.
Proof.
  unfold wake. destruct (g_wait st w) as [W|]; [|discriminate].
  destruct (forallb (is_done st) (w_snap W)); [|discriminate].
  destruct (errs_of st (w_snap W)), (removen (g_set st (w_actor W)) (w_snap W)); intros H; injection H as <-; reflexivity.
Qed.

Lemma lstep_ended limit delay o t e s' : lstep limit delay (Ended o) t e = Some s' -> s' = Ended o.
Proof. destruct e; cbn; intros H; try discriminate. injection H as <-. reflexivity. Qed.

Lemma mono_refl_tasks st st' : g_tasks st' = g_tasks st -> mono st st'.
Proof. intros H x o. unfold outc. rewrite H. trivial. Qed.

Lemma step_mono c st t e st' : gstep c st t e = Some st' -> mono st st'.
Proof.
  intros H x o Ho. destruct e; unfold gstep in H.
  - destruct (is_running st a); [destruct created; [discriminate|injection H as <-; exact Ho]|].
    destruct created; [|discriminate]. destruct (g_tasks st tid) eqn:Et; [discriminate|]. injection H as <-.
    unfold outc in *. cbn. unfold updn. destruct (Nat.eqb_spec x tid) as [->|]; [rewrite Et in Ho; discriminate|exact Ho].
  - destruct (g_tasks st tid) eqn:Et; [discriminate|]. injection H as <-.
    unfold outc in *. cbn. unfold updn. destruct (Nat.eqb_spec x tid) as [->|]; [rewrite Et in Ho; discriminate|exact Ho].
  - assert (Hx : exists a s s', g_tasks st tid = Some (TLoop a s) /\ lstep (cur_limit c st a) (c_delay c a) s t e = Some s' /\
                   st' = set_tasks st (updn (g_tasks st) tid (Some (TLoop a s')))).
    { destruct e; try discriminate; destruct (g_tasks st tid) as [[a s|]|]; try discriminate;
        match type of H with context [lstep ?l ?d ?s0 ?t0 ?e0] => destruct (lstep l d s0 t0 e0) as [s'|] eqn:El end;
        try discriminate; injection H as <-; do 3 eexists; repeat split; eauto. }
    destruct Hx as (a & s & s' & Et & El & ->). unfold outc in *. cbn. unfold updn.
    destruct (Nat.eqb_spec x tid) as [->|]; [|exact Ho].
    rewrite Et in Ho. cbn in Ho. destruct s; try discriminate. injection Ho as ->.
    apply lstep_ended in El. subst. reflexivity.
  - destruct (g_tasks st tid) as [[a0 s0|a0 [oo|]]|] eqn:Et; try discriminate. injection H as <-.
    unfold outc in *. cbn. unfold updn. destruct (Nat.eqb_spec x tid) as [->|]; [rewrite Et in Ho; discriminate|exact Ho].
  - destruct (set_eqb (pending_of st (g_set st a)) targets); [|discriminate]. injection H as <-.
    rewrite cancel_all_outc. exact Ho.
  - injection H as <-. rewrite cancel_all_outc. exact Ho.
  - destruct (fresh_call st w); [|discriminate]. injection H as <-. unfold outc. rewrite begin_wait_tasks. exact Ho.
  - destruct (fresh_call st w); [|discriminate]. destruct (g_set st a) eqn:Es.
    + destruct targets; [|discriminate]. injection H as <-. unfold outc. rewrite begin_wait_tasks. exact Ho.
    + destruct (set_eqb (pending_of st (n :: l)) targets); [|discriminate]. injection H as <-.
      unfold outc. rewrite begin_wait_tasks. fold (outc (cancel_all st (n :: l)) x). rewrite cancel_all_outc. exact Ho.
  - apply wake_tasks in H. unfold outc. rewrite H. exact Ho.
  - destruct (g_fin st w); [|discriminate]. destruct (negb (g_ret st w) && wres_eqb (f_res f) r); [|discriminate].
    injection H as <-. exact Ho.
  - destruct (g_run st r); [discriminate|]. destruct (list_eqb Nat.eqb (map fst aws) actors); [|discriminate]. injection H as <-. exact Ho.
  - destruct (g_run st r) as [[ws pend]|]; [|discriminate].
    match type of H with (if ?b then _ else _) = _ => destruct b end; [|discriminate]. injection H as <-. exact Ho.
  - destruct (g_run st r) as [[ws [|]]|]; try discriminate. destruct (g_runret st r); [discriminate|].
    injection H as <-. exact Ho.
  - destruct (fresh_call st w); [|discriminate]. destruct (g_set st (caw_actor w)); [|discriminate].
    destruct (is_done st tid).
    + destruct targets; [|discriminate]. injection H as <-. exact Ho.
    + destruct (set_eqb targets [tid]); [|discriminate]. injection H as <-.
      change (outc (cancel_all st [tid]) x = Some o). rewrite cancel_all_outc. exact Ho.
  - destruct (g_wait st w); [|discriminate]. injection H as <-. exact Ho.
  - injection H as <-. exact Ho.
  - destruct (forallb (is_done st) l); [|discriminate]. injection H as <-. exact Ho.
Qed.

(* ------------------------------------------------------------------ errs_of *)
Lemma errs_of_app st a b : errs_of st (a ++ b) = errs_of st a ++ errs_of st b.
Proof.
  induction a as [|x a IH]; cbn; [reflexivity|].
  fold (outc st x). destruct (outc st x) as [[| | |]|]; cbn; rewrite IH; reflexivity.
Qed.

Lemma errs_of_all_return st l : (forall x, In x l -> outc st x = Some Return) -> errs_of st l = [].
Proof.
  induction l as [|x l IH]; intros H; cbn; [reflexivity|].
  fold (outc st x). rewrite (H x (or_introl eq_refl)). apply IH. intros y Hy. apply H. right. exact Hy.
Qed.

Lemma errs_of_nil_return st l :
  forallb (is_done st) l = true -> errs_of st l = [] -> forall x, In x l -> outc st x = Some Return.
Proof.
  induction l as [|y l IH]; intros Hd He x Hx; [destruct Hx|].
  cbn in Hd. apply andb_prop in Hd as [Hd1 Hd2]. cbn in He. fold (outc st y) in He.
  apply is_done_outc in Hd1 as [o Ho]. rewrite Ho in He.
  destruct o; try discriminate. destruct Hx as [<-|Hx]; [exact Ho|]. apply IH; assumption.
Qed.

Lemma errs_of_mono st st' l :
  mono st st' -> (forall x, In x l -> is_done st x = true) -> errs_of st' l = errs_of st l.
Proof.
  intros Hm. induction l as [|x l IH]; intros Hd; cbn; [reflexivity|].
  fold (outc st x) (outc st' x).
  destruct (proj1 (is_done_outc st x) (Hd x (or_introl eq_refl))) as [o Ho].
  rewrite Ho, (Hm x o Ho). rewrite IH by (intros y Hy; apply Hd; right; exact Hy). reflexivity.
Qed.

(* ------------------------------------------------------------------ wait() / stop() calls *)
Definition W_ok (st : gstate) (W : waiter) : Prop :=
  (forall x, In x (w_prev W) -> outc st x = Some Return) /\
  ((w_prev W = [] /\ w_snap W = w_s0 W) \/ incl (w_s0 W) (w_prev W)).

(* the guarantee of a finished wait()/stop() call:
   every task it waited for is done, these include every task of the set at call time,
   its result is exactly the (kind-filtered) errors of the tasks it waited for,
   and it waited for more than the set at call time only if every task of that set returned normally *)
Definition F_ok (st : gstate) (F : finished) : Prop :=
  (forall x, In x (f_waited F) -> is_done st x = true) /\
  incl (f_s0 F) (f_waited F) /\
  f_res F = result_of (f_kind F) (errs_of st (f_waited F)) /\
  (f_waited F = f_s0 F \/ forall x, In x (f_s0 F) -> outc st x = Some Return).

Definition calls_ok (st : gstate) : Prop :=
  (forall w W, g_wait st w = Some W -> W_ok st W) /\
  (forall w F, g_fin st w = Some F -> F_ok st F) /\
  (forall w, g_ret st w = true -> g_fin st w <> None).

Lemma W_ok_mono st st' W : mono st st' -> W_ok st W -> W_ok st' W.
Proof. intros Hm [H1 H2]. split; [|exact H2]. intros x Hx. apply Hm, H1, Hx. Qed.

Lemma F_ok_mono st st' F : mono st st' -> F_ok st F -> F_ok st' F.
Proof.
  intros Hm (H1 & H2 & H3 & H4). repeat split.
  - intros x Hx. apply is_done_outc. destruct (proj1 (is_done_outc st x) (H1 x Hx)) as [o Ho]. exists o. apply Hm, Ho.
  - exact H2.
  - rewrite (errs_of_mono st st' _ Hm H1). exact H3.
  - destruct H4 as [H4|H4]; [left; exact H4|right]. intros x Hx. apply Hm, H4, Hx.
Qed.

Lemma calls_ok_tasks_only st st' :
  mono st st' -> g_wait st' = g_wait st -> g_fin st' = g_fin st -> g_ret st' = g_ret st ->
  calls_ok st -> calls_ok st'.
Proof.
  intros Hm Hw Hf Hr (H1 & H2 & H3). unfold calls_ok. rewrite Hw, Hf, Hr. split; [|split].
  - intros w W HW. eapply W_ok_mono; [exact Hm|]. eapply H1, HW.
  - intros w F HF. eapply F_ok_mono; [exact Hm|]. eapply H2, HF.
  - exact H3.
Qed.

Lemma result_of_nil k : result_of k [] = WOk.
Proof. destruct k; reflexivity. Qed.

Lemma mono_refl st : mono st st.
Proof. intros x o H. exact H. Qed.

Lemma begin_wait_ok st k a w :
  fresh_call st w = true -> calls_ok st -> calls_ok (begin_wait st k a w).
Proof.
  intros Hf (H1 & H2 & H3).
  assert (Hm : mono st (begin_wait st k a w)) by (apply mono_refl_tasks, begin_wait_tasks).
  unfold begin_wait in *. destruct (g_set st a) as [|y s] eqn:Es.
  - split; [|split]; cbn.
    + intros w' W HW. eapply W_ok_mono; [exact Hm|]. eapply H1, HW.
    + intros w' F. unfold updn. destruct (Nat.eqb_spec w' w) as [->|Hne].
      * intros HF. injection HF as <-. split; [|split; [|split]]; cbn.
        -- intros x [].
        -- intros x [].
        -- symmetry. apply result_of_nil.
        -- left. reflexivity.
      * intros HF. eapply F_ok_mono; [exact Hm|]. eapply H2, HF.
    + intros w' Hr. unfold updn. destruct (Nat.eqb_spec w' w); [discriminate|]. apply H3, Hr.
  - split; [|split]; cbn.
    + intros w' W. unfold updn. destruct (Nat.eqb_spec w' w) as [->|Hne].
      * intros HW. injection HW as <-. split; cbn; [intros x []|]. left. split; reflexivity.
      * intros HW. eapply W_ok_mono; [exact Hm|]. eapply H1, HW.
    + intros w' F HF. eapply F_ok_mono; [exact Hm|]. eapply H2, HF.
    + exact H3.
Qed.

Lemma cancel_all_calls_ok st l : calls_ok st -> calls_ok (cancel_all st l).
Proof.
  apply calls_ok_tasks_only; try reflexivity. intros x o Ho. rewrite cancel_all_outc. exact Ho.
Qed.

Lemma fresh_call_cancel_all st l w : fresh_call (cancel_all st l) w = fresh_call st w.
Proof. reflexivity. Qed.

Lemma wake_ok st w st' : wake st w = Some st' -> calls_ok st -> calls_ok st'.
Proof.
  unfold wake. intros H (H1 & H2 & H3).
  destruct (g_wait st w) as [W|] eqn:EW; [|discriminate].
  destruct (forallb (is_done st) (w_snap W)) eqn:Ed; [|discriminate].
  destruct (H1 w W EW) as [Hp Hs].
  assert (Hincl : incl (w_s0 W) (w_prev W ++ w_snap W)).
  { destruct Hs as [[_ Hs]|Hs]; intros x Hx; apply in_or_app; [right; rewrite Hs; exact Hx|left; apply Hs, Hx]. }
  assert (Hdone : forall x, In x (w_prev W ++ w_snap W) -> is_done st x = true).
  { intros x Hx. apply in_app_or in Hx as [Hx|Hx].
    - apply is_done_outc. exists Return. apply Hp, Hx.
    - rewrite forallb_forall in Ed. apply Ed, Hx. }
  assert (Herrs : errs_of st (w_prev W ++ w_snap W) = errs_of st (w_snap W)).
  { rewrite errs_of_app, (errs_of_all_return st _ Hp). reflexivity. }
  assert (Hmore : w_prev W ++ w_snap W = w_s0 W \/ forall x, In x (w_s0 W) -> outc st x = Some Return).
  { destruct Hs as [[Hs1 Hs2]|Hs]; [left; rewrite Hs1, Hs2; reflexivity|right; intros x Hx; apply Hp, Hs, Hx]. }
  assert (Hfin : forall errs, errs = errs_of st (w_snap W) ->
            calls_ok (set_fin (set_wait (set_set st (updn (g_set st) (w_actor W) (removen (g_set st (w_actor W)) (w_snap W))))
                                        (updn (g_wait st) w None))
                              (updn (g_fin st) w (Some (mkF (w_kind W) (w_actor W) (w_s0 W) (w_prev W ++ w_snap W)
                                                            (result_of (w_kind W) errs)))))).
  { intros errs ->.
    match goal with |- calls_ok ?s1 => set (st1 := s1) end.
    assert (Hm1 : mono st st1) by (apply mono_refl_tasks; reflexivity).
    split; [|split].
    - intros w' W'. cbn. unfold updn. destruct (Nat.eqb_spec w' w); [discriminate|]. intros HW.
      eapply W_ok_mono; [exact Hm1|apply (H1 w' W' HW)].
    - intros w' F. cbn. unfold updn. destruct (Nat.eqb_spec w' w) as [->|];
        [|intros HF; eapply F_ok_mono; [exact Hm1|apply (H2 w' F HF)]].
      intros HF. injection HF as <-. eapply F_ok_mono; [exact Hm1|]. split; [|split; [|split]]; cbn.
      + exact Hdone.
      + exact Hincl.
      + f_equal. symmetry. exact Herrs.
      + exact Hmore.
    - intros w' Hr. cbn in *. unfold updn. destruct (Nat.eqb_spec w' w); [discriminate|]. apply H3, Hr. }
  destruct (errs_of st (w_snap W)) as [|e errs] eqn:Ee;
    destruct (removen (g_set st (w_actor W)) (w_snap W)) as [|y set'] eqn:Er; injection H as <-;
    try (apply Hfin; reflexivity).
  (* another round *)
  match goal with |- calls_ok ?s1 => set (st1 := s1) end.
  assert (Hm1 : mono st st1) by (apply mono_refl_tasks; reflexivity).
  split; [|split].
  - intros w' W'. cbn. unfold updn. destruct (Nat.eqb_spec w' w) as [->|];
      [|intros HW; eapply W_ok_mono; [exact Hm1|apply (H1 w' W' HW)]].
    intros HW. injection HW as <-. eapply W_ok_mono; [exact Hm1|]. split; cbn.
    + intros x Hx. apply in_app_or in Hx as [Hx|Hx]; [apply Hp, Hx|].
      eapply errs_of_nil_return; eassumption.
    + right. exact Hincl.
  - intros w' F HF. eapply F_ok_mono; [exact Hm1|apply (H2 w' F HF)].
  - exact H3.
Qed.

Lemma set_fin_ok st w F :
  calls_ok st -> F_ok st F -> calls_ok (set_fin st (updn (g_fin st) w (Some F))).
Proof.
  intros (H1 & H2 & H3) HF.
  assert (Hm : mono st (set_fin st (updn (g_fin st) w (Some F)))) by (apply mono_refl_tasks; reflexivity).
  split; [|split]; cbn.
  - intros w' W HW. eapply W_ok_mono; [exact Hm|apply (H1 w' W HW)].
  - intros w' F'. unfold updn. destruct (Nat.eqb_spec w' w).
    + intros E. injection E as <-. eapply F_ok_mono; [exact Hm|exact HF].
    + intros E. eapply F_ok_mono; [exact Hm|apply (H2 w' F' E)].
  - intros w' Hr. unfold updn. destruct (Nat.eqb_spec w' w); [discriminate|apply H3, Hr].
Qed.

Lemma set_wait_ok st w W :
  calls_ok st -> W_ok st W -> calls_ok (set_wait st (updn (g_wait st) w (Some W))).
Proof.
  intros (H1 & H2 & H3) HW.
  assert (Hm : mono st (set_wait st (updn (g_wait st) w (Some W)))) by (apply mono_refl_tasks; reflexivity).
  split; [|split]; cbn.
  - intros w' W'. unfold updn. destruct (Nat.eqb_spec w' w).
    + intros E. injection E as <-. eapply W_ok_mono; [exact Hm|exact HW].
    + intros E. eapply W_ok_mono; [exact Hm|apply (H1 w' W' E)].
  - intros w' F' E. eapply F_ok_mono; [exact Hm|apply (H2 w' F' E)].
  - exact H3.
Qed.

Ltac crush_step H :=
  repeat match type of H with
         | context [match ?x with _ => _ end] => destruct x; try discriminate
         end; injection H as <-.

Lemma step_calls_ok c st t e st' : gstep c st t e = Some st' -> calls_ok st -> calls_ok st'.
Proof.
  intros H HI. pose proof (step_mono _ _ _ _ _ H) as Hm.
  destruct e as [a tid created|a tid|tid le|tid o|a targets|tid|a w|a w targets|w|w r|r actors aws|r done|r|tid w targets|w|a lim|a l]; unfold gstep in H.
  1,2,4,5,6,11,12,13: (eapply calls_ok_tasks_only; [exact Hm| | | |exact HI]; crush_step H; reflexivity).
  - (* GLoop *) eapply calls_ok_tasks_only; [exact Hm| | | |exact HI];
      destruct le; try discriminate; destruct (g_tasks st tid) as [[a s|]|]; try discriminate;
      match type of H with context [lstep ?l ?d ?s0 ?t0 ?e0] => destruct (lstep l d s0 t0 e0) end;
      try discriminate; injection H as <-; reflexivity.
  - (* GWaitCall *) destruct (fresh_call st w) eqn:Ef; [|discriminate]. injection H as <-. apply begin_wait_ok; assumption.
  - (* GStopCall *) destruct (fresh_call st w) eqn:Ef; [|discriminate]. destruct (g_set st a) eqn:Es.
    + destruct targets; [|discriminate]. injection H as <-. apply begin_wait_ok; assumption.
    + destruct (set_eqb (pending_of st (n :: l)) targets); [|discriminate]. injection H as <-.
      apply begin_wait_ok; [exact Ef|apply cancel_all_calls_ok, HI].
  - (* GWake *) eapply wake_ok; eassumption.
  - (* GRet *) destruct (g_fin st w) as [F|] eqn:EF; [|discriminate].
    destruct (negb (g_ret st w) && wres_eqb (f_res F) r); [|discriminate]. injection H as <-.
    destruct HI as (H1 & H2 & H3). split; [|split]; cbn.
    { intros w' W' HW. eapply W_ok_mono; [exact Hm|apply (H1 w' W' HW)]. }
    { intros w' F' HF. eapply F_ok_mono; [exact Hm|apply (H2 w' F' HF)]. }
    intros w' Hr. unfold updn in Hr. destruct (Nat.eqb_spec w' w) as [Heq|]; [rewrite Heq, EF; discriminate|apply H3, Hr].
  - (* GCawCall *) destruct (fresh_call st w); [|discriminate]. destruct (g_set st (caw_actor w)); [|discriminate].
    destruct (is_done st tid).
    + destruct targets; [|discriminate]. injection H as <-. apply set_fin_ok; [exact HI|].
      split; [|split; [|split]]; cbn; try (intros x []); [reflexivity|left; reflexivity].
    + destruct (set_eqb targets [tid]); [|discriminate]. injection H as <-.
      match goal with |- calls_ok (set_wait ?s1 (updn _ ?w1 (Some ?W1))) =>
        change (calls_ok (set_wait s1 (updn (g_wait s1) w1 (Some W1)))) end.
      apply set_wait_ok; [apply cancel_all_calls_ok, HI|]. split; cbn; [intros x []|left; split; reflexivity].
  - (* GCallCancelled *) destruct (g_wait st w) eqn:EW; [|discriminate]. injection H as <-.
    destruct HI as (H1 & H2 & H3). split; [|split]; cbn.
    + intros w' W'. unfold updn. destruct (Nat.eqb_spec w' w); [discriminate|]. intros E.
      eapply W_ok_mono; [exact Hm|apply (H1 w' W' E)].
    + intros w' F' E. eapply F_ok_mono; [exact Hm|apply (H2 w' F' E)].
    + exact H3.
  - (* GSetLimit *) injection H as <-. eapply calls_ok_tasks_only; [exact Hm| | | |exact HI]; reflexivity.
  - (* GWithDone *) destruct (forallb (is_done st) l); [|discriminate]. injection H as <-. exact HI.
Qed.

Lemma calls_ok_init : calls_ok g_init.
Proof. split; [|split]; cbn; intros; discriminate. Qed.

Lemma grun_inv (P : gstate -> Prop) c :
  (forall st t e st', gstep c st t e = Some st' -> P st -> P st') ->
  forall tr st st', grun c st tr = Some st' -> P st -> P st'.
Proof.
  intros Hstep. induction tr as [|[t e] tr IH]; intros st st' H HP; cbn in H.
  - injection H as <-. exact HP.
  - destruct (gstep c st t e) as [st1|] eqn:E; [|discriminate]. eapply IH; [exact H|]. eapply Hstep; eassumption.
Qed.

Lemma reach_calls_ok c tr st : grun c g_init tr = Some st -> calls_ok st.
Proof. intros H. eapply (grun_inv calls_ok c (step_calls_ok c)); [exact H|apply calls_ok_init]. Qed.

(* a wait()/stop() call that has returned satisfies its guarantee *)
Lemma returned_call_ok c tr st w :
  grun c g_init tr = Some st -> g_ret st w = true -> exists F, g_fin st w = Some F /\ F_ok st F.
Proof.
  intros H Hr. destruct (reach_calls_ok _ _ _ H) as (_ & H2 & H3).
  destruct (g_fin st w) as [F|] eqn:EF; [|exfalso; exact (H3 w Hr EF)]. exists F. split; [reflexivity|apply (H2 w F EF)].
Qed.

(* stop() requests the cancellation of every unfinished task of the set *)
Lemma stop_cancels_all c st t a w tg st' :
  gstep c st t (GStopCall a w tg) = Some st' ->
  forall x, In x (g_set st a) ->
    is_done st x = true \/
    (g_creq st' x = S (g_creq st x) /\ g_tasks st' x = cancel_info (g_tasks st x)).
Proof.
  unfold gstep. intros H x Hx. destruct (fresh_call st w); [|discriminate].
  destruct (g_set st a) as [|y s] eqn:Es; [destruct Hx|].
  destruct (set_eqb (pending_of st (y :: s)) tg); [|discriminate]. injection H as <-.
  destruct (is_done st x) eqn:Ed; [left; reflexivity|right].
  apply memn_In in Hx. rewrite begin_wait_tasks.
  assert (Hc : g_creq (begin_wait (cancel_all st (y :: s)) KStop a w) x = g_creq (cancel_all st (y :: s)) x).
  { unfold begin_wait. destruct (g_set (cancel_all st (y :: s)) a); reflexivity. }
  rewrite Hc. unfold cancel_all. cbn [g_creq g_tasks]. rewrite Hx, Ed. split; reflexivity.
Qed.

(* ------------------------------------------------------------------ one live loop task per actor *)
Definition loops_ok (st : gstate) : Prop :=
  (forall x a s, g_tasks st x = Some (TLoop a s) -> live s = true -> In x (g_set st a)) /\
  (forall a x1 x2 s1 s2, g_tasks st x1 = Some (TLoop a s1) -> g_tasks st x2 = Some (TLoop a s2) ->
                         live s1 = true -> live s2 = true -> x1 = x2).

Lemma live_not_done st x a s : g_tasks st x = Some (TLoop a s) -> live s = true -> is_done st x = false.
Proof. intros H Hl. unfold is_done. rewrite H. destruct s; cbn in *; try reflexivity. discriminate. Qed.

Lemma live_lcancel s : live (lcancel s) = live s.
Proof. destruct s; reflexivity. Qed.

Lemma cancel_all_loop st l x a s' :
  g_tasks (cancel_all st l) x = Some (TLoop a s') ->
  exists s, g_tasks st x = Some (TLoop a s) /\ live s = live s'.
Proof.
  cbn. destruct (memn x l).
  - destruct (g_tasks st x) as [[a0 s0|a0 o]|]; cbn; intros H; try discriminate.
    injection H as <- <-. exists s0. split; [reflexivity|symmetry; apply live_lcancel].
  - intros H. exists s'. split; [exact H|reflexivity].
Qed.

Lemma loops_ok_same st st' :
  g_tasks st' = g_tasks st -> g_set st' = g_set st -> loops_ok st -> loops_ok st'.
Proof. intros Ht Hs [H1 H2]. unfold loops_ok. rewrite Ht, Hs. split; assumption. Qed.

Lemma cancel_all_loops_ok st l : loops_ok st -> loops_ok (cancel_all st l).
Proof.
  intros [H1 H2]. split.
  - intros x a s' Hx Hl. destruct (cancel_all_loop _ _ _ _ _ Hx) as (s & Hs & Hls). apply (H1 x a s Hs). congruence.
  - intros a x1 x2 s1 s2 Hx1 Hx2 Hl1 Hl2.
    destruct (cancel_all_loop _ _ _ _ _ Hx1) as (s1' & Hs1 & Hls1).
    destruct (cancel_all_loop _ _ _ _ _ Hx2) as (s2' & Hs2 & Hls2).
    apply (H2 a x1 x2 s1' s2' Hs1 Hs2); congruence.
Qed.

Lemma begin_wait_loops_ok st k a w : loops_ok st -> loops_ok (begin_wait st k a w).
Proof. apply loops_ok_same; unfold begin_wait; destruct (g_set st a); reflexivity. Qed.

Lemma not_running_all_done st a x : is_running st a = false -> In x (g_set st a) -> is_done st x = true.
Proof.
  unfold is_running. intros H Hx. destruct (is_done st x) eqn:E; [reflexivity|].
  assert (existsb (fun t => negb (is_done st t)) (g_set st a) = true)
    by (apply existsb_exists; exists x; split; [exact Hx|rewrite E; reflexivity]).
  congruence.
Qed.

Lemma step_loops_ok c st t e st' : gstep c st t e = Some st' -> loops_ok st -> loops_ok st'.
Proof.
  intros H HI. destruct e; unfold gstep in H.
  - (* GStart *) destruct (is_running st a) eqn:Er; [destruct created; [discriminate|injection H as <-; exact HI]|].
    destruct created; [|discriminate]. destruct (g_tasks st tid) eqn:Et; [discriminate|]. injection H as <-.
    destruct HI as [H1 H2].
    assert (Hno : forall x s, g_tasks st x = Some (TLoop a s) -> live s = true -> False).
    { intros x s Hx Hl. pose proof (H1 x a s Hx Hl) as Hin.
      pose proof (not_running_all_done st a x Er Hin) as Hd.
      rewrite (live_not_done _ _ _ _ Hx Hl) in Hd. discriminate. }
    split; cbn.
    + intros x a1 s. unfold updn. destruct (Nat.eqb_spec x tid) as [->|Hne].
      * intros Hx _. injection Hx as <- _. rewrite Nat.eqb_refl. left. reflexivity.
      * intros Hx Hl. destruct (Nat.eqb_spec a1 a) as [->|]; [exfalso; eapply Hno; eassumption|]. apply (H1 x a1 s Hx Hl).
    + intros a1 x1 x2 s1 s2. unfold updn.
      destruct (Nat.eqb_spec x1 tid) as [->|Hne1]; destruct (Nat.eqb_spec x2 tid) as [->|Hne2]; try reflexivity.
      * intros Hx1 Hx2 _ Hl2. injection Hx1 as <- _. exfalso. eapply Hno; eassumption.
      * intros Hx1 Hx2 Hl1 _. injection Hx2 as <- _. exfalso. eapply Hno; eassumption.
      * apply H2.
  - (* GAdd *) destruct (g_tasks st tid) eqn:Et; [discriminate|]. injection H as <-. destruct HI as [H1 H2]. split; cbn.
    + intros x a1 s. unfold updn. destruct (Nat.eqb_spec x tid) as [->|Hne]; [discriminate|].
      intros Hx Hl. pose proof (H1 x a1 s Hx Hl) as Hin. destruct (Nat.eqb_spec a1 a) as [->|]; [right|]; exact Hin.
    + intros a1 x1 x2 s1 s2. unfold updn.
      destruct (Nat.eqb_spec x1 tid); [discriminate|]. destruct (Nat.eqb_spec x2 tid); [discriminate|]. apply H2.
  - (* GLoop *)
    assert (Hx : exists a s s', g_tasks st tid = Some (TLoop a s) /\ lstep (cur_limit c st a) (c_delay c a) s t e = Some s' /\
                   e <> LCancel /\ st' = set_tasks st (updn (g_tasks st) tid (Some (TLoop a s')))).
    { destruct e; try discriminate; destruct (g_tasks st tid) as [[a s|]|]; try discriminate;
        match type of H with context [lstep ?l ?d ?s0 ?t0 ?e0] => destruct (lstep l d s0 t0 e0) as [s'|] eqn:El end;
        try discriminate; injection H as <-; do 3 eexists; repeat split; eauto; discriminate. }
    destruct Hx as (a & s & s' & Et & El & Hne & ->). destruct HI as [H1 H2].
    assert (Hlive : live s' = true -> live s = true).
    { destruct s; try reflexivity. destruct e; cbn in El; try discriminate; try congruence. }
    split; cbn.
    + intros x a1 s0. unfold updn. destruct (Nat.eqb_spec x tid) as [->|].
      * intros Hx Hl. injection Hx as <- <-. apply (H1 tid a s Et (Hlive Hl)).
      * apply H1.
    + intros a1 x1 x2 s1 s2. unfold updn.
      destruct (Nat.eqb_spec x1 tid) as [->|]; destruct (Nat.eqb_spec x2 tid) as [->|]; try reflexivity.
      * intros Hx1 Hx2 Hl1 Hl2. injection Hx1 as <- <-. apply (H2 a tid x2 s s2 Et Hx2 (Hlive Hl1) Hl2).
      * intros Hx1 Hx2 Hl1 Hl2. injection Hx2 as <- <-. apply (H2 a x1 tid s1 s Hx1 Et Hl1 (Hlive Hl2)).
      * apply H2.
  - (* GExtraDone *) destruct (g_tasks st tid) as [[a0 s0|a0 [oo|]]|] eqn:Et; try discriminate. injection H as <-.
    destruct HI as [H1 H2]. split; cbn.
    + intros x a1 s. unfold updn. destruct (Nat.eqb_spec x tid); [discriminate|]. apply H1.
    + intros a1 x1 x2 s1 s2. unfold updn.
      destruct (Nat.eqb_spec x1 tid); [discriminate|]. destruct (Nat.eqb_spec x2 tid); [discriminate|]. apply H2.
  - destruct (set_eqb (pending_of st (g_set st a)) targets); [|discriminate]. injection H as <-. apply cancel_all_loops_ok, HI.
  - injection H as <-. apply cancel_all_loops_ok, HI.
  - destruct (fresh_call st w); [|discriminate]. injection H as <-. apply begin_wait_loops_ok, HI.
  - destruct (fresh_call st w); [|discriminate]. destruct (g_set st a) eqn:Es.
    + destruct targets; [|discriminate]. injection H as <-. apply begin_wait_loops_ok, HI.
    + destruct (set_eqb (pending_of st (n :: l)) targets); [|discriminate]. injection H as <-.
      apply begin_wait_loops_ok, cancel_all_loops_ok, HI.
  - (* GWake *) unfold wake in H. destruct (g_wait st w) as [W|]; [|discriminate].
    destruct (forallb (is_done st) (w_snap W)) eqn:Ed; [|discriminate].
    assert (Hgoal : forall st1, g_tasks st1 = g_tasks st ->
              g_set st1 = updn (g_set st) (w_actor W) (removen (g_set st (w_actor W)) (w_snap W)) -> loops_ok st1).
    { intros st1 Ht Hs. destruct HI as [H1 H2]. unfold loops_ok. rewrite Ht, Hs. split; [|exact H2].
      intros x a s Hx Hl. pose proof (H1 x a s Hx Hl) as Hin. unfold updn.
      destruct (Nat.eqb_spec a (w_actor W)) as [->|]; [|exact Hin].
      apply removen_In. split; [exact Hin|]. intros Hsn. rewrite forallb_forall in Ed.
      pose proof (Ed x Hsn) as Hd.
      rewrite (live_not_done _ _ _ _ Hx Hl) in Hd. discriminate. }
    destruct (errs_of st (w_snap W)), (removen (g_set st (w_actor W)) (w_snap W)) eqn:Er; injection H as <-;
      apply Hgoal; cbn; rewrite ?Er; reflexivity.
  - destruct (g_fin st w); [|discriminate]. destruct (negb (g_ret st w) && wres_eqb (f_res f) r); [|discriminate].
    injection H as <-. exact HI.
  - destruct (g_run st r); [discriminate|]. destruct (list_eqb Nat.eqb (map fst aws) actors); [|discriminate]. injection H as <-. exact HI.
  - destruct (g_run st r) as [[ws pend]|]; [|discriminate].
    match type of H with (if ?b then _ else _) = _ => destruct b end; [|discriminate]. injection H as <-. exact HI.
  - destruct (g_run st r) as [[ws [|]]|]; try discriminate. destruct (g_runret st r); [discriminate|].
    injection H as <-. exact HI.
  - destruct (fresh_call st w); [|discriminate]. destruct (g_set st (caw_actor w)); [|discriminate].
    destruct (is_done st tid).
    + destruct targets; [|discriminate]. injection H as <-. eapply loops_ok_same; [| |exact HI]; reflexivity.
    + destruct (set_eqb targets [tid]); [|discriminate]. injection H as <-.
      eapply loops_ok_same; [| |apply (cancel_all_loops_ok st [tid]), HI]; reflexivity.
  - destruct (g_wait st w); [|discriminate]. injection H as <-. eapply loops_ok_same; [| |exact HI]; reflexivity.
  - injection H as <-. eapply loops_ok_same; [| |exact HI]; reflexivity.
  - destruct (forallb (is_done st) l); [|discriminate]. injection H as <-. exact HI.
Qed.

Lemma loops_ok_init : loops_ok g_init.
Proof. split; cbn; intros; discriminate. Qed.

Lemma reach_loops_ok c tr st : grun c g_init tr = Some st -> loops_ok st.
Proof. intros H. eapply (grun_inv loops_ok c (step_loops_ok c)); [exact H|apply loops_ok_init]. Qed.

(* start() is idempotent while the actor runs, and creates a loop task only when none is live *)
Lemma start_idempotent c st t a tid created st' :
  gstep c st t (GStart a tid created) = Some st' -> is_running st a = true -> st' = st /\ created = false.
Proof. cbn. intros H Hr. rewrite Hr in H. destruct created; [discriminate|]. injection H as <-. auto. Qed.

(* ------------------------------------------------------------------ run() *)
Definition run_ok (st : gstate) : Prop :=
  (forall r ws pend, g_run st r = Some (ws, pend) -> forall w, In w ws -> In w pend \/ g_ret st w = true) /\
  (forall r, g_runret st r = true -> exists ws, g_run st r = Some (ws, [])).

Lemma subn_In a b : subn a b = true <-> incl a b.
Proof.
  unfold subn. rewrite forallb_forall. split; intros H x Hx.
  - apply memn_In, H, Hx.
  - apply memn_In, H, Hx.
Qed.

Lemma step_run_ok c st t e st' : gstep c st t e = Some st' -> run_ok st -> run_ok st'.
Proof.
  intros H [H1 H2].
  assert (Hsame : g_run st' = g_run st -> g_runret st' = g_runret st ->
                  (forall w, g_ret st w = true -> g_ret st' w = true) -> run_ok st').
  { intros Hr Hrr Hret. unfold run_ok. rewrite Hr, Hrr. split; [|exact H2].
    intros r ws pend Hrun w Hw. destruct (H1 r ws pend Hrun w Hw) as [Hp|Hp]; [left; exact Hp|right; apply Hret, Hp]. }
  destruct e as [a tid created|a tid|tid le|tid o|a targets|tid|a w|a w targets|w|w r|r actors aws|r done|r|tid w targets|w|a lim|a l]; unfold gstep in H.
  1,2,4,5,6: (apply Hsame; crush_step H; try reflexivity; trivial).
  - (* GLoop *) apply Hsame;
      destruct le; try discriminate; destruct (g_tasks st tid) as [[a s|]|]; try discriminate;
      match type of H with context [lstep ?l ?d ?s0 ?t0 ?e0] => destruct (lstep l d s0 t0 e0) end;
      try discriminate; injection H as <-; try reflexivity; trivial.
  - (* GWaitCall *) destruct (fresh_call st w); [|discriminate]. injection H as <-.
    apply Hsame; unfold begin_wait; destruct (g_set st a); try reflexivity; trivial.
  - (* GStopCall *) destruct (fresh_call st w); [|discriminate]. destruct (g_set st a) eqn:Es.
    + destruct targets; [|discriminate]. injection H as <-. apply Hsame; unfold begin_wait; rewrite Es; try reflexivity; trivial.
    + destruct (set_eqb (pending_of st (n :: l)) targets); [|discriminate]. injection H as <-.
      apply Hsame; unfold begin_wait; cbn; rewrite Es; try reflexivity; trivial.
  - (* GWake *) unfold wake in H. destruct (g_wait st w) as [W|]; [|discriminate].
    destruct (forallb (is_done st) (w_snap W)); [|discriminate].
    apply Hsame; destruct (errs_of st (w_snap W)), (removen (g_set st (w_actor W)) (w_snap W));
      injection H as <-; try reflexivity; trivial.
  - (* GRet *) destruct (g_fin st w) as [F|]; [|discriminate].
    destruct (negb (g_ret st w) && wres_eqb (f_res F) r); [|discriminate]. injection H as <-.
    apply Hsame; try reflexivity. cbn. intros w' Hw'. unfold updn. destruct (Nat.eqb w' w); [reflexivity|exact Hw'].
  - (* GRunCall *) destruct (g_run st r) eqn:Er; [discriminate|].
    destruct (list_eqb Nat.eqb (map fst aws) actors); [|discriminate]. injection H as <-. split; cbn.
    + intros r' ws' pend. unfold updn. destruct (Nat.eqb_spec r' r) as [->|]; [|apply H1].
      intros Hr. injection Hr as <- <-. intros w Hw. left. exact Hw.
    + intros r' Hrr. unfold updn. destruct (Nat.eqb_spec r' r) as [->|]; [|apply H2, Hrr].
      destruct (H2 r Hrr) as [ws' Hws]. congruence.
  - (* GRunWake *) destruct (g_run st r) as [[ws pend]|] eqn:Er; [|discriminate].
    match type of H with (if ?b then _ else _) = _ => destruct b eqn:Eb end; [|discriminate]. injection H as <-.
    apply andb_prop in Eb as [Eb Eb4]. apply andb_prop in Eb as [Eb Eb3]. apply andb_prop in Eb as [Eb1 Eb2].
    split; cbn.
    + intros r' ws' pend'. unfold updn. destruct (Nat.eqb_spec r' r) as [->|]; [|apply H1].
      intros Hr. injection Hr as <- <-. intros w Hw.
      destruct (H1 r ws pend Er w Hw) as [Hp|Hp]; [|right; exact Hp].
      destruct (memn w done) eqn:Em.
      * right. rewrite forallb_forall in Eb3. apply Eb3, memn_In, Em.
      * left. apply removen_In. split; [exact Hp|]. intros Hd. apply memn_In in Hd. congruence.
    + intros r' Hrr. unfold updn. destruct (Nat.eqb_spec r' r) as [->|]; [|apply H2, Hrr].
      destruct (H2 r Hrr) as [ws' Hws]. rewrite Er in Hws. injection Hws as -> ->.
      destruct done as [|d done]; [discriminate|]. apply subn_In in Eb2. destruct (Eb2 d (or_introl eq_refl)).
  - (* GRunRet *) destruct (g_run st r) as [[ws [|]]|] eqn:Er; try discriminate.
    destruct (g_runret st r); [discriminate|]. injection H as <-. split; cbn; [exact H1|].
    intros r' Hrr. unfold updn in Hrr. destruct (Nat.eqb r' r) eqn:E; [apply Nat.eqb_eq in E; subst r'; exists ws; exact Er|apply H2, Hrr].
  - (* GCawCall *) apply Hsame; crush_step H; try reflexivity; trivial.
  - (* GCallCancelled *) apply Hsame; crush_step H; try reflexivity; trivial.
  - (* GSetLimit *) apply Hsame; crush_step H; try reflexivity; trivial.
  - (* GWithDone *) apply Hsame; crush_step H; try reflexivity; trivial.
Qed.

Lemma run_ok_init : run_ok g_init.
Proof. split; cbn; intros; discriminate. Qed.

Lemma reach_run_ok c tr st : grun c g_init tr = Some st -> run_ok st.
Proof. intros H. eapply (grun_inv run_ok c (step_run_ok c)); [exact H|apply run_ok_init]. Qed.

(* run() has returned only if every one of its wait() calls has returned *)
Lemma run_returned_all_finished c tr st r :
  grun c g_init tr = Some st -> g_runret st r = true ->
  exists ws, g_run st r = Some (ws, []) /\ forall w, In w ws -> g_ret st w = true.
Proof.
  intros H Hr. destruct (reach_run_ok _ _ _ H) as [H1 H2]. destruct (H2 r Hr) as [ws Hws].
  exists ws. split; [exact Hws|]. intros w Hw. destruct (H1 r ws [] Hws w Hw) as [[]|Hret]. exact Hret.
Qed.

Lemma subn_refl l : subn l l = true.
Proof. apply subn_In. intros x Hx. exact Hx. Qed.

Lemma removen_self l : removen l l = [].
Proof.
  unfold removen. induction l as [|x l IH]; [reflexivity|].
  assert (H : forall m, (forall y, In y m -> In y (x :: l)) -> filter (fun y => negb (memn y (x :: l))) m = []).
  { induction m as [|y m IHm]; intros Hm; cbn [filter]; [reflexivity|].
    destruct (memn y (x :: l)) eqn:E.
    - cbn. apply IHm. intros z Hz. apply Hm. right. exact Hz.
    - exfalso. assert (In y (x :: l)) by (apply Hm; left; reflexivity). apply memn_In in H. congruence. }
  apply H. intros y Hy. exact Hy.
Qed.

(* ... and once they all have, run() is not blocked: it resumes and returns *)
Lemma run_progress c tr st r ws pend (t : Z) :
  grun c g_init tr = Some st -> g_run st r = Some (ws, pend) -> g_runret st r = false ->
  (forall w, In w ws -> g_ret st w = true) -> incl pend ws ->
  exists tr' st', grun c st tr' = Some st' /\ g_runret st' r = true.
Proof.
  intros H Hr Hrr Hall Hincl. destruct pend as [|p pend].
  - exists [(t, GRunRet r)]. eexists. cbn. rewrite Hr, Hrr. split; [reflexivity|]. cbn. apply updn_same.
  - exists [(t, GRunWake r (p :: pend)); (t, GRunRet r)]. eexists. cbn [grun gstep]. rewrite Hr.
    assert (E : negb false && subn (p :: pend) (p :: pend) && forallb (g_ret st) (p :: pend)
                && forallb (fun w => negb (g_ret st w) || memn w (p :: pend)) (p :: pend) = true).
    { rewrite subn_refl. cbn [negb andb].
      assert (E1 : forallb (g_ret st) (p :: pend) = true) by (apply forallb_forall; intros x Hx; apply Hall, Hincl, Hx).
      rewrite E1. cbn [andb]. apply forallb_forall. intros x Hx.
      rewrite (Hall x (Hincl x Hx)), (proj2 (memn_In x (p :: pend)) Hx). reflexivity. }
    rewrite E. cbn [g_run set_run]. rewrite updn_same, removen_self. cbn [g_runret set_run]. rewrite Hrr.
    split; [reflexivity|]. cbn. apply updn_same.
Qed.

(* run() blocks on exactly one wait() call per actor it was given *)
Lemma list_eqb_nat_eq a : forall b, list_eqb Nat.eqb a b = true -> a = b.
Proof.
  induction a as [|x a IH]; intros [|y b]; cbn; try discriminate; [reflexivity|].
  intros H. apply andb_prop in H as [H1 H2]. apply Nat.eqb_eq in H1. apply IH in H2. congruence.
Qed.

Lemma run_waits_every_actor c st t r actors aws st' :
  gstep c st t (GRunCall r actors aws) = Some st' ->
  map fst aws = actors /\ g_run st' r = Some (map snd aws, map snd aws).
Proof.
  unfold gstep. destruct (g_run st r); [discriminate|].
  destruct (list_eqb Nat.eqb (map fst aws) actors) eqn:E; [|discriminate]. intros H. injection H as <-.
  split; [apply list_eqb_nat_eq, E|]. cbn. apply updn_same.
Qed.

(* ------------------------------------------------------------------ cancel_and_await(task) *)
(* the call: a done task -> returns at once, nothing raised; otherwise the cancellation of the task
   is requested (again, if it is already being cancelled) and the call blocks on exactly that task *)
Lemma caw_call c st t tid w tg st' :
  gstep c st t (GCawCall tid w tg) = Some st' ->
  (is_done st tid = true /\ g_fin st' w = Some (mkF KStop (caw_actor w) [] [] WOk) /\ g_wait st' w = g_wait st w) \/
  (is_done st tid = false /\ g_creq st' tid = S (g_creq st tid) /\
   g_wait st' w = Some (mkW KStop (caw_actor w) [tid] [] [tid]) /\ g_set st' (caw_actor w) = []).
Proof.
  unfold gstep. destruct (fresh_call st w); [|discriminate].
  destruct (g_set st (caw_actor w)) eqn:Es; [|discriminate]. destruct (is_done st tid) eqn:Ed.
  - destruct tg; [|discriminate]. intros H. injection H as <-. left. cbn. rewrite updn_same. auto.
  - destruct (set_eqb tg [tid]); [|discriminate]. intros H. injection H as <-. right. cbn.
    rewrite updn_same, Nat.eqb_refl, Ed. cbn. auto.
Qed.

(* its resumption: only when the task is done; it returns normally unless the task ended with a
   non-cancellation error, which is raised *)
Lemma caw_wake st w a tid st' :
  g_wait st w = Some (mkW KStop a [tid] [] [tid]) -> g_set st a = [] -> wake st w = Some st' ->
  is_done st tid = true /\
  g_fin st' w = Some (mkF KStop a [tid] [tid] (result_of KStop (errs_of st [tid]))) /\ g_wait st' w = None.
Proof.
  unfold wake. intros HW Hs. rewrite HW. cbn [w_snap w_actor w_prev w_kind w_s0].
  destruct (forallb (is_done st) [tid]) eqn:Ed; [|discriminate].
  rewrite Hs. cbn [removen filter app].
  assert (Hd : is_done st tid = true) by (cbn in Ed; rewrite andb_true_r in Ed; exact Ed).
  destruct (errs_of st [tid]) eqn:Ee; intros H; injection H as <-; cbn; rewrite !updn_same; auto.
Qed.

(* a step of a loop task is a step of the loop transition system under ITS actor's restart limit and
   restart delay *)
Lemma loop_step_uses_own_config c st t tid le st' :
  gstep c st t (GLoop tid le) = Some st' ->
  exists a s s', g_tasks st tid = Some (TLoop a s) /\ le <> LCancel /\
                 lstep (cur_limit c st a) (c_delay c a) s t le = Some s' /\ g_tasks st' tid = Some (TLoop a s').
Proof.
  unfold gstep. intros H.
  destruct le; try discriminate; destruct (g_tasks st tid) as [[a s|]|]; try discriminate;
    match type of H with context [lstep ?l ?d ?s0 ?t0 ?e0] => destruct (lstep l d s0 t0 e0) as [s'|] eqn:El end;
    try discriminate; injection H as <-; exists a, s, s'; cbn; rewrite updn_same; repeat split; try discriminate; auto.
Qed.

(* the awaiter of a blocked call is cancelled: the call is abandoned (it raised CancelledError), it has NOT
   returned, and nothing else changes -- in particular no task is considered finished *)
Lemma awaiter_cancelled c st t w st' :
  gstep c st t (GCallCancelled w) = Some st' ->
  g_wait st w <> None /\ g_wait st' w = None /\ g_fin st' = g_fin st /\ g_ret st' = g_ret st /\
  g_tasks st' = g_tasks st /\ g_set st' = g_set st.
Proof.
  unfold gstep. destruct (g_wait st w) eqn:E; [|discriminate]. intros H. injection H as <-. cbn.
  rewrite updn_same. repeat split. discriminate.
Qed.

(* a call returns (GRet is accepted) only if its result has been determined, i.e. after the tasks it waited
   for were all done; a blocked call can only be resumed by GWake (all awaited tasks done) or abandoned *)
Lemma ret_needs_finished c st t w r st' :
  gstep c st t (GRet w r) = Some st' -> exists F, g_fin st w = Some F /\ wres_eqb (f_res F) r = true.
Proof.
  unfold gstep. destruct (g_fin st w) as [F|]; [|discriminate].
  destruct (negb (g_ret st w)); cbn; [|discriminate]. destruct (wres_eqb (f_res F) r) eqn:E; [|discriminate].
  intros _. exists F. auto.
Qed.
