(* C15, PV path: the reported excess is power that really could not be placed.
   If the list is sorted descending by bound (as pv_sort makes it), all bounds are <= 0 and the
   remaining power after the loop is negative and not within the is_close_to_zero tolerance, then
   every inverter was allocated exactly its lower bound. *)
From Coq Require Import Lia Lqa Setoid.
From Verif Require Import model.Accounting gen.Accounting proofs.AccountingFacts.
Open Scope Q_scope.

Definition done_rem (r : Q) : bool := Qltb 0 r || close_to_zero r.

Lemma tol_nonneg : 0 <= acc_close_to_zero_abs_tol.
Proof. apply Qle_bool_iff. vm_compute. reflexivity. Qed.

Lemma close_to_zero_eq0 : forall r, r == 0 -> close_to_zero r = true.
Proof.
  intros r H. unfold close_to_zero. apply Qle_bool_iff. rewrite H. cbn. apply tol_nonneg.
Qed.

(* once the loop sees a finished remainder it never changes it *)
Lemma pv_fill_done : forall l rem, done_rem rem = true -> snd (pv_fill rem l) = rem.
Proof.
  induction l as [|[i b] t IH]; intros rem D; [reflexivity|].
  rewrite pv_fill_cons. unfold done_rem in D. rewrite D. cbn [snd]. apply IH. exact D.
Qed.

Lemma done_rem_false_le : forall r, done_rem r = false -> r <= 0.
Proof.
  intros r D. unfold done_rem in D. apply orb_false_iff in D. destruct D as [D _]. apply Qltb_false. exact D.
Qed.

Lemma inject_S : forall n, inject_Z (Z.of_nat (S n)) == inject_Z (Z.of_nat n) + 1.
Proof.
  intro n. rewrite Nat2Z.inj_succ. unfold Z.succ. rewrite inject_Z_plus. reflexivity.
Qed.

(* equal-share phase: the remainder is exactly s per remaining inverter and nobody's bound binds *)
Lemma pv_fill_equal_share : forall t rem s,
  rem == s * inject_Z (Z.of_nat (length t)) -> s <= 0 ->
  (forall y, In y t -> snd y <= s) ->
  done_rem (snd (pv_fill rem t)) = true.
Proof.
  induction t as [|[j bj] t IH]; intros rem s E Hs Hb.
  - cbn [pv_fill snd]. unfold done_rem. rewrite (close_to_zero_eq0 rem); [apply orb_true_r|].
    rewrite E. cbn. ring.
  - destruct (done_rem rem) eqn:D.
    + rewrite (pv_fill_done _ _ D). exact D.
    + rewrite pv_fill_cons. unfold done_rem in D. rewrite D. cbv zeta. cbn [snd].
      set (k := inject_Z (Z.of_nat (S (length t)))).
      assert (Kpos : 0 < k) by apply inject_pos.
      assert (Ek : k == inject_Z (Z.of_nat (length t)) + 1) by apply inject_S.
      cbn [length] in E. fold k in E.
      assert (Eshare : rem / k == s).
      { rewrite E. field. intro Z0. rewrite Z0 in Kpos. apply (Qlt_irrefl 0). exact Kpos. }
      assert (N0 : 0 <= inject_Z (Z.of_nat (length t))).
      { unfold Qle. cbn. lia. }
      assert (Hrem : rem <= s).
      { rewrite E, Ek. assert (M : s * inject_Z (Z.of_nat (length t)) <= 0).
        { rewrite <- (Qmult_0_l (inject_Z (Z.of_nat (length t)))). apply Qmult_le_compat_r; assumption. }
        lra. }
      assert (Hbj : bj <= s) by (apply (Hb (j, bj)); left; reflexivity).
      set (alloc := Qmax (Qmax rem bj) (rem / k)).
      assert (Ea : alloc == s).
      { apply Qle_antisym.
        - unfold alloc. apply Qmax_lub; [apply Qmax_lub; assumption|rewrite Eshare; apply Qle_refl].
        - rewrite <- Eshare. unfold alloc. apply Qmax_ge_r. }
      apply (IH (rem - alloc) s).
      * rewrite Ea, E, Ek. ring.
      * exact Hs.
      * intros y Hy. apply Hb. right. exact Hy.
Qed.

Lemma pv_fill_saturated : forall l rem,
  desc_sorted l -> (forall y, In y l -> snd y <= 0) ->
  done_rem (snd (pv_fill rem l)) = false ->
  Forall2 (fun w a => snd a == snd w) l (fst (pv_fill rem l)).
Proof.
  induction l as [|[i b] t IH]; intros rem Srt B F; [constructor|].
  destruct (done_rem rem) eqn:D.
  { rewrite (pv_fill_done _ _ D) in F. congruence. }
  revert F. rewrite pv_fill_cons. pose proof D as D'. unfold done_rem in D'. rewrite D'. cbv zeta. cbn [fst snd].
  set (k := inject_Z (Z.of_nat (S (length t)))).
  assert (Kpos : 0 < k) by apply inject_pos.
  set (alloc := Qmax (Qmax rem b) (rem / k)). intro F.
  destruct Srt as [Sb St].
  assert (Hrem0 : rem <= 0) by (apply done_rem_false_le; exact D).
  assert (Hb0 : b <= 0) by (apply (B (i, b)); left; reflexivity).
  assert (Kge1 : 1 <= k).
  { unfold k. rewrite inject_S. assert (0 <= inject_Z (Z.of_nat (length t))) by (unfold Qle; cbn; lia). lra. }
  assert (Hshare : rem <= rem / k).
  { apply Qle_shift_div_l; [exact Kpos|].
    assert (M : rem * k <= rem * 1).
    { setoid_replace (rem * k) with (- ((- rem) * k)) by ring.
      setoid_replace (rem * 1) with (- ((- rem) * 1)) by ring.
      apply Qopp_le_compat. rewrite (Qmult_comm (- rem) 1), (Qmult_comm (- rem) k).
      apply Qmult_le_compat_r; [exact Kge1|lra]. }
    lra. }
  destruct (Qlt_le_dec b (rem / k)) as [Hlt|Hge].
  - (* the bound does not bind: equal shares from here on, nothing is left — contradiction *)
    exfalso.
    assert (Ea : alloc == rem / k).
    { apply Qle_antisym.
      - unfold alloc. apply Qmax_lub; [apply Qmax_lub; [exact Hshare|apply Qlt_le_weak; exact Hlt]|apply Qle_refl].
      - unfold alloc. apply Qmax_ge_r. }
    assert (T : done_rem (snd (pv_fill (rem - alloc) t)) = true).
    { apply (pv_fill_equal_share t (rem - alloc) (rem / k)).
      - rewrite Ea. unfold k. rewrite inject_S. field.
        fold k. intro Z0. assert (X : k == 0) by (unfold k; rewrite inject_S; exact Z0).
        rewrite X in Kpos. apply (Qlt_irrefl 0). exact Kpos.
      - apply Qle_shift_div_r; [exact Kpos|lra].
      - intros y Hy. eapply Qle_trans; [apply Sb; exact Hy|]. cbn [snd]. apply Qlt_le_weak. exact Hlt. }
    congruence.
  - constructor.
    + cbn [snd]. fold alloc. apply Qle_antisym.
      * unfold alloc. apply Qmax_lub; [apply Qmax_lub; [eapply Qle_trans; eassumption|apply Qle_refl]|exact Hge].
      * unfold alloc. eapply Qle_trans; [|apply Qmax_ge_l]. apply Qmax_ge_r.
    + apply IH; [exact St|intros y Hy; apply B; right; exact Hy|exact F].
Qed.

(* on the manager: a reported excess that is negative and not negligible means every usable
   inverter was driven to its lower bound *)
Lemma pv_excess_saturated : forall x, pv_distributing x ->
  (forall i b, In (i, Some b) (p_working x) -> b <= 0) ->
  done_rem (r_excess (pv_result x)) = false ->
  Forall2 (fun w a => fst a = fst w /\ snd a == snd w) (pv_sorted_working x) (pv_calls x).
Proof.
  intros x D B F. rewrite (pv_excess x D) in F.
  assert (B' : forall y, In y (pv_sorted_working x) -> snd y <= 0).
  { intros [i b] Hy. unfold pv_sorted_working in Hy. apply (Permutation.Permutation_in _ (pv_sort_perm _)) in Hy.
    apply with_data_In in Hy. cbn [snd]. eapply B. exact Hy. }
  pose proof (pv_fill_saturated _ _ (pv_sort_sorted _) B' F) as S.
  pose proof (pv_fill_bounds (pv_sorted_working x) (p_req x)) as Bd.
  unfold pv_calls. rewrite (proj1 D). fold (pv_sorted_working x) in S.
  revert S Bd. generalize (fst (pv_fill (p_req x) (pv_sorted_working x))). generalize (pv_sorted_working x).
  induction l as [|w l IH]; intros l' S Bd.
  - inversion S. constructor.
  - inversion S as [|w1 a1 l1 l1' Hs S']. subst. inversion Bd as [|w2 a2 l2 l2' Hb Bd']. subst.
    constructor; [split; [exact (proj1 Hb)|exact Hs]|apply IH; assumption].
Qed.
