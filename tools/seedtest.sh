#!/bin/sh
# usage: seedtest.sh <patch.diff> <ID> [<ID>...]   -- run checks against a scratch worktree with the patch applied
P=$(realpath "$1"); shift
WT=/tmp/seedrun_$$
git -C /repo worktree add -q $WT HEAD || exit 2
if ! git -C $WT apply "$P"; then echo "PATCH DOES NOT APPLY"; git -C /repo worktree remove --force $WT; exit 2; fi
cd /verif
for id in "$@"; do
  echo "== $id on $(basename $(dirname $P))/$(basename $P)"
  VERIF_REPO=$WT /venv/bin/python tools/check.py $id 2>&1 | grep -E "^(VIOLATION|KNOWN-FINDING|OK)" | head -6
done
git -C /repo worktree remove --force $WT

