from fractions import Fraction as F
import math
class X:
    """Exact rational that survives mixing with Python floats/ints."""
    __slots__=("q",)
    def __init__(self, v):
        self.q = v.q if isinstance(v, X) else F(v)
    @staticmethod
    def _c(o):
        if isinstance(o, X): return o.q
        if isinstance(o, (int, F)): return F(o)
        if isinstance(o, float):
            if math.isnan(o) or math.isinf(o): raise ValueError("non-finite float met exact number")
            return F(o)
        return NotImplemented
    def __add__(s,o): o=X._c(o); return X(s.q+o)
    __radd__=__add__
    def __sub__(s,o): o=X._c(o); return X(s.q-o)
    def __rsub__(s,o): o=X._c(o); return X(o-s.q)
    def __mul__(s,o): o=X._c(o); return X(s.q*o)
    __rmul__=__mul__
    def __truediv__(s,o): o=X._c(o); return X(s.q/o)
    def __rtruediv__(s,o): o=X._c(o); return X(o/s.q)
    def __pow__(s,e):
        if isinstance(e,X): e=e.q
        if F(e).denominator!=1: raise ValueError("non-integer exponent")
        return X(s.q**int(e))
    def __neg__(s): return X(-s.q)
    def __pos__(s): return s
    def __abs__(s): return X(abs(s.q))
    def __float__(s): return float(s.q)
    def __eq__(s,o): o=X._c(o); return s.q==o
    def __ne__(s,o): o=X._c(o); return s.q!=o
    def __lt__(s,o): o=X._c(o); return s.q<o
    def __le__(s,o): o=X._c(o); return s.q<=o
    def __gt__(s,o): o=X._c(o); return s.q>o
    def __ge__(s,o): o=X._c(o); return s.q>=o
    def __hash__(s): return hash(s.q)
    def __bool__(s): return s.q!=0
    def __repr__(s): return f"X({s.q})"
