"""Shared machinery of every check: Coq build, case evaluation inside Coq,
verdict logic (proof / correspondence / oracle), replays, known findings, evidence."""
from __future__ import annotations

import fcntl
import hashlib
import json
import os
import random
import re
import shutil
import subprocess
import sys
import time
from fractions import Fraction
from pathlib import Path

ROOT = Path(__file__).resolve().parent.parent.parent
COQ = ROOT / "coq"
REPO = Path(os.environ.get("VERIF_REPO", "/repo"))
if REPO.resolve() != Path("/repo"):
    # checks pointed at a scratch worktree (mutants, patches) get a private copy of coq/ so that
    # their regenerated gen/*.v and rebuilt .vo never disturb checks running against /repo
    _priv = ROOT / ".build" / ("coq_" + hashlib.sha1(str(REPO.resolve()).encode()).hexdigest()[:10])
    _priv.parent.mkdir(exist_ok=True)
    subprocess.run(["rsync", "-a", "--delete", "--exclude", "cases/", "--exclude", "build.lock",
                    "--exclude", "gen/", str(COQ) + "/", str(_priv) + "/"], check=True)
    (_priv / "gen").mkdir(exist_ok=True)
    COQ = _priv
CASES = COQ / "cases"
NPROC = int(os.environ.get("VERIF_JOBS", "16"))

ALLOWED_AXIOMS = {
    # axioms declared by Coq's standard library that a development here may rely on;
    # each occurrence is listed per theorem in the evidence.
    "functional_extensionality_dep", "FunctionalExtensionality.functional_extensionality_dep",
    "Coq.Logic.FunctionalExtensionality.functional_extensionality_dep",
}

FORBIDDEN = re.compile(r"\b(Admitted|admit|Axiom|Axioms|Parameter|Parameters|Conjecture|Hypothesis|Variable|"
                       r"Unset Guard|bypass_check|Admit Obligations)\b|type-in-type|impredicative-set")


# ----------------------------------------------------------------------------- Coq terms
def cZ(n) -> str:
    n = int(n)
    return f"({n})" if n < 0 else str(n)


def cQ(x) -> str:
    fr = Fraction(x)
    return f"({fr.numerator} # {fr.denominator})"


def cbool(b) -> str:
    return "true" if b else "false"


def copt(x, f=cZ) -> str:
    return "None" if x is None else f"(Some {f(x)})"


def clist(xs, f=cZ) -> str:
    return "[" + "; ".join(f(x) for x in xs) + "]"


def cpair(a, b) -> str:
    return f"({a}, {b})"


def cnat(n) -> str:
    return f"{int(n)}%nat"


# ----------------------------------------------------------------------------- build
def _sh(cmd, cwd=None, timeout=1800, env=None):
    p = subprocess.run(cmd, cwd=cwd, shell=isinstance(cmd, str), capture_output=True, text=True,
                       timeout=timeout, env=env)
    return p.returncode, p.stdout + p.stderr


class BuildLock:
    def __enter__(self):
        self.f = open(COQ / "build.lock", "w")
        fcntl.flock(self.f, fcntl.LOCK_EX)
        return self

    def __exit__(self, *a):
        fcntl.flock(self.f, fcntl.LOCK_UN)
        self.f.close()


def v_files() -> list[str]:
    out = []
    for d in ("gen", "model", "proofs", "props"):
        out += sorted(str(p.relative_to(COQ)) for p in (COQ / d).glob("*.v"))
    return out


def translate() -> dict:
    sys.path.insert(0, str(ROOT / "tools"))
    os.environ["VERIF_COQ_DIR"] = str(COQ)
    import translate as tr  # noqa
    tr.OUT = COQ / "gen/Extracted.v"
    return tr.run()


def ensure_makefile():
    proj = "-Q . Verif\n" + "\n".join(v_files()) + "\n"
    pf = COQ / "_CoqProject"
    if not pf.exists() or pf.read_text() != proj or not (COQ / "Makefile").exists():
        pf.write_text(proj)
        rc, out = _sh("coq_makefile -f _CoqProject -o Makefile", cwd=COQ)
        if rc != 0:
            raise RuntimeError("coq_makefile failed: " + out)


def build(targets: list[str] | None = None, timeout=2400) -> tuple[bool, str]:
    """Full .vo build (never -vos) of the given .vo targets (or everything) under a lock."""
    with BuildLock():
        ensure_makefile()
        tgt = " ".join(targets) if targets else ""
        cmd = f"timeout {timeout} make -j{NPROC} {tgt} 2>&1"
        rc, out = _sh(cmd, cwd=COQ, timeout=timeout + 60)
        return rc == 0, out


def closure(vfile: str) -> list[str]:
    """.v files (relative to coq/) that [vfile] transitively depends on, itself included."""
    seen, todo = [], [vfile]
    while todo:
        f = todo.pop()
        if f in seen or not (COQ / f).exists():
            continue
        seen.append(f)
        txt = (COQ / f).read_text()
        for m in re.finditer(r"\b(gen|model|proofs|props)\.([A-Za-z0-9_]+)", txt):
            todo.append(f"{m.group(1)}/{m.group(2)}.v")
    return sorted(seen)


def count_obligations(files: list[str]) -> tuple[int, list[str]]:
    names = []
    for f in files:
        txt = (COQ / f).read_text()
        txt = re.sub(r"\(\*.*?\*\)", "", txt, flags=re.S)
        names += [f"{f}:{m.group(2)}" for m in re.finditer(r"^\s*(Theorem|Lemma|Corollary|Example|Fact|Proposition)\s+([A-Za-z0-9_']+)", txt, flags=re.M)]
    return len(names), names


def grep_gate(files: list[str]) -> list[str]:
    bad = []
    for f in files:
        txt = (COQ / f).read_text()
        txt = re.sub(r"\(\*.*?\*\)", "", txt, flags=re.S)
        for i, line in enumerate(txt.splitlines(), 1):
            if FORBIDDEN.search(line):
                # `Variable`/`Hypothesis` are fine inside a Section; flag only outside one
                if re.search(r"\b(Variable|Hypothesis)\b", line) and not re.search(r"Admitted|admit|Axiom|Parameter|Conjecture", line):
                    before = txt.splitlines()[:i]
                    depth = sum(1 for l in before if re.match(r"\s*Section\b", l)) - sum(1 for l in before if re.match(r"\s*End\b", l))
                    if depth > 0:
                        continue
                bad.append(f"{f}:{i}: {line.strip()}")
    return bad


def coqc(path: Path, timeout=900) -> tuple[int, str]:
    rel = path.relative_to(COQ)
    return _sh(f"timeout {timeout} coqc -Q . Verif {rel} 2>&1", cwd=COQ, timeout=timeout + 30)


def print_assumptions(props_file: str) -> tuple[bool, dict, str]:
    """Re-compile props/<ID>.v and parse every `Print Assumptions` answer."""
    rc, out = coqc(COQ / props_file)
    res = {}
    if rc != 0:
        return False, res, out
    txt = (COQ / props_file).read_text()
    thms = re.findall(r"Print Assumptions\s+([A-Za-z0-9_'.]+)\s*\.", txt)
    blocks = re.split(r"(?=Closed under the global context|Axioms:)", out)
    blocks = [b for b in blocks if b.startswith("Closed under") or b.startswith("Axioms:")]
    for name, b in zip(thms, blocks):
        if b.startswith("Closed under"):
            res[name] = []
        else:
            res[name] = re.findall(r"^([A-Za-z0-9_'.]+)\s*:", b, flags=re.M)
    ok = len(blocks) == len(thms)
    return ok, res, out


# ----------------------------------------------------------------------------- cases in Coq
def parse_nat_list(out: str) -> list[int] | None:
    m = re.search(r"=\s*\[(.*?)\]\s*(%nat)?\s*:\s*list nat", out.replace("\n", " "), flags=re.S)
    if not m:
        return None
    body = m.group(1).strip()
    if not body:
        return []
    return [int(x.replace("%nat", "").strip()) for x in body.split(";")]


def eval_cases(tag: str, header: str, case_terms: list[str], check_fn: str = "check",
               chunk: int = 300) -> tuple[list[int], list[str]]:
    """Evaluate [check_fn] on every case term inside Coq (vm_compute).

    Returns (indices of cases on which check_fn is false, errors).  Every chunk is its
    own .v file compiled by its own coqc; chunks run NPROC at a time."""
    CASES.mkdir(exist_ok=True)
    files = []
    for k in range(0, len(case_terms), chunk):
        name = f"{tag}_{os.getpid()}_{k // chunk}"
        body = ";\n  ".join(case_terms[k:k + chunk])
        # the list is an argument of idx_filter so that its element type comes from check_fn
        # (a chunk whose cases all have [] in one position has no type of its own)
        txt = (f"{header}\nEval vm_compute in (idx_filter (fun c => negb ({check_fn} c)) [\n  {body}\n]).\n")
        p = CASES / f"{name}.v"
        p.write_text(txt)
        files.append((k, p))
    bad, errors = [], []
    procs = []
    pending = list(files)
    running = []

    def launch(k, p):
        return (k, p, subprocess.Popen(f"timeout 900 coqc -Q . Verif cases/{p.name} 2>&1", cwd=COQ, shell=True,
                                       stdout=subprocess.PIPE, text=True))
    while pending or running:
        while pending and len(running) < NPROC:
            running.append(launch(*pending.pop(0)))
        k, p, pr = running.pop(0)
        out, _ = pr.communicate()
        idx = parse_nat_list(out) if pr.returncode == 0 else None
        if idx is None:
            errors.append(f"{p.name}: rc={pr.returncode}: {out[-1500:]}")
        else:
            bad += [k + i for i in idx]
        for ext in (".v", ".vo", ".vok", ".vos", ".glob"):
            q = p.with_suffix(ext)
            if q.exists():
                q.unlink()
        aux = p.parent / f".{p.stem}.aux"
        if aux.exists():
            aux.unlink()
    return sorted(bad), errors


import contextlib


@contextlib.contextmanager
def debug_logging():
    """DEBUG level on the library's loggers for the duration of one case (records go to a NullHandler).
    Code under `if _logger.isEnabledFor(logging.DEBUG)` and the argument expressions of debug calls run; the
    property must hold whatever the log level is."""
    import logging
    prev = logging.root.manager.disable
    logging.disable(logging.NOTSET)
    lg = logging.getLogger("frequenz")
    old_level, old_prop, h = lg.level, lg.propagate, logging.NullHandler()
    lg.setLevel(logging.DEBUG)
    lg.propagate = False
    lg.addHandler(h)
    logging.root.addHandler(h)      # keeps other libraries' records away from the last-resort stderr handler
    try:
        yield
    finally:
        logging.root.removeHandler(h)
        lg.removeHandler(h)
        lg.setLevel(old_level)
        lg.propagate = old_prop
        logging.disable(prev)


CASE_TIMEOUT_S = int(os.environ.get("VERIF_CASE_TIMEOUT", "240"))
_case_timeouts = [0]


@contextlib.contextmanager
def case_watchdog():
    """A case that does not finish (a change that makes the implementation spin or dead-lock under the harness) must
    not hang the check: SIGALRM raises TimeoutError inside whatever is running; the driver reports it as a `crash`
    with the case as replay.  After the first time-out the limit drops, so that shrinking stays bounded."""
    import signal
    if not hasattr(signal, "SIGALRM"):
        yield
        return
    limit = CASE_TIMEOUT_S if _case_timeouts[0] == 0 else max(10, CASE_TIMEOUT_S // 12)

    def on_alarm(signum, frame):
        _case_timeouts[0] += 1
        raise TimeoutError(f"the case did not finish within {limit} s")
    old = signal.signal(signal.SIGALRM, on_alarm)
    signal.alarm(limit)
    try:
        yield
    finally:
        signal.alarm(0)
        signal.signal(signal.SIGALRM, old)


def run_case(st, case):
    """Run one case on the implementation; cases flagged `debug_log` run with debug logging enabled."""
    with case_watchdog():
        if isinstance(case, dict) and case.get("debug_log"):
            with debug_logging():
                return st.run_impl(case)
        return st.run_impl(case)


def eval_show(tag: str, header: str, term: str) -> str:
    """Evaluate one term inside Coq and return Coq's printed answer (for replays)."""
    CASES.mkdir(exist_ok=True)
    p = CASES / f"{tag}_show_{os.getpid()}.v"
    p.write_text(f"{header}\nEval vm_compute in ({term}).\n")
    rc, out = coqc(p, timeout=300)
    for ext in (".v", ".vo", ".vok", ".vos", ".glob"):
        q = p.with_suffix(ext)
        if q.exists():
            q.unlink()
    aux = p.parent / f".{p.stem}.aux"
    if aux.exists():
        aux.unlink()
    return " ".join(out.split())[:4000]


# ----------------------------------------------------------------------------- findings
def load_findings() -> list[dict]:
    f = ROOT / "known_findings.json"
    if not f.exists():
        return []
    return json.loads(f.read_text()).get("findings", [])


# ----------------------------------------------------------------------------- streams
class Stream:
    """One correspondence + oracle stream of a property check.  Subclass and override."""
    name = "stream"
    coq_header = ""          # Require Import ... + Definition check (c : ...) : bool
    check_fn = "check"

    def gen(self, rng: random.Random, tier: str):
        """Yield JSON-able cases (corpus cases are prepended by the driver)."""
        raise NotImplementedError

    def run_impl(self, case):
        """Run the real implementation; return a JSON-able observation."""
        raise NotImplementedError

    def to_coq(self, case, obs) -> str | None:
        """Coq term fed to check_fn, or None if this case has no model twin."""
        raise NotImplementedError

    def show_term(self, case, obs) -> str | None:
        return None

    def oracle(self, case, obs) -> list[dict]:
        """Property judged on implementation-observable values: list of
        {what: str, finding: <known-finding id or None>}"""
        return []

    def key(self, case, obs):
        """Hashable key; distinct keys of non-trivial cases are counted. None = trivial."""
        return json.dumps(case, sort_keys=True, default=str)

    def labels(self, case, obs) -> list[str]:
        return []

    def shrink(self, case):
        return []


class Verdict:
    def __init__(self, pid):
        self.pid = pid
        self.violations = []      # (replay dict, found_input: bool)
        self.known = []           # strings
        self.notes = []


def replay_write(pid: str, payload: dict) -> Path:
    d = ROOT / "replays"
    d.mkdir(exist_ok=True)
    blob = json.dumps(payload, sort_keys=True, default=str, indent=1)
    h = hashlib.sha1(blob.encode()).hexdigest()[:10]
    p = d / f"{pid}-{h}.json"
    p.write_text(blob)
    return p


def corpus_cases(pid: str, stream: str) -> list:
    d = ROOT / "corpus" / pid
    out = []
    if d.exists():
        for f in sorted(d.glob(f"{stream}*.json")):
            j = json.loads(f.read_text())
            out += j if isinstance(j, list) else [j]
    return out


def run_property(pid: str, props_file: str, streams: list[Stream], tier: str, seed: int,
                 needs: list[str] | None = None, extra_assumptions: list[str] | None = None,
                 trusted_extra: list[str] | None = None, replay_case: dict | None = None) -> int:
    """The one driver.  Returns the process exit code."""
    t0 = time.time()
    verdict_violations: list[tuple[dict, bool]] = []
    known_lines: list[str] = []
    proof_broken: list[str] = []
    corr_broken: list[str] = []

    # 1. T-tie
    tstat = translate()
    for item in (needs or []):
        if tstat.get(item) != "ok":
            proof_broken.append(f"translate:{item}: {tstat.get(item)}")

    # 2. build + proof obligations
    files = closure(props_file)
    gate = grep_gate(files)
    if gate:
        proof_broken.append("forbidden construct: " + "; ".join(gate[:5]))
    extra_targets = sorted({t for st in streams for t in getattr(st, "coq_targets", [])})
    ok, log = build([props_file[:-2] + ".vo"] + extra_targets)
    n_obl, obl_names = count_obligations(files)
    axioms = {}
    if not ok:
        m = re.search(r'File "\./([^"]+)", line (\d+).*?\n(.*?)(?:\nmake|\Z)', log, flags=re.S)
        where = f"{m.group(1)}:{m.group(2)}: {' '.join(m.group(3).split())[:600]}" if m else log[-800:]
        proof_broken.append(f"coq build of {props_file} failed: {where}")
        discharged = 0
    else:
        pa_ok, axioms, pa_out = print_assumptions(props_file)
        discharged = n_obl
        if not pa_ok:
            proof_broken.append("Print Assumptions output could not be parsed: " + pa_out[-400:])
        for thm, axs in axioms.items():
            for a in axs:
                if a.split(".")[-1] not in {x.split(".")[-1] for x in ALLOWED_AXIOMS}:
                    proof_broken.append(f"theorem {thm} depends on non-allow-listed axiom {a}")
    coqchk_res = None
    if ok and tier == "thorough" and os.environ.get("VERIF_NO_COQCHK") != "1":
        mod = "Verif." + props_file[:-2].replace("/", ".")
        rc, out = _sh(f"timeout 1500 coqchk -Q . Verif -o {mod} 2>&1", cwd=COQ, timeout=1600)
        m = re.search(r"\* Axioms:(.*?)\n\s*\n\* ", out, flags=re.S)
        ax = [a.strip() for a in (m.group(1).split("\n") if m else []) if a.strip() and a.strip() != "<none>"]
        coqchk_res = {"ok": rc == 0 and "Modules were successfully checked" in out, "axioms": ax}
        if not coqchk_res["ok"]:
            proof_broken.append("coqchk rejected the compiled closure: " + out[-500:])
        # coqchk -o lists the axioms of every library loaded by the closure (used or not): they are
        # recorded in the evidence; the per-theorem gate is Print Assumptions above.
    # models must be compiled for the correspondence even if proofs broke
    model_ok = ok
    if not ok:
        model_targets = [f[:-2] + ".vo" for f in files if f.startswith(("gen/", "model/"))]
        model_ok, mlog = build(model_targets)
        if not model_ok:
            corr_broken.append("model does not compile: " + mlog[-600:])

    # 3+4. correspondence and oracle per stream
    total_eval = 0
    nontrivial = set()
    label_counts: dict[str, int] = {}
    samples = []
    stream_stats = {}
    findings = load_findings()
    known_ids = {f["id"] for f in findings if f.get("property") == pid and f.get("status") == "known"}
    seen_known = {}
    for st in streams:
        rng = random.Random(f"{seed}:{st.name}")
        cases = [] if replay_case else corpus_cases(pid, st.name)
        ncorpus = len(cases)
        if replay_case is not None:
            if replay_case.get("stream", st.name) == st.name:
                cases = [replay_case["case"]]
        else:
            gen_cases = list(st.gen(rng, tier))
            # a configuration dimension shared by all streams: one generated case in eight runs with the library's
            # loggers at DEBUG level (the flag travels with the case, so replays reproduce it)
            if getattr(st, "debug_log_dimension", True):
                drng = random.Random(f"{seed}:{st.name}:debug_log")
                for c in gen_cases:
                    if isinstance(c, dict) and "debug_log" not in c and drng.random() < 0.125:
                        c["debug_log"] = True
            cases += gen_cases
        obs_list, terms, term_idx = [], [], []
        oracle_hits = []
        for i, c in enumerate(cases):
            try:
                obs = run_case(st, c)
            except Exception as exc:  # the implementation (or its driver) blew up on this case
                import traceback
                tb = traceback.format_exc().strip().splitlines()
                where = next((l.strip() for l in reversed(tb) if "/src/frequenz/" in l), tb[-1] if tb else "")
                obs = {"__crash__": f"{type(exc).__name__}: {exc}", "where": where}
                obs_list.append(obs)
                total_eval += 1
                label_counts[f"{st.name}:crashed"] = label_counts.get(f"{st.name}:crashed", 0) + 1
                oracle_hits.append((i, {"what": f"crash: running the case raised {type(exc).__name__}: {str(exc)[:200]} ({where})", "finding": None}))
                continue
            obs_list.append(obs)
            total_eval += 1
            k = st.key(c, obs)
            if k is not None:
                nontrivial.add((st.name, k))
            for lb in st.labels(c, obs):
                label_counts[f"{st.name}:{lb}"] = label_counts.get(f"{st.name}:{lb}", 0) + 1
            for v in st.oracle(c, obs):
                oracle_hits.append((i, v))
            if model_ok:
                t = st.to_coq(c, obs)
                if t is not None:
                    terms.append(t)
                    term_idx.append(i)
        if cases and len(samples) < 6:
            j = len(cases) // 2
            samples.append({"stream": st.name, "case": cases[j], "impl_obs": obs_list[j]})
            samples.append({"stream": st.name, "case": cases[-1], "impl_obs": obs_list[-1]})
        bad, errs = ([], [])
        if model_ok and terms:
            bad, errs = eval_cases(f"{pid}_{st.name}", st.coq_header, terms, st.check_fn)
        stream_stats[st.name] = {"cases": len(cases), "corpus": ncorpus, "model_evaluated": len(terms),
                                 "disagreements": len(bad), "oracle_violations": len(oracle_hits)}
        for e in errs:
            corr_broken.append(f"{st.name}: case file failed in Coq: {e[-700:]}")
        # --- oracle violations: each is a concrete failing input
        reported = 0
        for i, v in oracle_hits:
            fid = v.get("finding")
            if fid and fid in known_ids:
                if fid not in seen_known:
                    seen_known[fid] = (st.name, cases[i], obs_list[i], v["what"])
                continue
            if reported >= 3:
                continue
            if v["what"].startswith("crash:"):
                def crashes(cc):
                    try:
                        run_case(st, cc)
                    except Exception:
                        return True
                    return False
                c = _shrink(st, cases[i], crashes, budget=60, keep_exceptions=True)
                verdict_violations.append(({"property": pid, "kind": "crash", "stream": st.name, "case": c, "impl_obs": obs_list[i],
                                            "what": v["what"], "seed": seed,
                                            "how_to_replay": f"/venv/bin/python tools/check.py {pid} --replay <this file>"}, True))
                reported += 1
                continue
            c = _shrink(st, cases[i], lambda cc: any(x.get("finding") == fid and x["what"].split(":")[0] == v["what"].split(":")[0]
                                                     for x in st.oracle(cc, run_case(st, cc))))
            o = run_case(st, c)
            what = next((x["what"] for x in st.oracle(c, o)), v["what"])
            verdict_violations.append(({"property": pid, "kind": "oracle", "stream": st.name, "case": c, "impl_obs": o,
                                        "what": what, "seed": seed,
                                        "how_to_replay": f"/venv/bin/python tools/check.py {pid} --replay <this file>"}, True))
            reported += 1
        # --- correspondence disagreements
        if bad:
            i = term_idx[bad[0]]

            def disagrees(cc):
                oo = run_case(st, cc)
                tt = st.to_coq(cc, oo)
                if tt is None:
                    return False
                b, e = eval_cases(f"{pid}_{st.name}_shr", st.coq_header, [tt], st.check_fn)
                return bool(b) and not e
            c = _shrink(st, cases[i], disagrees, budget=25)
            o = run_case(st, c)
            show = st.show_term(c, o)
            model_out = eval_show(f"{pid}_{st.name}", st.coq_header, show) if show else None
            corr_broken.append(f"{st.name}: model and implementation disagree on {len(bad)} of {len(terms)} cases")
            lead = {"stream": st.name, "case": c, "impl_obs": o, "model_obs": model_out}
            # the disagreement is the best lead: judge the property on it
            ov = st.oracle(c, o)
            if ov and not (ov[0].get("finding") in known_ids):
                verdict_violations.append(({"property": pid, "kind": "oracle-on-disagreement", **lead, "what": ov[0]["what"],
                                            "seed": seed}, True))
            else:
                verdict_violations.append(({"property": pid, "kind": "correspondence", **lead,
                                            "unchecked": f"correspondence {pid}/{st.name} (model {st.coq_header.split(chr(10))[0]})",
                                            "what": "model and implementation disagree; the property is no longer shown to hold for the code",
                                            "seed": seed}, False))

    for fid, (sname, c, o, what) in seen_known.items():
        known_lines.append(f"KNOWN-FINDING: property={pid} {fid}: {what}")

    # 5. verdict
    found_input = any(f for _, f in verdict_violations)
    if (proof_broken or [c for c in corr_broken if "disagree" not in c]) and not found_input:
        payload = {"property": pid, "kind": "unchecked-obligation",
                   "unchecked": proof_broken + corr_broken,
                   "searched": {"streams": stream_stats, "evaluations": total_eval},
                   "what": "a proof obligation or the model/code tie no longer checks and no failing input was found"}
        verdict_violations.append((payload, False))
    elif proof_broken:
        for p, _ in verdict_violations:
            p["unchecked"] = proof_broken + corr_broken

    wall = time.time() - t0
    # 6. evidence
    ev = {
        "property_id": pid, "tier": tier, "seed": seed, "level": "proof",
        "coverage": {
            "obligations": n_obl, "discharged": discharged,
            "checker_cmd": f"cd coq && make {props_file[:-2]}.vo  (coqc 8.16.1, full .vo build) ; coqc -Q . Verif {props_file} (Print Assumptions)",
            "trusted_base": ["Coq 8.16.1 kernel + vm_compute", "tools/translate.py (T-tie)",
                             "tools/lib/core.py + tools/harness (C-tie: generators, canonicalisers, case writer)",
                             "CPython 3.12, /venv packages"] + (trusted_extra or []),
            "theorems": obl_names,
            "axioms_per_theorem": axioms,
            "coqchk": coqchk_res,
            "translated_items": {k: v for k, v in tstat.items() if not needs or k in needs},
            "evaluations": total_eval,
            "distinct_nontrivial": len(nontrivial),
            "rule": "cases = corpus + seeded generation per stream; a case is non-trivial when its stream's key() is not None; distinct = distinct keys",
            "samples": samples[:6],
            "streams": stream_stats,
            "input_distribution": dict(sorted(label_counts.items())),
            "proof_broken": proof_broken, "correspondence_broken": corr_broken,
            "known_findings_seen": sorted(seen_known),
        },
        "assumptions": extra_assumptions or [],
        "wall_s": round(wall, 2),
        "violations": len(verdict_violations),
    }
    if discharged == 0:  # keep the file schema-valid on a run whose proofs did not build
        del ev["coverage"]["discharged"]
        ev["coverage"]["proofs_built"] = False
    (ROOT / "evidence").mkdir(exist_ok=True)
    # a --replay run judges one stored case: it must not replace the evidence of a full run
    # ... and neither must a run against a scratch copy of the repository (VERIF_REPO)
    ev_name = f"{pid}.json" if replay_case is None else f"{pid}.replay.json"
    if REPO.resolve() != Path("/repo"):
        ev_name = f"{pid}.scratch.json"
    (ROOT / "evidence" / ev_name).write_text(json.dumps(ev, indent=1, default=str))

    for line in known_lines:
        print(line)
    printed = set()
    for payload, found in verdict_violations:
        p = replay_write(pid, payload)
        if p in printed:
            continue
        printed.add(p)
        print(f"VIOLATION property={pid} replay={p}" + ("" if found else " no-failing-input-found"))
    if verdict_violations:
        return 1
    print(f"OK property={pid} tier={tier} obligations={n_obl} cases={total_eval} nontrivial={len(nontrivial)} wall={wall:.1f}s")
    return 0


def _shrink(st: Stream, case, still_fails, budget=200, keep_exceptions=False):
    cur = case
    improved = True
    n = 0
    while improved and n < budget:
        improved = False
        for cand in st.shrink(cur):
            n += 1
            if n > budget:
                break
            try:
                if still_fails(cand):
                    cur = cand
                    improved = True
                    break
            except Exception:  # a shrunk case the implementation rejects is simply not kept
                continue
    return cur
