#!/venv/bin/python
"""Entry point of every check:  check.py <ID> [--tier quick|thorough] [--replay file] | --setup"""
from __future__ import annotations

import argparse
import importlib
import json
import os
import sys
from pathlib import Path

HERE = Path(__file__).resolve().parent
if os.environ.get("VERIF_REEXEC") != "1":
    env = dict(os.environ)
    env.update({"VERIF_REEXEC": "1", "PYTHONHASHSEED": "0", "PYTHONDONTWRITEBYTECODE": "1",
                "PYTHONPATH": f"{os.environ.get('VERIF_REPO', '/repo')}/src:{HERE}",
                "FREQUENZ_SDK_VERIF": "1"})
    os.execve("/venv/bin/python", ["/venv/bin/python", str(HERE / "check.py")] + sys.argv[1:], env)

import logging  # noqa: E402
logging.disable(logging.CRITICAL)
from lib import core  # noqa: E402


def setup() -> int:
    """Translate, then build every .v file (keep going on errors); succeed iff the property
    file of every check registered in MANIFEST.json was built."""
    st = core.translate()
    bad = {k: v for k, v in st.items() if v != "ok"}
    if bad:
        print("translate: some items failed:", json.dumps(bad, indent=1))
    with core.BuildLock():
        core.ensure_makefile()
        rc, log = core._sh(f"timeout 3000 make -k -j{core.NPROC} 2>&1", cwd=core.COQ, timeout=3100)
    man = json.loads((core.ROOT / "MANIFEST.json").read_text())
    missing = []
    for c in man["checks"]:
        vo = core.COQ / "props" / f"{c['property_id']}.vo"
        if not vo.exists():
            missing.append(str(vo))
    if rc != 0:
        print("note: some files did not build (not necessarily needed by a registered check):")
        print("\n".join(l for l in log.splitlines() if "Error" in l or l.startswith("File "))[-3000:])
    if missing:
        print("setup FAILED: missing", missing)
        print(log[-3000:])
        return 1
    print("setup ok:", len(core.v_files()), "coq files,", len(man["checks"]), "registered checks built")
    return 0


def main() -> int:
    ap = argparse.ArgumentParser()
    ap.add_argument("id", nargs="?")
    ap.add_argument("--setup", action="store_true")
    ap.add_argument("--tier", default=os.environ.get("VERIF_TIER", "quick"), choices=["quick", "thorough"])
    ap.add_argument("--replay")
    a = ap.parse_args()
    if a.setup:
        return setup()
    seed = int(os.environ.get("VERIF_SEED", "0") or 0)
    mod = importlib.import_module(f"harness.{a.id.lower()}")
    replay = None
    if a.replay:
        replay = json.loads(Path(a.replay).read_text())
        if "case" not in replay:
            print("replay names an unchecked obligation, no concrete case:", json.dumps(replay.get("unchecked"), indent=1))
            replay = None
    return core.run_property(mod.ID, mod.PROPS, mod.streams(), a.tier, seed, needs=getattr(mod, "NEEDS", None),
                             extra_assumptions=getattr(mod, "ASSUMPTIONS", None),
                             trusted_extra=getattr(mod, "TRUSTED", None), replay_case=replay)


if __name__ == "__main__":
    sys.exit(main())
