"""C02 — no inverter or battery group is commanded outside its power bounds."""
from __future__ import annotations

from harness import dist as D

ID = "C02"
PROPS = "props/C02.v"


def finding_of(case, obs, clause, gi):
    if clause == "C02_group_excl" and gi in D.split_leftover_groups(case, obs):
        return "C02-split-leftover"
    if clause == "F4_exponent0_full_battery_share":
        return "C02-exponent0-full-battery"
    return None


class C02Exact(D.DistStream):
    CLAUSES = ("C02_", "F4_")
    FINDING_OF = staticmethod(finding_of)


class C02Float(D.FloatStream):
    CLAUSES = ("C02_", "F4_")
    FINDING_OF = staticmethod(finding_of)


def streams():
    return [C02Exact(), C02Float()]


META = {
    "technique": "Coq proof over an executable Q model of the distribution algorithm + differential correspondence + property oracle",
    "level_text": "TODO",
    "level_note": "TODO",
}
