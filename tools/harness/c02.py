"""C02 — no inverter or battery group is commanded outside its power bounds."""
from __future__ import annotations

from harness import dist as D
from harness import distmgr as MG

ID = "C02"
PROPS = "props/C02.v"
NEEDS = ["dist_close_to_zero_abs_tol", "dist_manager_exponent"]


def finding_of(case, obs, clause, gi):
    if clause == "F4_exponent0_full_battery_share":
        return "C02-exponent0-full-battery"
    return None


class C02Exact(D.DistStream):
    CLAUSES = ("C02_", "F4_")
    FINDING_OF = staticmethod(finding_of)


class C02Float(D.FloatStream):
    CLAUSES = ("C02_", "F4_")
    FINDING_OF = staticmethod(finding_of)


class C02Reuse(D.ReuseStream):
    CLAUSES = ("C02_", "F4_")
    FINDING_OF = staticmethod(finding_of)


class C02Manager(MG.ManagerStream):
    CLAUSES = ("C02_", "F4_")


def streams():
    return [C02Exact(), C02Float(), C02Manager(), C02Reuse()]


ASSUMPTIONS = [
    "All C02 theorems are unconditional on the run and need no admission condition (only well-formed data and a request the code does not treat as zero).",
    "The edge of an exclusion zone is stated with the factor (1 - rel_tol), rel_tol = math.isclose's 1e-9: the minimum-power guard (fix 5d1dfb7) accepts a total that is isclose to the set's minimum power. Sets with >= 2 inverters satisfy the exact per-inverter statement (C02_inverter_multi_exact).",
    "C02_no_headroom is stated for pow functions with pow(0) = 0 (every exponent > 0; C02_manager_exponent: the shipped exponent is 1); exponent 0 gives a full battery a share by documented design (known finding C02-exponent0-full-battery).",
    "Requests with |p| <= 1e-9 W are outside the theorems; component ids pairwise distinct.",
]

META = {
    "technique": "Coq proofs over the same executable Q model as C01 (phase-by-phase invariants: reservation, deficit covering, greedy top-up, guarded split over inverters; permutation lemmas for the two sorts) + differential correspondence of the real distribute_power on exact rationals vs the model evaluated in Coq + property oracle on the implementation's output with a coded known-finding trigger",
    "level_text": "Machine-checked, closed under the global context, no run-time hypotheses: C02_manager_runs_the_algorithm, C02_inverter (every set-point is zero or inside its inverter's inclusion bounds and outside (1 - 1e-9) x its exclusion zone), C02_inverter_multi_exact (exact for sets with >= 2 inverters), C02_group (the total of a group's inverters is inside the aggregated battery inclusion bounds and zero or outside (1 - 1e-9) x the battery exclusion zone), C02_no_headroom (zero on every inverter of a group without SoC headroom, for every pow with pow(0)=0), C02_manager_exponent, C02_every_component_has_a_setpoint (result groups are a permutation of the input groups, set-point ids a permutation of the group's inverter ids). Correspondence and oracle as for C01; boundary requests (exactly the advertised exclusion bound, exactly the inclusion bound) are generated explicitly.",
    "level_note": "Reuse stream: sequences of distribute_power calls on ONE list of InvBatPair and one algorithm instance whose AggregatedBatteryData / inverter objects are mutated in place between the calls (soc, soc limits, capacity, power bounds, inverter bounds); every call is judged against, and compared with the model on, the CURRENT field values. Manager stream (a third of it built through the real BatteryManager.__init__ + start()/_create_channels on real channels and LatestValueCache objects, ids whose set order differs from sorted order; fake API with per-inverter faults, acknowledge latencies below and above an api_power_request_timeout drawn from {0.25, 0.5, 1.5, 2, 5} s (accepted = not rejected and acknowledged before the time-out), pairs of requests for disjoint battery sets in flight together on one manager (each Result judged against its own set_power calls), and a caller mutating the Request object in flight): the real BatteryManager (__new__ + injected maps, mutable fake caches, fake API client recording set_power) is driven through distribute_power over sequences of battery / inverter data updates (one side only, both, equal timestamps) and requests of both signs inside and beyond the inclusion bounds in both adjust_power modes; the C01/C02 clauses are judged on the recorded set_power calls and the Result against the LATEST data, and model/DistMgr.v (enforced bounds check + algorithm + subtraction, set order recorded from the run) is compared exactly per request. Full. Known finding: C02-exponent0-full-battery (documented behaviour, exponent 0). The unchanged tree violated C02 (findings F2, F3, split-leftover: fixed by commits fcfd05e, ccb79d8, 5d1dfb7; witnesses in corpus/C02). Trusted base as for C01.",
}
