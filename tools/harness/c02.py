"""C02 — no inverter or battery group is commanded outside its power bounds."""
from __future__ import annotations

from harness import dist as D

ID = "C02"
PROPS = "props/C02.v"
NEEDS = ["dist_close_to_zero_abs_tol", "dist_manager_exponent"]


def finding_of(case, obs, clause, gi):
    if clause == "C02_group_excl" and gi in D.split_leftover_groups(case, obs):
        return "C02-split-leftover"
    if clause == "F4_exponent0_full_battery_share":
        return "C02-exponent0-full-battery"
    return None


class C02Exact(D.DistStream):
    CLAUSES = ("C02_", "F4_")
    FINDING_OF = staticmethod(finding_of)


class C02Float(D.FloatStream):
    CLAUSES = ("C02_", "F4_")
    FINDING_OF = staticmethod(finding_of)


def streams():
    return [C02Exact(), C02Float()]


ASSUMPTIONS = [
    "C02_inverter_partial / C02_group_partial carry the hypothesis side_ok (see C01); C02_inverter_multi (groups with >= 2 inverters), C02_no_headroom and C02_every_component_has_a_setpoint are unconditional on the run.",
    "C02_no_headroom is stated for pow functions with pow(0) = 0 (every exponent > 0); exponent 0 gives a full battery a share by documented design (known finding C02-exponent0-full-battery).",
    "C02_group at full strength is false (C02_group_refuted, known finding C02-split-leftover); C02_group_partial assumes the group's split left nothing over.",
    "Requests with |p| <= 1e-9 W are outside the theorems; component ids pairwise distinct; admission condition as in C01.",
]

META = {
    "technique": "Coq proofs over the same executable Q model as C01 (phase-by-phase invariants: reservation, deficit covering, greedy top-up, split over inverters; permutation lemmas for the two sorts) + differential correspondence of the real distribute_power on exact rationals vs the model evaluated in Coq + property oracle on the implementation's output with coded known-finding triggers",
    "level_text": "Machine-checked, closed under the global context: C02_inverter_multi (every set-point of a group with >= 2 inverters is zero or inside that inverter's inclusion bounds and outside its exclusion zone, unconditionally), C02_inverter_partial (all inverters, under side_ok), C02_group_partial (group total inside the aggregated battery inclusion bounds; zero or outside the battery exclusion zone when the split left nothing over), C02_group_refuted (vm_compute witness: the clause is false at full strength), C02_no_headroom (zero on every inverter of a group without SoC headroom, for every pow with pow(0)=0), C02_every_component_has_a_setpoint (result groups are a permutation of the input groups, set-point ids a permutation of the group's inverter ids). Correspondence and oracle as for C01; boundary requests (exactly the advertised exclusion bound, exactly the inclusion bound) are generated explicitly.",
    "level_note": "Partial for single-inverter groups and group totals (hypothesis side_ok, checked by evaluation on every in-domain case). Known findings: C02-split-leftover (group with >= 2 inverters whose exclusion/inclusion bounds cannot realise the group's power; trigger coded on input + observed set-points), C02-exponent0-full-battery (documented behaviour). The unchanged tree violated C02 (findings F2, F3: fixed by commits fcfd05e, ccb79d8; witnesses in corpus/C02). Trusted base as for C01.",
}
