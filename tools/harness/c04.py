"""C04 — lower-priority preferences are honoured only inside higher-priority bounds."""
from __future__ import annotations

from harness import matryoshka as M
from harness import poolapi

ID = "C04"
PROPS = "props/C04.v"
NEEDS = ["check_exclusion_bounds_overlap", "adjust_exclusion_bounds", "clamp_to_bounds", "max_proposal_age_us", "max_proposal_age_op_us"]

F8 = "F8-equal-priority-report"


def zone(s):
    ex = s["excl"]
    if ex is None or (ex[0] == 0 and ex[1] == 0):
        return None
    return ex


def inzone(z, x):
    return z is not None and z[0] < x < z[1]


def cf(z, L, U):
    return L <= U and (z is None or L <= z[0] or z[1] <= U)


def sorted_desc(props):
    return sorted(props, key=lambda p: (p["prio"], p["src"]), reverse=True)


def ideal(s, props):
    """[(L, U, proposal)] before each proposal in sweep order, final interval, conflict-free?"""
    L, U = s["incl"]
    z = zone(s)
    ok = cf(z, L, U)
    steps = []
    for p in sorted_desc(props):
        steps.append((L, U, p))
        if p["lo"] is not None:
            L = max(L, p["lo"])
        if p["hi"] is not None:
            U = min(U, p["hi"])
        ok = ok and cf(z, L, U)
    return steps, (L, U), ok


def closest(z, L, U, v):
    zone_inside = z is None or (L <= z[0] and z[1] <= U)
    cands = [a for a in range(L, U + 1) if (not inzone(z, a)) or (a == 0 and v == 0 and zone_inside)]
    if not cands:
        return None
    return min(cands, key=lambda a: (abs(a - v), a))


def expected_target(s, props):
    steps, _, ok = ideal(s, props)
    if not ok:
        return None, False
    t = 0
    for L, U, p in steps:
        if p["pref"] is not None:
            t = closest(zone(s), L, U, p["pref"])
    return t, True


def fresh_target(s, props):
    return M.run_history({"sys": s, "events": [{**p, "t": "p"} for p in props]})["targets"][-1] if props else None


class C04Stream(M.MatStream):
    n_quick = 2200
    n_thorough = 30000

    def gen(self, rng, tier):
        # a conflict-free-biased stream: nested bounds, plus the generic stream
        yield from M.boundary_cases()
        n = self.n_quick if tier == "quick" else self.n_thorough
        for i in range(n):
            c = M.gen_case(rng, 6)
            if i % 2 == 0:
                # widen bounds so that most cases are conflict-free
                for e in c["events"]:
                    if e["t"] == "p":
                        if e["lo"] is not None and rng.random() < 0.7:
                            e["lo"] = rng.choice([-100, -60, -50, -31, -30, -20, -11, -10])
                        if e["hi"] is not None and rng.random() < 0.7:
                            e["hi"] = rng.choice([10, 11, 20, 30, 31, 50, 60, 100])
            yield c

    def labels(self, case, obs):
        out = super().labels(case, obs)
        s = M.cur_sys(case)
        live = list(M.live_proposals(case["events"], case.get("max_age8", 480)).values())
        if s["incl"] is not None and M.wf_sys(s) and live:
            _, _, ok = ideal(s, live)
            out.append("conflict_free" if ok else "conflicting")
        return out

    def oracle(self, case, obs):
        out = []
        s = M.cur_sys(case)
        if s["incl"] is None or not M.wf_sys(s):
            return out
        systems = [case["sys"]] + [e["sys"] for e in case["events"] if e["t"] == "b"]
        if any(x["incl"] is None and x["excl"] is None for x in systems):
            return out
        live = list(M.live_proposals(case["events"], case.get("max_age8", 480)).values())
        if not live or not case["events"] or case["events"][-1]["t"] == "b":
            return out
        final = obs["targets"][-1]
        exp, ok = expected_target(s, live)
        if not ok:
            return out
        # (1) closest admissible value to the lowest-priority preference
        if final != exp:
            out.append({"what": f"closest: target {final} but the closest admissible value to the lowest-priority preference is {exp}", "finding": None})
        # (2) a proposal with neither power nor bounds is equivalent to no proposal
        for prio in (min(p["prio"] for p in live) - 1, max(p["prio"] for p in live) + 1, live[0]["prio"]):
            extra = {"t": "p", "src": "zz_empty", "prio": prio, "pref": None, "lo": None, "hi": None, "time": live[0]["time"]}
            t2 = fresh_target(s, live + [extra])
            if t2 != final:
                out.append({"what": f"empty: adding an empty proposal at priority {prio} changes the target from {final} to {t2}", "finding": None})
                break
        # (3) reported bounds = the range in which the actor's own preference is adopted unchanged
        Power = M._imports()[0]
        order = sorted_desc(live)
        for k, a in enumerate(order):
            above = order[:k]                      # higher priority, or same priority and larger source id
            H = above + [a]
            m_events = [{**p, "t": "p"} for p in H]
            for v in case.get("adjust", [])[:3]:
                Hv = above + [{**a, "pref": v}]
                _, _, okv = ideal(s, Hv)
                if not okv:
                    continue
                r = M.run_history({"sys": s, "events": [{**p, "t": "p"} for p in Hv], "prios": [a["prio"]], "adjust": [v]})
                t = r["targets"][-1]
                adj = r["status"][0]["adjust"][0]
                says_unchanged = adj == [v, v]
                if says_unchanged != (t == v):
                    sibling = any(p["prio"] == a["prio"] and (p["lo"] is not None or p["hi"] is not None) for p in above)
                    out.append({"what": f"report: actor {a['src']} (priority {a['prio']}) is told bounds {r['status'][0]['bounds']}, adjust_to_bounds({v}) = {adj}, "
                                        f"but its preference {v} yields target {t}" + (" [same-priority sibling with bounds]" if sibling else ""),
                                "finding": F8 if sibling else None})
                    break
        # (3b) the same on the report of the OBSERVED state: whatever the target in force is and whoever chose it,
        #      adjust_to_bounds(v) on the report for an actor's priority says "unchanged" iff v, proposed by that actor, is adopted
        by_prio = {st["prio"]: st for st in obs.get("status", [])}
        for k, a in enumerate(order):
            st = by_prio.get(a["prio"])
            if st is None or out:
                continue
            above = order[:k]
            sibling = any(p["prio"] == a["prio"] and (p["lo"] is not None or p["hi"] is not None) for p in above)
            for v, adj in zip(obs.get("probes", []), st["adjust"]):
                Hv = above + [{**a, "pref": v}]
                _, _, okv = ideal(s, Hv)
                if not okv:
                    continue
                t = fresh_target(s, Hv)
                if (adj == [v, v]) != (t == v):
                    out.append({"what": f"report-in-state: target in force {obs['stored']}; the report for priority {a['prio']} has bounds {st['bounds']} and "
                                        f"adjust_to_bounds({v}) = {adj}, but actor {a['src']} proposing {v} yields target {t}"
                                        + (" [same-priority sibling with bounds]" if sibling else ""),
                                "finding": F8 if sibling else None})
                    break
        return out


def streams():
    # calls: both values of must_return_power and the target IN FORCE after every call (re-sent identical proposals)
    return [C04Stream(), poolapi.PoolApiStream(), M.CallsStream()]


META = {
    "technique": "Coq proof (simulation between the code's running bounds and the ideal interval intersection under conflict-freeness; clamp = unique argmin by exhaustive case analysis + lia; reported bounds by the same simulation) + T-tie translation of _bounds.py + differential correspondence of Matryoshka/get_status/adjust_to_bounds vs model in Coq",
    "level_text": "Machine-checked theorems (closed under the global context): for every conflict-free sorted proposal list the target is the unique closest admissible value to the lowest-priority preference inside the ideal intersection minus the exclusion zone; the reported bounds equal that intersection outside the zone; target = pick(adjust_to_bounds(report, pref)) when priorities above are strictly higher; empty proposals are no-ops. The equal-priority gap (F8) is proved as a `_refuted` theorem and listed as a known finding. Model tied to the code by translation (_bounds.py) and correspondence (thousands of histories incl. get_status and adjust_to_bounds for every priority; stream `pool_api`: real BatteryPool instances of several priorities, regular and operating-point, calling propose_power / propose_charge / propose_discharge / power_status against the real PowerManagingActor, every Request and every pool report compared with the PowerManager model in Coq).",
    "level_note": "Trusted: Coq kernel + vm_compute, tools/translate.py, harness generators, integer-valued watts. Interpretation of 'admissible' stated in props/C04.v (exactly-zero preference honoured as zero when the zone lies inside the bounds). Known finding F8 (same-priority sibling bounds missing from the report) is attributed only when the failing actor has a same-priority sibling with bounds sorted above it.",
}
