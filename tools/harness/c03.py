"""C03 — power manager target stays inside usable system bounds, history-free."""
from __future__ import annotations

import itertools

from harness import matryoshka as M
from harness import poolapi

ID = "C03"
PROPS = "props/C03.v"
NEEDS = ["check_exclusion_bounds_overlap", "adjust_exclusion_bounds", "clamp_to_bounds", "max_proposal_age_us", "max_proposal_age_op_us"]


class C03Stream(M.MatStream):
    def oracle(self, case, obs):
        out = []
        # (1) envelope, judged against the bounds in force at each call
        s = case["sys"]
        for i, (e, t) in enumerate(zip(case["events"], obs["targets"])):
            if e["t"] == "b":
                s = e["sys"]
                continue
            if M.wf_sys(s) and not M.envelope_ok(s, t):
                out.append({"what": f"envelope: target {t} after event {i} is outside the usable system bounds {s}", "finding": None})
        # (2) history-free: the final target equals the target of a fresh instance fed only the
        #     live proposals (latest per actor, not expired), in two different arrival orders
        s = M.cur_sys(case)
        live = list(M.live_proposals(case["events"], case.get("max_age8", 480)).values())
        final = next((t for e, t in zip(reversed(case["events"]), reversed(obs["targets"])) if e["t"] != "b"), None)
        last_is_call = bool(case["events"]) and case["events"][-1]["t"] != "b"
        # domain: the property quantifies over existing system bounds; while a group has neither
        # inclusion nor exclusion bounds the manager documents that proposals are ignored
        systems = [case["sys"]] + [e["sys"] for e in case["events"] if e["t"] == "b"]
        in_domain = all(not (x["incl"] is None and x["excl"] is None) for x in systems)
        if final is not None and last_is_call and live and in_domain:
            for order in (live, list(reversed(live))):
                fresh = M.run_history({"sys": s, "events": order, "max_age8": case.get("max_age8", 480)})
                if fresh["targets"][-1] != final:
                    out.append({"what": f"history: target {final} differs from {fresh['targets'][-1]} computed from the live proposals alone", "finding": None})
                    break
        # (3) expired proposals stop counting: when the last call was made with no live proposal left
        #     (all expired), the target in force (get_target_power) must be 0, not a stale value
        accepted = any(e["t"] == "p" for e in case["events"])
        if in_domain and last_is_call and accepted and not live and M.wf_sys(s) and obs["stored"] not in (0, None):
            out.append({"what": f"expiry: no live proposal is left but the target in force is still {obs['stored']}", "finding": None})
        if in_domain and last_is_call and live and final is not None and obs["stored"] != final:
            out.append({"what": f"stored: get_target_power() = {obs['stored']} differs from the target {final} just computed", "finding": None})
        return out


def streams():
    # pool_api: proposals made through the real Battery / PV / EV-charger pool classes, with pauses around the
    # maximum proposal age (expiry end to end: the pools stamp proposals, the manager's timer sweeps them)
    return [C03Stream(), M.CallsStream(), M.GroupsStream(), poolapi.PoolApiStream()]

META = {
    "technique": "Coq proof (invariant of the priority sweep by induction over the proposal list; bucket = live-set refinement by snoc-induction over histories; sort permutation-invariance) + T-tie translation of _bounds.py + differential correspondence of Matryoshka vs model evaluated in Coq",
    "level_text": "Machine-checked theorems (closed under the global context) on a Gallina model of Matryoshka whose three bounds functions are regenerated from /repo's _bounds.py on every run: envelope for every proposal list, bucket == declaratively defined live set for every history, target invariant under permutation/history. The rest of the model is tied to the code by running the real Matryoshka and the model (inside Coq, vm_compute) on thousands of generated histories; the property is also judged directly on the implementation's outputs.",
    "level_note": "Trusted: Coq kernel + vm_compute, tools/translate.py, the harness (generator coverage bounds the tie), integer-valued watts (float comparisons/subtractions exact), the 1 s expiry timer modelled as an Expire event. Domain: a group with neither inclusion nor exclusion bounds ignores proposals (documented) and is excluded from the history-freeness oracle.",
}
