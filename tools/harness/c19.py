"""C19 — formulas switch to fallback components when a primary meter fails."""
from __future__ import annotations

import json

from lib.core import Stream
from harness import fallback as FB

ID = "C19"
PROPS = "props/C19.v"

FINDING_UNALIGNED = "C19-stream-failure-unaligned"


def _valid(v):
    return not isinstance(v, str) or v == "v"


class FetcherStream(Stream):
    """real MetricFetcher + scripted receivers / scripted FallbackMetricFetcher, fetch_next() in a loop"""
    name = "fetcher"
    coq_header = FB.HEADER
    check_fn = "check"
    n_quick = 600
    n_thorough = 12000

    def gen(self, rng, tier):
        for _ in range(self.n_quick if tier == "quick" else self.n_thorough):
            yield FB.gen_fetcher_case(rng)

    def run_impl(self, case):
        return FB.run_fetcher(case)

    def to_coq(self, case, obs):
        return FB.fetcher_term(case, obs)

    def show_term(self, case, obs):
        return (f"fetch_n 100 {case['calls']}%nat (fetcher_init {FB.c_strm(case['prim'])} {FB.c_strm(case['fb'])})")

    def shrink(self, case):
        return FB.shrink_case(case)

    def key(self, case, obs):
        if not any(it == "E" or not _valid(it[1]) for it in case["prim"]["items"]) and not case["prim"]["closed"]:
            return None      # primary never fails: the fallback is never touched
        return json.dumps([case["prim"], case["fb"], case["calls"], case["sched"]])

    def labels(self, case, obs):
        out = [f"kind={case['kind']}", f"starts={obs['starts']}"]
        if case["prim"]["closed"]:
            out.append("primary_closed")
        if case["fb"]["closed"]:
            out.append("fallback_closed")
        if any(r[0] == "x" for r in obs["res"]):
            out.append("fetch_raised")
        if any(r[0] == "n" for r in obs["res"]):
            out.append("fetch_returned_None")
        fbvals = {it[1] for it in case["fb"]["items"] if it != "E"}
        if any(r[0] == "r" and r[2] in fbvals and not isinstance(r[2], str) for r in obs["res"]):
            out.append("fallback_value_returned")
        return out

    def oracle(self, case, obs):
        """on grid streams without receiver errors inside: the i-th result belongs to the i-th primary
        sample; a valid primary sample is returned as is, an invalid one is replaced only by a
        fallback sample of the same timestamp; the fallback is started at most once."""
        probs = []
        if obs["starts"] > 1:
            probs.append(f"the fallback fetcher was started {obs['starts']} times")
        both_failed = (case["prim"]["closed"] or "E" in case["prim"]["items"]) and \
                      (case["fb"]["closed"] or "E" in case["fb"]["items"])
        for i, r in enumerate(obs["res"]):
            if r[0] == "x" and (r[1] != "ReceiverError" or not both_failed):
                probs.append(f"error path: fetch_next call #{i} raised {r[1]}"
                             + ("" if both_failed else " although one of the two streams never failed"))
                break
        if case["kind"] == "transient_errors":
            # call i consumes primary item i (a sample or a raised, non-stop ReceiverError) while the primary
            # stream is open: a VALID primary sample must be returned as is, also after a transient error
            for i, r in enumerate(obs["res"][: len(case["prim"]["items"])]):
                it = case["prim"]["items"][i]
                if it != "E" and _valid(it[1]) and r != ["r", it[0], it[1]]:
                    probs.append(f"return: valid primary sample {it} (fetch #{i}, after a transient receiver error earlier in "
                                 f"the stream) was not used, got {r}")
                    break
        if case["kind"] not in ("grid", "prim_gaps", "fb_gaps"):
            return [{"what": p, "finding": None} for p in probs]
        prim = case["prim"]["items"]
        fbm = {it[0]: it[1] for it in case["fb"]["items"]}
        for i, r in enumerate(obs["res"][: len(prim)]):
            t, v = prim[i]
            if r[0] != "r":
                probs.append(f"fetch #{i} returned no sample for primary sample at tick {t}")
                break
            if _valid(v):
                if r[1:] != [t, v]:
                    probs.append(f"return: valid primary sample ({t},{v}) not used, got {r[1:]}")
                    break
            else:
                if r[1] != t:
                    probs.append(f"same-timestamp: primary sample at tick {t} answered with a sample stamped {r[1]}")
                    break
                if r[2] != v and fbm.get(t) != r[2]:
                    probs.append(f"value at tick {t} is neither the primary's nor the fallback's")
                    break
        return [{"what": p, "finding": None} for p in probs]


def closed_unaligned(case):
    """trigger of the known finding: the primary STREAM fails while the fallback's next undelivered
    sample is not the one of the next round (the error path returns fallback.receive() unsynchronised)"""
    if not case["prim"]["closed"]:
        return False
    P = case["prim"]["items"]
    F = case["fb"]["items"]
    d = case["d"]
    if not F:
        return False
    if not P:
        return True
    t_end = P[-1][0]
    inval = [t for t, v in P if not _valid(v)]
    if not inval:
        return F[0][0] != t_end + 2 * d          # error round dropped, next round takes F[0]
    if inval[0] == t_end:
        return F[0][0] != t_end + d              # started by the last sample, never synchronised
    return F[0][0] > t_end                       # synchronised at t_end unless the fallback is ahead


class E2EStream(Stream):
    """real FormulaEngine for A + B, A with a fallback"""
    name = "e2e"
    coq_header = FB.HEADER
    check_fn = "check_e2e"
    n_quick = 500
    n_thorough = 10000

    def gen(self, rng, tier):
        yield from boundary_e2e()
        for _ in range(10 if tier == "quick" else 120):     # long runs: few of them
            yield FB.gen_long_recovery_case(rng)
        for _ in range(self.n_quick if tier == "quick" else self.n_thorough):
            c = FB.gen_e2e_case(rng)
            if c["picks"] is None and closed_unaligned(c):
                c["picks"] = [0, 1]     # unaligned streams: the stamp depends on the set order -> fix it
            yield c

    def run_impl(self, case):
        return FB.run_e2e(case)

    def to_coq(self, case, obs):
        return FB.e2e_term(case, obs)

    def shrink(self, case):
        return FB.shrink_case(case)

    def key(self, case, obs):
        if not obs["out"] or (all(_valid(v) for _, v in case["prim"]["items"]) and not case["prim"]["closed"]):
            return None
        return json.dumps([case["prim"], case["fb"], case["b"], case["zeros"], case["realfb"], case["sched"]])

    def labels(self, case, obs):
        out = ["real_FallbackFormulaMetricFetcher" if case["realfb"] else "scripted_fallback",
               f"starts={min(obs['starts'], 2)}", "nones_are_zeros" if case["zeros"] else "nones_are_none"]
        if case["prim"]["closed"]:
            out.append("primary_closed")
            out.append("closed_unaligned(known finding trigger)" if closed_unaligned(case) else "closed_aligned")
        if case["fb"]["closed"]:
            out.append("fallback_closed")
        if any(o[1] is not None and (o[1] // 256) % 256 for o in obs["out"]):
            out.append("fallback_value_in_output")
        if any(o[1] is None for o in obs["out"]):
            out.append("None_output")
        P = case["prim"]["items"]
        F = case["fb"]["items"]
        inval = [t for t, v in P if not _valid(v)]
        if inval and F:
            lag = (F[0][0] - inval[0]) // case["d"]
            out.append(f"fallback_lag={'<0' if lag < 0 else '0' if lag == 0 else '1' if lag == 1 else '2+'}")
        out.append("set_order_real" if case.get("picks") is None else "set_order_prescribed")
        if case.get("kind") == "e2e_long_recovery":
            out.append("fail_recover>=60_fail_again")
        return out

    def oracle(self, case, obs):
        probs = []
        d = case["d"]
        P = case["prim"]["items"]
        F = case["fb"]["items"]
        B = case["b"]
        pm = {t: (k, v) for k, (t, v) in enumerate(P)}
        fm = {}
        for k, (t, v) in enumerate(F):
            fm.setdefault(t, (k, v))
        inval = [t for t, v in P if not _valid(v)]
        t_f = inval[0] if inval else None
        t_end = P[-1][0] if P else None
        f0 = F[0][0] if F else None
        trig = closed_unaligned(case)

        state = {"post": t_end is None, "prev": None}

        def add(tick, msg):
            after_end = state["post"]
            probs.append({"what": msg, "finding": FINDING_UNALIGNED if (trig and after_end) else None})

        for tick, val in obs["out"]:
            # outputs computed after the primary stream failed: from the first one stamped beyond the
            # primary's last timestamp or not advancing any more
            if t_end is not None and (tick > t_end or (state["prev"] is not None and tick <= state["prev"])):
                state["post"] = True
            state["prev"] = tick
            prim_valid = tick in pm and _valid(pm[tick][1])
            fb_valid = tick in fm and _valid(fm[tick][1])
            startup = (t_f is not None and tick == t_f) or (f0 is not None and tick < f0)
            if val is None:
                if case["zeros"]:
                    add(tick, f"value: None emitted at tick {tick} although missing values count as zero")
                elif prim_valid:
                    add(tick, f"return: primary is valid at tick {tick} but the formula emitted None")
                elif fb_valid and not startup:
                    add(tick, f"fallback: primary invalid/failed and fallback valid at tick {tick} (outside the start-up window) but the formula emitted None")
                continue
            p, f, b = val % 256, (val // 256) % 256, val // 65536
            if not (1 <= b <= len(B)) or B[b - 1] != tick:
                add(tick, f"same-timestamp: sample stamped {tick} used B's sample #{b - 1} stamped {B[b - 1] if 1 <= b <= len(B) else None}")
                continue
            if p and f:
                add(tick, f"value {val} at tick {tick} mixes primary and fallback")
                continue
            if p and (p > len(P) or P[p - 1][0] != tick):
                add(tick, f"same-timestamp: sample stamped {tick} used primary sample #{p - 1} stamped {P[p - 1][0] if p <= len(P) else None}")
                continue
            if f and (f > len(F) or F[f - 1][0] != tick):
                add(tick, f"same-timestamp: sample stamped {tick} used fallback sample #{f - 1} stamped {F[f - 1][0] if f <= len(F) else None}")
                continue
            if prim_valid and not p:
                add(tick, f"return: primary is valid at tick {tick} but was not used (value {val})")
            elif not prim_valid and fb_valid and not startup and not f:
                add(tick, f"fallback: primary invalid/failed, fallback valid at tick {tick}, outside the start-up window, but not used (value {val})")
            elif not prim_valid and not f and not case["zeros"]:
                add(tick, f"value {val} at tick {tick}: term A has no valid source yet contributed")
        ticks = [o[0] for o in obs["out"]]
        # the primary stream failed: the formula must go on from the fallback (all inputs were delivered
        # and the loop ran until everything blocked, so what can be computed has been computed)
        # The evaluation round that learns of the failure emits nothing and uses up the other term's sample
        # of that round (start-up allowance): in step with the primary that is tick t_end + d, but when the
        # other term STARTS after the primary's last sample (the first-run catch-up of A runs into the closed
        # stream) it is the other term's first tick.  Only ticks after that round are demanded.
        if case["prim"]["closed"] and t_end is not None and not trig and B:
            lo = max(t_end + 2 * d, B[0] + d)
            later = [t for t in B if t >= lo and t in fm]
            if later and not any(t >= lo for t in ticks):
                probs.append({"what": f"closed: nothing emitted after the primary stream failed at tick {t_end} although the "
                                      f"fallback and the other term deliver tick {later[0]}", "finding": None})
        for a, c in zip(ticks, ticks[1:]):
            if c - a == d:
                continue
            # the round in which a not-yet-started fallback learns of the stream failure emits nothing
            if c - a == 2 * d and case["prim"]["closed"] and t_end is not None and a == t_end and not inval:
                continue
            state["post"] = t_end is None or c > t_end or c <= a
            add(c, f"timeline: emitted timestamps {a} -> {c} (step {d})")
            break
        if obs["starts"] > 1:
            probs.append({"what": f"restart: the fallback formula was started {obs['starts']} times", "finding": None})
        return probs


def boundary_e2e():
    """the documented scenarios: dead primary, blip and recovery, primary stream closed (aligned)"""
    out = []
    V = "v"
    mk = lambda P, F, pc=False, nb=10, fc=False, zeros=False, real=False: {
        "kind": "e2e", "d": 1, "prim": {"items": P, "closed": pc}, "fb": {"items": F, "closed": fc},
        "b": list(range(nb)), "zeros": zeros, "realfb": real, "picks": [0, 1], "sched": [["c"]]}
    for real in (False, True):
        out.append(mk([[0, V], [1, V], [2, "none"], [3, "none"], [4, "nan"], [5, V], [6, "none"], [7, V]],
                      [[t, V] for t in range(2, 10)], real=real))
        out.append(mk([[0, V], [1, "none"], [2, "none"], [3, "none"], [4, "none"], [5, "none"]],
                      [[t, V] for t in range(3, 10)], real=real))          # fallback starts 2 steps late
        out.append(mk([[0, V], [1, V], [2, V]], [[t, V] for t in range(4, 10)], pc=True, real=real))   # closed, aligned
        out.append(mk([[0, V], [1, "none"], [2, V]], [[t, V] for t in range(0, 10)], pc=True, real=real))  # closed, synchronised
    out.append(mk([[0, V], [1, V], [2, V]], [[t, V] for t in range(3, 10)], pc=True))   # closed, fallback one step early
    out.append(mk([[0, "none"], [1, "none"], [2, "none"]], [[0, V], [1, "none"], [2, V]], fc=True, zeros=True))
    return out


# ----------------------------------------------------------------------------- wiring, repeated; generated formulas end to end
T_E2E = 12          # ticks fed end to end
T_FAIL = 3          # the chosen meter delivers None from this tick on


def _wiring(eng):
    """per term: [name, nones_are_zeros, fallback component ids, fallback metric, fallback terms];
    the fallback formula is generated to see which metric of which components it reads"""
    out = []
    for name, f in sorted(eng._builder._metric_fetchers.items()):  # pylint: disable=protected-access
        fb = f._fallback                                           # pylint: disable=protected-access
        if fb is None:
            out.append([name, bool(f._nones_are_zeros), None, None, None])  # pylint: disable=protected-access
            continue
        gen = fb._formula_generator                                # pylint: disable=protected-access
        ids = sorted(gen._config.component_ids)                    # pylint: disable=protected-access
        try:
            sub = gen.generate()
            metric = sub._builder._metric_id.name                  # pylint: disable=protected-access
            terms = sorted(sub._builder._metric_fetchers)          # pylint: disable=protected-access
        except Exception as e:  # pylint: disable=broad-except
            metric, terms = "error:" + type(e).__name__, None
        out.append([name, bool(f._nones_are_zeros), ids, metric, terms])  # pylint: disable=protected-access
    return out


def val_of(metric, cid, tick):
    """distinct, recognisable readings: active power 1000*id + tick, reactive power -(10*id + tick) - 50000"""
    return 1000 * cid + tick if metric == "ACTIVE_POWER" else -(10 * cid + tick) - 50000


def _run_pool(I, case, fail_id):
    """Production construction path, end to end: ONE FormulaEnginePool (as microgrid.grid() holds it) hands
    out the grid power AND the grid reactive power engine with its default configuration; both run at the
    same time.  Every requested (component, metric) stream of the channel registry is fed one sample per
    tick; the meter [fail_id] delivers None (both metrics) from T_FAIL on.  Streams requested later (the
    lazily started fallback formulas) are fed from then on."""
    import asyncio
    import async_solipsism
    from datetime import datetime, timedelta, timezone
    from frequenz.quantities import Quantity
    from frequenz.sdk.timeseries.formula_engine._formula_engine_pool import FormulaEnginePool
    FG = I.FG
    tz = timezone(timedelta(hours=case.get("tz_hours", 0)))
    utc0 = datetime(2023, 1, 1, tzinfo=timezone.utc)
    t0 = utc0.astimezone(tz)
    res = {}

    async def main():
        reg = I.ChannelRegistry(name="r")
        ch = I.Broadcast(name="req")
        req_rx = ch.new_receiver(limit=1000)
        pool = FormulaEnginePool("grid-pool", reg, ch.new_sender())
        engines = {"grid": pool.from_power_formula_generator("grid_power", FG.GridPowerFormula),
                   "grid_q": pool.from_reactive_power_formula_generator("grid-reactive_power", FG.GridReactivePowerFormula)}
        order = ["grid", "grid_q"] if case.get("tz_hours", 0) % 2 == 0 else ["grid_q", "grid"]
        out_rx = {k: engines[k].new_receiver(max_size=100000) for k in order}
        senders = {}

        async def registrar():
            async for req in req_rx:
                key = req.get_channel_name()
                if key not in senders:
                    senders[key] = (req.component_id, req.metric_id.name,
                                    reg.get_or_create(I.Sample[Quantity], key).new_sender())
        asyncio.create_task(registrar())
        await asyncio.sleep(1.0)
        for tick in range(T_E2E):
            for cid, metric, snd in list(senders.values()):
                v = None if (cid == fail_id and tick >= T_FAIL) else Quantity(float(val_of(metric, cid, tick)))
                await snd.send(I.Sample(t0 + timedelta(seconds=tick), v))
            await asyncio.sleep(1.0)
        for kind, rx in out_rx.items():
            out = []
            while len(rx._q):  # pylint: disable=protected-access
                m = rx.consume() if await rx.ready() else None
                us = (m.timestamp - utc0) // timedelta(microseconds=1)
                out.append([us / 1e6 if us % 1000000 else us // 1000000,
                            None if m.value is None else round(m.value.base_value)])
            res[kind] = {"out": out}
        res["requested"] = sorted([c, m] for c, m, _ in senders.values())
        for t in asyncio.all_tasks():
            if t is not asyncio.current_task():
                t.cancel()
        await asyncio.sleep(0)

    loop = async_solipsism.EventLoop()
    try:
        loop.run_until_complete(main())
    finally:
        loop.close()
    return res


def homogeneous(n):
    return n["k"] == "M" and bool(n["kids"]) and len({c["k"] for c in n["kids"]}) == 1 and n["kids"][0]["k"] in "PBEC"


def run_wiring(case):
    """Generate every fallback-capable formula `reps` times (different namespaces) on ONE
    component-graph object, and drive the grid power / grid reactive power formulas end to end.
    case: {"roots": tree (format of harness/graph.py), "reps": n, "tz_hours": h}"""
    from types import SimpleNamespace
    from harness import graph as G
    I = G._imports()                                               # pylint: disable=protected-access
    g = G.build_graph(case["roots"])
    I.cm._CONNECTION_MANAGER = SimpleNamespace(component_graph=g, api_client=None)  # pylint: disable=protected-access
    FG = I.FG
    bats, pv, ev = G.device_ids(case["roots"])
    plan = {"pv": (FG.PVPowerFormula, pv), "ev": (FG.EVChargerPowerFormula, ev), "battery": (FG.BatteryPowerFormula, bats),
            "grid": (FG.GridPowerFormula, None), "grid_q": (FG.GridReactivePowerFormula, None),
            "producer": (FG.ProducerPowerFormula, None), "consumer": (FG.ConsumerPowerFormula, None)}
    obs = {}
    try:
        for kind, (cls, ids) in plan.items():
            if ids is not None and not ids:
                continue
            runs = []
            for r in range(case["reps"]):
                reg = I.ChannelRegistry(name="r")
                ch = I.Broadcast(name="req")
                try:
                    eng = cls(f"ns{r}", reg, ch.new_sender(),
                              FG.FormulaGeneratorConfig(component_ids=None if ids is None else set(ids),
                                                        allow_fallback=True)).generate()
                    runs.append({"formula": str(eng), "metric": eng._builder._metric_id.name,  # pylint: disable=protected-access
                                 "terms": _wiring(eng)})
                except Exception as e:  # pylint: disable=broad-except
                    runs.append({"error": type(e).__name__})
            obs[kind] = runs
        fail = next((n["id"] for n in case["roots"] if homogeneous(n)), None)
        if fail is not None and case.get("e2e", True):
            obs["e2e"] = {"fail": fail, **_run_pool(I, case, fail)}
    finally:
        I.cm._CONNECTION_MANAGER = None                            # pylint: disable=protected-access
    return obs


def expected_wiring(roots, kind):
    """PV devices requested by id: a meter (not the grid meter) whose successors are exactly requested PV
    inverters is the primary term and they are its fallback; any other requested device is its own term"""
    from harness import graph as G
    k = {"pv": "P"}[kind]
    terms = []
    covered = set()
    grid_meter = roots[0]["id"] if len(roots) == 1 and roots[0]["k"] == "M" else None   # the grid's only successor
    for n in G.walk(roots):
        if n["k"] == "M" and n["id"] != grid_meter and n["kids"] and all(c["k"] == k for c in n["kids"]):
            terms.append([f"#{n['id']}", False, sorted(c["id"] for c in n["kids"])])
            covered |= {c["id"] for c in n["kids"]}
    for n in G.walk(roots):
        if n["k"] == k and n["id"] not in covered:
            terms.append([f"#{n['id']}", True, None])
    return sorted(terms)


def expected_grid_wiring(roots):
    """grid (reactive) power: one term per grid successor; a meter with a homogeneous group behind it
    (only PV inverters / only battery inverters / only EV chargers / only CHPs) has that group as its
    fallback -- also when it is the grid's single successor"""
    return sorted([f"#{n['id']}", n["k"] != "M", sorted(c["id"] for c in n["kids"]) if homogeneous(n) else None]
                  for n in roots if n["k"] in "MPBE")


class WiringStream(Stream):
    """every fallback-capable formula generated several times on one graph object; grid power and grid
    reactive power driven end to end with a meter going None"""
    name = "wiring"
    coq_header = FB.HEADER
    n_quick = 60
    n_thorough = 600

    def gen(self, rng, tier):
        yield {"roots": [{"k": "M", "id": 2, "kids": [{"k": "P", "id": 4}, {"k": "P", "id": 5}]}], "reps": 2, "tz_hours": 0}
        yield {"roots": [{"k": "M", "id": 2, "kids": [{"k": "M", "id": 6, "kids": []}]},
                         {"k": "M", "id": 3, "kids": [{"k": "P", "id": 4}, {"k": "P", "id": 5}]}], "reps": 2, "tz_hours": 2}
        for _ in range(self.n_quick if tier == "quick" else self.n_thorough):
            nid = [1]

            def fresh():
                nid[0] += 1
                return nid[0]
            roots = []
            for _m in range(rng.choice([1, 1, 2, 3])):
                kind = rng.choice("PPEB")

                def dev(kind=kind):
                    d = {"k": kind, "id": fresh()}
                    if kind == "B":
                        d["bats"] = [fresh() for _ in range(rng.randint(1, 2))]
                    return d
                if rng.random() < 0.8:
                    m = {"k": "M", "id": fresh(), "kids": []}
                    m["kids"] = [dev() for _ in range(rng.randint(1, 3))]
                    if rng.random() < 0.12:
                        m["kids"].append(dev(rng.choice("PEB")))     # sometimes a mixed group: no fallback
                    roots.append(m)
                else:
                    roots.append(dev())
            yield {"roots": roots, "reps": rng.choice([2, 2, 3]), "tz_hours": rng.choice([0, 0, 1, 2, -5])}

    def run_impl(self, case):
        return run_wiring(case)

    def to_coq(self, case, obs):
        return None

    def key(self, case, obs):
        return json.dumps([case["roots"], case.get("tz_hours", 0)])

    def labels(self, case, obs):
        out = [f"reps={case['reps']}"] + [f"formula={k}" for k in sorted(obs) if k != "e2e"]
        if any(t[2] is not None for k, runs in obs.items() if k != "e2e" for r in runs[:1] for t in r.get("terms", [])):
            out.append("has_fallback_term")
        if "e2e" in obs:
            out.append("end_to_end(meter None -> fallback)")
        if len(case["roots"]) == 1 and homogeneous(case["roots"][0]):
            out.append("grid_single_successor_is_group_meter")
        if case.get("tz_hours"):
            out.append("non_UTC_timestamps")
        return out

    def shrink(self, case):
        for i in range(len(case["roots"])):
            if len(case["roots"]) > 1:
                yield {**case, "roots": case["roots"][:i] + case["roots"][i + 1:]}
        if case["reps"] > 2:
            yield {**case, "reps": 2}
        if case.get("tz_hours"):
            yield {**case, "tz_hours": 0}

    def oracle(self, case, obs):
        probs = []
        roots = case["roots"]
        for kind, runs in sorted(obs.items()):
            if kind == "e2e":
                continue
            for r, run in enumerate(runs[1:], 1):
                if run != runs[0]:
                    probs.append(f"repeat: {kind} formula generated the {r + 1}. time on the same graph is {run} but the first was {runs[0]}")
                    break
            first = runs[0]
            if "terms" not in first:
                continue
            # the fallback must read the SAME metric as the primary, from the fallback components
            for name, _nz, ids, metric, terms in first["terms"]:
                if ids is not None and metric != first["metric"]:
                    probs.append(f"metric: the fallback of term {name} of the {kind} formula reads {metric}, the primary reads {first['metric']}")
                    break
            if kind == "pv":      # (the EV charger formula has no fallback wiring)
                want = expected_wiring(roots, kind)
                if sorted(t[:3] for t in first["terms"]) != want:
                    probs.append(f"wiring: {kind} formula terms {[t[:3] for t in first['terms']]} but the topology asks for {want}")
            if kind in ("grid", "grid_q"):
                want = expected_grid_wiring(roots)
                if sorted(t[:3] for t in first["terms"]) != want:
                    probs.append(f"wiring: {kind} formula terms {[t[:3] for t in first['terms']]} but the topology asks for {want}")
        e2e = obs.get("e2e")
        if e2e:
            fail = e2e["fail"]
            for kind, metric in (("grid", "ACTIVE_POWER"), ("grid_q", "REACTIVE_POWER")):
                out = e2e[kind]["out"]
                seen = {}
                for tick, v in out:
                    if tick in seen:
                        probs.append(f"e2e {kind}: timestamp {tick} s emitted twice")
                        break
                    seen[tick] = v
                # after the start-up window every tick must be there with the sum over the grid successors,
                # the failed meter replaced by the sum of its group in the SAME metric
                for tick in range(T_FAIL + 4, T_E2E):
                    want = 0
                    for n in roots:
                        if n["k"] not in "MPBE":
                            continue
                        if n["id"] == fail:
                            want += sum(val_of(metric, c["id"], tick) for c in n["kids"])
                        else:
                            want += val_of(metric, n["id"], tick)
                    if tick not in seen:
                        probs.append(f"e2e {kind}: no sample for t={tick} s (emitted timestamps {sorted(seen)[:6]}...): "
                                     f"meter {fail} is None from t={T_FAIL} s, its group must take over")
                        break
                    if seen[tick] != want:
                        probs.append(f"e2e {kind}: at t={tick} s the formula gives {seen[tick]} but meter {fail} is None and the "
                                     f"{metric} readings of the grid successors / its group sum to {want}")
                        break
                for tick in range(0, T_FAIL):
                    want = sum(val_of(metric, n["id"], tick) for n in roots if n["k"] in "MPBE")
                    if tick in seen and seen[tick] != want:
                        probs.append(f"e2e {kind}: at t={tick} s (all valid) the formula gives {seen[tick]}, the grid successors sum to {want}")
                        break
        return [{"what": p, "finding": None} for p in probs]


def streams():
    return [FetcherStream(), E2EStream(), WiringStream()]


ASSUMPTIONS = [
    "the fetcher is a function of the CONTENTS of the primary and fallback streams (Kahn); delivery order only decides when it blocks -- tested by random interleavings (fallback before/with/after the primary), not proved",
    "Broadcast delivers in order without loss below the receiver limit (50; generated backlogs <= 40); ReceiverStoppedError is raised once a closed channel's buffer is drained",
    "the lazily started fallback formula begins at an arbitrary grid point: the fallback stream contents are an input the theorems quantify over",
]
TRUSTED = ["async_solipsism virtual-time loop", "frequenz.channels (Broadcast, Receiver protocol)",
           "scripted Receiver / FallbackMetricFetcher subclasses and the stub formula generator of the harness",
           "harness wrapper around asyncio.wait fixing the iteration order of the done-set (e2e cases with prescribed picks)"]

META = {
    "technique": "Coq proof about a Kahn-style functional model of MetricFetcher with fallback (case analysis of one fetch_next + induction over the catch-up loop and over the primary stream) + differential correspondence: real MetricFetcher over scripted receivers, and real FormulaEngine (A+B, A with scripted or real FallbackFormulaMetricFetcher) over Broadcast channels on async_solipsism, vs the model evaluated in Coq",
    "level_text": "Machine-checked theorems (closed under the global context) on the model: once the fallback is synchronised (fallback_ts <= primary_ts) every later primary sample at T yields primary(T) if valid else fallback(T), stamped T; a valid primary is always returned unchanged; after the first failure an invalid primary is passed through for at most (fallback start lag in steps)+1 timestamps; after the primary stream fails the term is exactly the rest of the fallback stream. The model is tied to the code by exact comparison (inside Coq) with the real MetricFetcher on fault words over {valid, None, NaN, +-inf} on both streams, receiver errors / stopped streams at any point and random delivery interleavings, and end-to-end through a real FormulaEngine; the property is judged directly on the engine's outputs (values encode the contributing samples). A third stream generates the same fallback-capable formulas (PV, battery, EV) two or three times on ONE component-graph object and requires identical primary/fallback wiring each time (oracle only, no model twin).",
    "level_note": "Partial: delivery/blocking is runtime (Kahn assumption tested, not proved). Known finding kept: when the primary STREAM fails, fetch_next returns fallback.receive() without any timestamp synchronisation, so unless the fallback happens to stand exactly at the next timestamp the term (and the formula stamp) are shifted against the other terms for ever (C19-stream-failure-unaligned, trigger coded in the oracle; theorem C19_closed_partial states what does hold). Fixed on the way: `except ReceiverError[Any]` raised TypeError so no stream failure was ever handled.",
}
