"""C19 — formulas switch to fallback components when a primary meter fails."""
from __future__ import annotations

import json

from lib.core import Stream
from harness import fallback as FB

ID = "C19"
PROPS = "props/C19.v"

FINDING_UNALIGNED = "C19-stream-failure-unaligned"


def _valid(v):
    return not isinstance(v, str) or v == "v"


class FetcherStream(Stream):
    """real MetricFetcher + scripted receivers / scripted FallbackMetricFetcher, fetch_next() in a loop"""
    name = "fetcher"
    coq_header = FB.HEADER
    check_fn = "check"
    n_quick = 600
    n_thorough = 12000

    def gen(self, rng, tier):
        for _ in range(self.n_quick if tier == "quick" else self.n_thorough):
            yield FB.gen_fetcher_case(rng)

    def run_impl(self, case):
        return FB.run_fetcher(case)

    def to_coq(self, case, obs):
        return FB.fetcher_term(case, obs)

    def show_term(self, case, obs):
        return (f"fetch_n 100 {case['calls']}%nat (fetcher_init {FB.c_strm(case['prim'])} {FB.c_strm(case['fb'])})")

    def shrink(self, case):
        return FB.shrink_case(case)

    def key(self, case, obs):
        if not any(it == "E" or not _valid(it[1]) for it in case["prim"]["items"]) and not case["prim"]["closed"]:
            return None      # primary never fails: the fallback is never touched
        return json.dumps([case["prim"], case["fb"], case["calls"], case["sched"]])

    def labels(self, case, obs):
        out = [f"kind={case['kind']}", f"starts={obs['starts']}"]
        if case["prim"]["closed"]:
            out.append("primary_closed")
        if case["fb"]["closed"]:
            out.append("fallback_closed")
        if any(r[0] == "x" for r in obs["res"]):
            out.append("fetch_raised")
        if any(r[0] == "n" for r in obs["res"]):
            out.append("fetch_returned_None")
        fbvals = {it[1] for it in case["fb"]["items"] if it != "E"}
        if any(r[0] == "r" and r[2] in fbvals and not isinstance(r[2], str) for r in obs["res"]):
            out.append("fallback_value_returned")
        return out

    def oracle(self, case, obs):
        """on grid streams without receiver errors inside: the i-th result belongs to the i-th primary
        sample; a valid primary sample is returned as is, an invalid one is replaced only by a
        fallback sample of the same timestamp; the fallback is started at most once."""
        probs = []
        if obs["starts"] > 1:
            probs.append(f"the fallback fetcher was started {obs['starts']} times")
        both_failed = (case["prim"]["closed"] or "E" in case["prim"]["items"]) and \
                      (case["fb"]["closed"] or "E" in case["fb"]["items"])
        for i, r in enumerate(obs["res"]):
            if r[0] == "x" and (r[1] != "ReceiverError" or not both_failed):
                probs.append(f"error path: fetch_next call #{i} raised {r[1]}"
                             + ("" if both_failed else " although one of the two streams never failed"))
                break
        if case["kind"] not in ("grid", "prim_gaps", "fb_gaps"):
            return [{"what": p, "finding": None} for p in probs]
        prim = case["prim"]["items"]
        fbm = {it[0]: it[1] for it in case["fb"]["items"]}
        for i, r in enumerate(obs["res"][: len(prim)]):
            t, v = prim[i]
            if r[0] != "r":
                probs.append(f"fetch #{i} returned no sample for primary sample at tick {t}")
                break
            if _valid(v):
                if r[1:] != [t, v]:
                    probs.append(f"return: valid primary sample ({t},{v}) not used, got {r[1:]}")
                    break
            else:
                if r[1] != t:
                    probs.append(f"same-timestamp: primary sample at tick {t} answered with a sample stamped {r[1]}")
                    break
                if r[2] != v and fbm.get(t) != r[2]:
                    probs.append(f"value at tick {t} is neither the primary's nor the fallback's")
                    break
        return [{"what": p, "finding": None} for p in probs]


def closed_unaligned(case):
    """trigger of the known finding: the primary STREAM fails while the fallback's next undelivered
    sample is not the one of the next round (the error path returns fallback.receive() unsynchronised)"""
    if not case["prim"]["closed"]:
        return False
    P = case["prim"]["items"]
    F = case["fb"]["items"]
    d = case["d"]
    if not F:
        return False
    if not P:
        return True
    t_end = P[-1][0]
    inval = [t for t, v in P if not _valid(v)]
    if not inval:
        return F[0][0] != t_end + 2 * d          # error round dropped, next round takes F[0]
    if inval[0] == t_end:
        return F[0][0] != t_end + d              # started by the last sample, never synchronised
    return F[0][0] > t_end                       # synchronised at t_end unless the fallback is ahead


class E2EStream(Stream):
    """real FormulaEngine for A + B, A with a fallback"""
    name = "e2e"
    coq_header = FB.HEADER
    check_fn = "check_e2e"
    n_quick = 500
    n_thorough = 10000

    def gen(self, rng, tier):
        yield from boundary_e2e()
        for _ in range(self.n_quick if tier == "quick" else self.n_thorough):
            c = FB.gen_e2e_case(rng)
            if c["picks"] is None and closed_unaligned(c):
                c["picks"] = [0, 1]     # unaligned streams: the stamp depends on the set order -> fix it
            yield c

    def run_impl(self, case):
        return FB.run_e2e(case)

    def to_coq(self, case, obs):
        return FB.e2e_term(case, obs)

    def shrink(self, case):
        return FB.shrink_case(case)

    def key(self, case, obs):
        if not obs["out"] or (all(_valid(v) for _, v in case["prim"]["items"]) and not case["prim"]["closed"]):
            return None
        return json.dumps([case["prim"], case["fb"], case["b"], case["zeros"], case["realfb"], case["sched"]])

    def labels(self, case, obs):
        out = ["real_FallbackFormulaMetricFetcher" if case["realfb"] else "scripted_fallback",
               f"starts={min(obs['starts'], 2)}", "nones_are_zeros" if case["zeros"] else "nones_are_none"]
        if case["prim"]["closed"]:
            out.append("primary_closed")
            out.append("closed_unaligned(known finding trigger)" if closed_unaligned(case) else "closed_aligned")
        if case["fb"]["closed"]:
            out.append("fallback_closed")
        if any(o[1] is not None and (o[1] // 256) % 256 for o in obs["out"]):
            out.append("fallback_value_in_output")
        if any(o[1] is None for o in obs["out"]):
            out.append("None_output")
        P = case["prim"]["items"]
        F = case["fb"]["items"]
        inval = [t for t, v in P if not _valid(v)]
        if inval and F:
            lag = (F[0][0] - inval[0]) // case["d"]
            out.append(f"fallback_lag={'<0' if lag < 0 else '0' if lag == 0 else '1' if lag == 1 else '2+'}")
        out.append("set_order_real" if case.get("picks") is None else "set_order_prescribed")
        return out

    def oracle(self, case, obs):
        probs = []
        d = case["d"]
        P = case["prim"]["items"]
        F = case["fb"]["items"]
        B = case["b"]
        pm = {t: (k, v) for k, (t, v) in enumerate(P)}
        fm = {}
        for k, (t, v) in enumerate(F):
            fm.setdefault(t, (k, v))
        inval = [t for t, v in P if not _valid(v)]
        t_f = inval[0] if inval else None
        t_end = P[-1][0] if P else None
        f0 = F[0][0] if F else None
        trig = closed_unaligned(case)

        state = {"post": t_end is None, "prev": None}

        def add(tick, msg):
            after_end = state["post"]
            probs.append({"what": msg, "finding": FINDING_UNALIGNED if (trig and after_end) else None})

        if obs["starts"] > 1:
            probs.append({"what": f"restart: the fallback formula was started {obs['starts']} times", "finding": None})
        for tick, val in obs["out"]:
            # outputs computed after the primary stream failed: from the first one stamped beyond the
            # primary's last timestamp or not advancing any more
            if t_end is not None and (tick > t_end or (state["prev"] is not None and tick <= state["prev"])):
                state["post"] = True
            state["prev"] = tick
            prim_valid = tick in pm and _valid(pm[tick][1])
            fb_valid = tick in fm and _valid(fm[tick][1])
            startup = (t_f is not None and tick == t_f) or (f0 is not None and tick < f0)
            if val is None:
                if case["zeros"]:
                    add(tick, f"value: None emitted at tick {tick} although missing values count as zero")
                elif prim_valid:
                    add(tick, f"return: primary is valid at tick {tick} but the formula emitted None")
                elif fb_valid and not startup:
                    add(tick, f"fallback: primary invalid/failed and fallback valid at tick {tick} (outside the start-up window) but the formula emitted None")
                continue
            p, f, b = val % 256, (val // 256) % 256, val // 65536
            if not (1 <= b <= len(B)) or B[b - 1] != tick:
                add(tick, f"same-timestamp: sample stamped {tick} used B's sample #{b - 1} stamped {B[b - 1] if 1 <= b <= len(B) else None}")
                continue
            if p and f:
                add(tick, f"value {val} at tick {tick} mixes primary and fallback")
                continue
            if p and (p > len(P) or P[p - 1][0] != tick):
                add(tick, f"same-timestamp: sample stamped {tick} used primary sample #{p - 1} stamped {P[p - 1][0] if p <= len(P) else None}")
                continue
            if f and (f > len(F) or F[f - 1][0] != tick):
                add(tick, f"same-timestamp: sample stamped {tick} used fallback sample #{f - 1} stamped {F[f - 1][0] if f <= len(F) else None}")
                continue
            if prim_valid and not p:
                add(tick, f"return: primary is valid at tick {tick} but was not used (value {val})")
            elif not prim_valid and fb_valid and not startup and not f:
                add(tick, f"fallback: primary invalid/failed, fallback valid at tick {tick}, outside the start-up window, but not used (value {val})")
            elif not prim_valid and not f and not case["zeros"]:
                add(tick, f"value {val} at tick {tick}: term A has no valid source yet contributed")
        ticks = [o[0] for o in obs["out"]]
        # the primary stream failed: the formula must go on from the fallback (all inputs were delivered
        # and the loop ran until everything blocked, so what can be computed has been computed)
        if case["prim"]["closed"] and t_end is not None and not trig:
            later = [t for t in B if t >= t_end + 2 * d and t in fm]
            if later and not any(t >= t_end + 2 * d for t in ticks):
                probs.append({"what": f"closed: nothing emitted after the primary stream failed at tick {t_end} although the "
                                      f"fallback and the other term deliver tick {later[0]}", "finding": None})
        for a, c in zip(ticks, ticks[1:]):
            if c - a == d:
                continue
            # the round in which a not-yet-started fallback learns of the stream failure emits nothing
            if c - a == 2 * d and case["prim"]["closed"] and t_end is not None and a == t_end and not inval:
                continue
            state["post"] = t_end is None or c > t_end or c <= a
            add(c, f"timeline: emitted timestamps {a} -> {c} (step {d})")
            break
        return probs


def boundary_e2e():
    """the documented scenarios: dead primary, blip and recovery, primary stream closed (aligned)"""
    out = []
    V = "v"
    mk = lambda P, F, pc=False, nb=10, fc=False, zeros=False, real=False: {
        "kind": "e2e", "d": 1, "prim": {"items": P, "closed": pc}, "fb": {"items": F, "closed": fc},
        "b": list(range(nb)), "zeros": zeros, "realfb": real, "picks": [0, 1], "sched": [["c"]]}
    for real in (False, True):
        out.append(mk([[0, V], [1, V], [2, "none"], [3, "none"], [4, "nan"], [5, V], [6, "none"], [7, V]],
                      [[t, V] for t in range(2, 10)], real=real))
        out.append(mk([[0, V], [1, "none"], [2, "none"], [3, "none"], [4, "none"], [5, "none"]],
                      [[t, V] for t in range(3, 10)], real=real))          # fallback starts 2 steps late
        out.append(mk([[0, V], [1, V], [2, V]], [[t, V] for t in range(4, 10)], pc=True, real=real))   # closed, aligned
        out.append(mk([[0, V], [1, "none"], [2, V]], [[t, V] for t in range(0, 10)], pc=True, real=real))  # closed, synchronised
    out.append(mk([[0, V], [1, V], [2, V]], [[t, V] for t in range(3, 10)], pc=True))   # closed, fallback one step early
    out.append(mk([[0, "none"], [1, "none"], [2, "none"]], [[0, V], [1, "none"], [2, V]], fc=True, zeros=True))
    return out


# ----------------------------------------------------------------------------- wiring, repeated
def _wiring(eng):
    out = []
    for name, f in sorted(eng._builder._metric_fetchers.items()):  # pylint: disable=protected-access
        fb = f._fallback                                           # pylint: disable=protected-access
        ids = None if fb is None else sorted(fb._formula_generator._config.component_ids)  # pylint: disable=protected-access
        out.append([name, bool(f._nones_are_zeros), ids])          # pylint: disable=protected-access
    return out


def run_wiring(case):
    """Generate the same fallback-capable formulas `reps` times (different namespaces) on ONE
    component-graph object.  case: {"roots": tree (format of harness/graph.py), "reps": n}"""
    from types import SimpleNamespace
    from harness import graph as G
    I = G._imports()                                               # pylint: disable=protected-access
    g = G.build_graph(case["roots"])
    I.cm._CONNECTION_MANAGER = SimpleNamespace(component_graph=g, api_client=None)  # pylint: disable=protected-access
    FG = I.FG
    bats, pv, ev = G.device_ids(case["roots"])
    plan = {"pv": (FG.PVPowerFormula, pv), "ev": (FG.EVChargerPowerFormula, ev), "battery": (FG.BatteryPowerFormula, bats)}
    obs = {}
    try:
        for kind, (cls, ids) in plan.items():
            if not ids:
                continue
            runs = []
            for r in range(case["reps"]):
                reg = I.ChannelRegistry(name="r")
                ch = I.Broadcast(name="req")
                try:
                    eng = cls(f"ns{r}", reg, ch.new_sender(),
                              FG.FormulaGeneratorConfig(component_ids=set(ids), allow_fallback=True)).generate()
                    runs.append({"formula": str(eng), "terms": _wiring(eng)})
                except Exception as e:  # pylint: disable=broad-except
                    runs.append({"error": type(e).__name__})
            obs[kind] = runs
    finally:
        I.cm._CONNECTION_MANAGER = None                            # pylint: disable=protected-access
    return obs


def expected_wiring(roots, kind):
    """devices requested by id: a meter whose successors are exactly requested devices of the kind is the
    primary term and they are its fallback; any other requested device is its own term, no fallback"""
    from harness import graph as G
    k = {"pv": "P"}[kind]
    terms = []
    covered = set()
    grid_meter = roots[0]["id"] if len(roots) == 1 and roots[0]["k"] == "M" else None   # the grid's only successor
    for n in G.walk(roots):
        if n["k"] == "M" and n["id"] != grid_meter and n["kids"] and all(c["k"] == k for c in n["kids"]):
            terms.append([f"#{n['id']}", False, sorted(c["id"] for c in n["kids"])])
            covered |= {c["id"] for c in n["kids"]}
    for n in G.walk(roots):
        if n["k"] == k and n["id"] not in covered:
            terms.append([f"#{n['id']}", True, None])
    return sorted(terms)


class WiringStream(Stream):
    """the same fallback-capable formula generated several times on one graph object"""
    name = "wiring"
    coq_header = FB.HEADER
    n_quick = 60
    n_thorough = 600

    def gen(self, rng, tier):
        for _ in range(self.n_quick if tier == "quick" else self.n_thorough):
            nid = [1]

            def fresh():
                nid[0] += 1
                return nid[0]
            roots = []
            for _m in range(rng.randint(1, 3)):
                kind = rng.choice("PPEB")
                def dev():
                    d = {"k": kind, "id": fresh()}
                    if kind == "B":
                        d["bats"] = [fresh() for _ in range(rng.randint(1, 2))]
                    return d
                if rng.random() < 0.8:
                    m = {"k": "M", "id": fresh(), "kids": []}
                    m["kids"] = [dev() for _ in range(rng.randint(1, 3))]
                    roots.append(m)
                else:
                    roots.append(dev())
            yield {"roots": roots, "reps": rng.choice([2, 2, 3])}

    def run_impl(self, case):
        return run_wiring(case)

    def to_coq(self, case, obs):
        return None

    def key(self, case, obs):
        return json.dumps(case["roots"])

    def labels(self, case, obs):
        out = [f"reps={case['reps']}"] + [f"formula={k}" for k in sorted(obs)]
        if any(t[2] is not None for runs in obs.values() for r in runs[:1] for t in r.get("terms", [])):
            out.append("has_fallback_term")
        return out

    def shrink(self, case):
        for i in range(len(case["roots"])):
            if len(case["roots"]) > 1:
                yield {**case, "roots": case["roots"][:i] + case["roots"][i + 1:]}
        if case["reps"] > 2:
            yield {**case, "reps": 2}

    def oracle(self, case, obs):
        probs = []
        for kind, runs in sorted(obs.items()):
            for r, run in enumerate(runs[1:], 1):
                if run != runs[0]:
                    probs.append(f"repeat: {kind} formula generated the {r + 1}. time on the same graph is {run} but the first was {runs[0]}")
                    break
            if kind == "pv" and "terms" in runs[0]:      # (the EV charger formula has no fallback wiring)
                want = expected_wiring(case["roots"], kind)
                if sorted(runs[0]["terms"]) != want:
                    probs.append(f"wiring: {kind} formula terms {runs[0]['terms']} but the topology asks for {want}")
        return [{"what": p, "finding": None} for p in probs]


def streams():
    return [FetcherStream(), E2EStream(), WiringStream()]


ASSUMPTIONS = [
    "the fetcher is a function of the CONTENTS of the primary and fallback streams (Kahn); delivery order only decides when it blocks -- tested by random interleavings (fallback before/with/after the primary), not proved",
    "Broadcast delivers in order without loss below the receiver limit (50; generated backlogs <= 40); ReceiverStoppedError is raised once a closed channel's buffer is drained",
    "the lazily started fallback formula begins at an arbitrary grid point: the fallback stream contents are an input the theorems quantify over",
]
TRUSTED = ["async_solipsism virtual-time loop", "frequenz.channels (Broadcast, Receiver protocol)",
           "scripted Receiver / FallbackMetricFetcher subclasses and the stub formula generator of the harness",
           "harness wrapper around asyncio.wait fixing the iteration order of the done-set (e2e cases with prescribed picks)"]

META = {
    "technique": "Coq proof about a Kahn-style functional model of MetricFetcher with fallback (case analysis of one fetch_next + induction over the catch-up loop and over the primary stream) + differential correspondence: real MetricFetcher over scripted receivers, and real FormulaEngine (A+B, A with scripted or real FallbackFormulaMetricFetcher) over Broadcast channels on async_solipsism, vs the model evaluated in Coq",
    "level_text": "Machine-checked theorems (closed under the global context) on the model: once the fallback is synchronised (fallback_ts <= primary_ts) every later primary sample at T yields primary(T) if valid else fallback(T), stamped T; a valid primary is always returned unchanged; after the first failure an invalid primary is passed through for at most (fallback start lag in steps)+1 timestamps; after the primary stream fails the term is exactly the rest of the fallback stream. The model is tied to the code by exact comparison (inside Coq) with the real MetricFetcher on fault words over {valid, None, NaN, +-inf} on both streams, receiver errors / stopped streams at any point and random delivery interleavings, and end-to-end through a real FormulaEngine; the property is judged directly on the engine's outputs (values encode the contributing samples). A third stream generates the same fallback-capable formulas (PV, battery, EV) two or three times on ONE component-graph object and requires identical primary/fallback wiring each time (oracle only, no model twin).",
    "level_note": "Partial: delivery/blocking is runtime (Kahn assumption tested, not proved). Known finding kept: when the primary STREAM fails, fetch_next returns fallback.receive() without any timestamp synchronisation, so unless the fallback happens to stand exactly at the next timestamp the term (and the formula stamp) are shifted against the other terms for ever (C19-stream-failure-unaligned, trigger coded in the oracle; theorem C19_closed_partial states what does hold). Fixed on the way: `except ReceiverError[Any]` raised TypeError so no stream failure was ever handled.",
}
