"""C03 / C04: Matryoshka target computation, reported bounds, adjust_to_bounds.

Implementation side: the real `Matryoshka` class (calculate_target_power with
must_return_power=True, drop_old_proposals, get_status, _Report.adjust_to_bounds)
on integer-valued watts, for which float comparisons and the one subtraction pair
are exact.  Model side: coq/model/Matryoshka.v (its three bounds functions are the
translated ones)."""
from __future__ import annotations

import itertools
import json
from datetime import datetime, timedelta, timezone

from lib.core import Stream, cZ, copt, clist

MAX_AGE_S = 60.0
GRID = [-100, -60, -50, -31, -30, -29, -20, -11, -10, -9, -1, 0, 1, 9, 10, 11, 20, 29, 30, 31, 50, 60, 100]
IDS = frozenset({1})
# Cases are written in integer units; a case may say that one unit is SCALE watts (a binary
# fraction or a small integer, so that every float operation of the implementation stays exact).
# The model is scale-free: an implementation that rounds to whole watts somewhere is not.
SCALE = 1.0
SCALES = [0.5, 0.25, 0.125, 3.0, 2.0 ** -20, 2.0 ** -12, 1024.0]   # incl. sub-milliwatt and kilowatt units


def set_scale(case):
    global SCALE
    SCALE = float(case.get("scale", 1.0))


def gen_scale(rng, case):
    if rng.random() < 0.3:
        case["scale"] = rng.choice(SCALES)
    return case


def _imports():
    from frequenz.quantities import Power
    from frequenz.sdk.timeseries._base_types import Bounds, SystemBounds
    from frequenz.sdk.microgrid._power_managing._matryoshka import Matryoshka
    from frequenz.sdk.microgrid._power_managing._base_classes import Proposal
    return Power, Bounds, SystemBounds, Matryoshka, Proposal


def mk_sys(s):
    Power, Bounds, SystemBounds, _, _ = _imports()
    W = lambda x: Power.from_watts(x * SCALE)
    return SystemBounds(
        timestamp=datetime(2020, 1, 1, tzinfo=timezone.utc),
        inclusion_bounds=None if s["incl"] is None else Bounds(W(s["incl"][0]), W(s["incl"][1])),
        exclusion_bounds=None if s["excl"] is None else Bounds(W(s["excl"][0]), W(s["excl"][1])),
    )


def mk_prop(e):
    Power, Bounds, _, _, Proposal = _imports()
    W = lambda x: Power.from_watts(x * SCALE)
    o = lambda x: None if x is None else W(x)
    return Proposal(source_id=e["src"], preferred_power=o(e["pref"]), bounds=Bounds(o(e["lo"]), o(e["hi"])),
                    component_ids=IDS, priority=e["prio"], creation_time=e["time"] / 8.0, set_operating_point=False)


def watts(p):
    if p is None:
        return None
    w = p.as_watts() / SCALE
    if w != int(w):
        raise ValueError(f"{p.as_watts()} W is not a whole number of the case's units of {SCALE} W")
    return int(w)


def run_history(case):
    """Drive the real Matryoshka; return targets after each event + final queries."""
    _, _, _, Matryoshka, _ = _imports()
    set_scale(case)
    m = Matryoshka(max_proposal_age=timedelta(seconds=case.get("max_age8", 480) / 8.0))
    cur = mk_sys(case["sys"])
    targets = []
    for e in case["events"]:
        if e["t"] == "p":
            targets.append(watts(m.calculate_target_power(IDS, mk_prop(e), cur, must_return_power=True)))
        elif e["t"] == "x":
            m.drop_old_proposals(e["now"] / 8.0)
            targets.append(watts(m.calculate_target_power(IDS, None, cur, must_return_power=True)))
        elif e["t"] == "b":
            cur = mk_sys(e["sys"])
            targets.append(None)
    status = []
    Power = _imports()[0]
    stored = watts(m.get_target_power(IDS))
    # adjust_to_bounds is probed with the case's values and with the target currently in force
    probes = list(case.get("adjust", []))
    if stored is not None and case.get("prios") and stored not in probes:
        probes.append(stored)
    for q in case.get("prios", []):
        rep = m.get_status(IDS, q, cur)
        b = rep.bounds
        bl = None if b is None else [watts(b.lower), watts(b.upper)]
        adj = []
        for v in probes:
            a = rep.adjust_to_bounds(Power.from_watts(v * SCALE))
            adj.append([watts(a[0]), watts(a[1])])
        status.append({"prio": q, "bounds": bl, "adjust": adj})
    return {"targets": targets, "stored": stored, "status": status, "probes": probes}


# ----------------------------------------------------------------------------- independent bookkeeping
def cur_sys(case):
    s = case["sys"]
    for e in case["events"]:
        if e["t"] == "b":
            s = e["sys"]
    return s


def live_proposals(events, max_age8=480):
    """Latest proposal per (priority, source), minus those expired at an expiry event,
    plus whether a bucket exists (first accepted proposal)."""
    live = {}
    for e in events:
        if e["t"] == "p":
            live[(e["prio"], e["src"])] = e
        elif e["t"] == "x":
            for k in [k for k, p in live.items() if e["now"] / 8.0 - p["time"] / 8.0 > max_age8 / 8.0]:
                del live[k]
    return live


def wf_sys(s):
    if s["incl"] is None:
        return True
    l, u = s["incl"]
    if not (l <= 0 <= u):
        return False
    if s["excl"] is not None:
        el, eu = s["excl"]
        if not (el <= 0 <= eu):
            return False
    return True


def envelope_ok(s, t):
    if t is None:
        return True
    if s["incl"] is None:
        return t == 0
    l, u = s["incl"]
    if not (l <= t <= u):
        return False
    if s["excl"] is not None:
        el, eu = s["excl"]
        if t != 0 and el < t < eu:
            return False
    return True


# ----------------------------------------------------------------------------- Coq rendering
def c_sys(s):
    f = lambda b: "None" if b is None else f"(Some ({cZ(b[0])}, {cZ(b[1])}))"
    return f"(mkS {f(s['incl'])} {f(s['excl'])})"


def src_rank(case):
    srcs = sorted({e["src"] for e in case["events"] if e["t"] == "p"})
    return {s: i for i, s in enumerate(srcs)}


def c_event(e, rank):
    if e["t"] == "p":
        return (f"(Propose (mkP {cZ(e['prio'])} {cZ(rank[e['src']])} {copt(e['pref'])} {copt(e['lo'])} "
                f"{copt(e['hi'])} {cZ(e['time'] * 125000)}))")
    if e["t"] == "x":
        return f"(Expire {cZ(e['now'] * 125000)})"
    return f"(SetBounds {c_sys(e['sys'])})"


HEADER = """From Verif Require Import model.Matryoshka.
Definition optpair_eqb (a b : option Z * option Z) := optZ_eqb (fst a) (fst b) && optZ_eqb (snd a) (snd b).
Definition bnds_eqb (a b : option (Z * Z)) := opt_eqb (pair_eqb Z.eqb Z.eqb) a b.
(* case: initial bounds, history, expected target after each call, queries
   (priority, expected reported bounds, [(power, expected adjust_to_bounds)]) *)
Definition check (c : Z * sysb * list mevent * list (option Z)
                      * list (Z * option (Z * Z) * list (Z * (option Z * option Z)))) : bool :=
  let '(ma, s, h, exp, qs) := c in
  let st0 := mkM false [] s in
  list_eqb optZ_eqb (mrun ma st0 h) exp &&
  let fin := mfinal ma st0 h in
  forallb (fun q => let '(prio, eb, adj) := q in
             let rb := get_status_bounds (m_sys fin) (m_bucket fin) prio in
             bnds_eqb rb eb &&
             forallb (fun a => optpair_eqb (adjust_to_bounds (m_sys fin) rb (fst a)) (snd a)) adj) qs.
"""


def case_term(case, obs):
    rank = src_rank(case)
    ev = "[" + "; ".join(c_event(e, rank) for e in case["events"]) + "]"
    exp = clist(obs["targets"], lambda x: copt(x))
    qs = []
    for st in obs["status"]:
        b = "None" if st["bounds"] is None else f"(Some ({cZ(st['bounds'][0])}, {cZ(st['bounds'][1])}))"
        adj = "[" + "; ".join(f"({cZ(v)}, ({copt(a[0])}, {copt(a[1])}))" for v, a in zip(obs.get("probes", case.get("adjust", [])), st["adjust"])) + "]"
        qs.append(f"({cZ(st['prio'])}, {b}, {adj})")
    return f"({cZ(case.get('max_age8', 480) * 125000)}, {c_sys(case['sys'])}, {ev}, {exp}, [{'; '.join(qs)}])"


# ----------------------------------------------------------------------------- generation
def gen_sys(rng, allow_none=True):
    r = rng.random()
    if allow_none and r < 0.06:
        return {"incl": None, "excl": rng.choice([None, [-10, 10]])}
    l = rng.choice([-100, -50, -30, -5, 0])
    u = rng.choice([0, 5, 30, 50, 100])
    k = rng.random()
    if k < 0.2:
        ex = None
    elif k < 0.3:
        ex = [0, 0]
    else:
        el = rng.choice([0, -10, -30])
        eu = rng.choice([0, 10, 30])
        if rng.random() < 0.8:  # usually a subset of the inclusion bounds
            el, eu = max(el, l), min(eu, u)
        ex = [el, eu]
    return {"incl": [l, u], "excl": ex}


def gen_prop(rng, nsrc, now):
    vals = GRID + [None, None, None]
    lo, hi = rng.choice(vals), rng.choice(vals)
    if lo is not None and hi is not None and lo > hi and rng.random() < 0.85:
        lo, hi = hi, lo
    return {"t": "p", "src": f"a{rng.randrange(nsrc)}", "prio": rng.choice([-10, -2, -1, 0, 1, 1, 2, 3, 7, 10, 12, 100]),   # incl. different digit counts and negatives
            "pref": rng.choice(vals), "lo": lo, "hi": hi, "time": now}


def gen_case(rng, maxlen=8):
    case = {"sys": gen_sys(rng), "events": []}
    # the maximum proposal age is a constructor argument: mostly the actor's 60 s, sometimes
    # sub-second, fractional, a day or more (timedelta components: days / seconds / microseconds)
    ma = rng.choice([480] * 6 + [4, 724, 8 * 86400, 8 * 90000, 8 * 3600 * 49])
    if ma != 480:
        case["max_age8"] = ma
    now = rng.randrange(0, 80)  # in 1/8 s
    nsrc = rng.randint(1, 5)
    for _ in range(rng.randint(1, maxlen)):
        r = rng.random()
        if r < 0.72:
            case["events"].append(gen_prop(rng, nsrc, now))
        elif r < 0.92:
            case["events"].append({"t": "x", "now": now})
        else:
            case["events"].append({"t": "b", "sys": gen_sys(rng)})
        # time steps: usually small, sometimes around the 60 s limit (480 eighths), sometimes beyond
        ma8 = case.get("max_age8", 480)
        now += rng.choice([0, 1, 8, 8, 80, ma8 // 2 - 1, ma8 // 2, ma8 // 2 + 1, ma8 - 1, ma8, ma8 + 1, ma8 + 20, 2 * ma8 + 40])
    prios = sorted({e["prio"] for e in case["events"] if e["t"] == "p"} | {rng.choice([-3, 0, 1, 2, 5, 9])})
    case["prios"] = prios
    case["adjust"] = rng.sample(GRID, 4)
    return gen_scale(rng, case)


def boundary_cases():
    """Hand-picked: exact expiry boundary, ignored proposal without bounds, bounds lost."""
    out = []
    P = lambda src, prio, pref, lo, hi, t: {"t": "p", "src": src, "prio": prio, "pref": pref, "lo": lo, "hi": hi, "time": t}
    S = {"incl": [-100, 100], "excl": [-10, 10]}
    for dt in (479, 480, 481):
        out.append({"sys": S, "events": [P("a", 1, 50, None, None, 0), P("b", 2, None, -20, 20, 8), {"t": "x", "now": dt},
                                          {"t": "x", "now": dt + 8}], "prios": [0, 1, 2, 3], "adjust": [5, -5, 50, 0]})
    out.append({"sys": {"incl": None, "excl": None}, "events": [P("a", 1, 50, None, None, 0), {"t": "x", "now": 1},
                                                               {"t": "b", "sys": S}, P("a", 1, 50, None, None, 2),
                                                               {"t": "b", "sys": {"incl": None, "excl": None}}, {"t": "x", "now": 3}],
                "prios": [1], "adjust": [5]})
    out.append({"sys": S, "events": [P("a", 1, 5, None, None, 0), P("b", 1, -5, None, None, 0), P("c", 0, 4, -3, 3, 0)],
                "prios": [0, 1], "adjust": [4, -4, 0, 10]})
    out.append({"sys": {"incl": [-5, 100], "excl": [-10, 10]}, "events": [P("a", 1, -50, None, None, 0), P("b", 0, 3, None, None, 0)],
                "prios": [0, 1], "adjust": [3, -3, 0, 10]})
    return out


def shrink_case(case):
    ev = case["events"]
    for i in range(len(ev)):
        yield {**case, "events": ev[:i] + ev[i + 1:]}
    for i, e in enumerate(ev):
        if e["t"] == "p":
            for fld in ("pref", "lo", "hi"):
                if e[fld] is not None:
                    yield {**case, "events": ev[:i] + [{**e, fld: None}] + ev[i + 1:]}
    if len(case.get("prios", [])) > 1:
        for q in case["prios"]:
            yield {**case, "prios": [q]}
    if len(case.get("adjust", [])) > 1:
        for v in case["adjust"]:
            yield {**case, "adjust": [v]}


class MatStream(Stream):
    name = "history"
    coq_header = HEADER
    n_quick = 2500
    n_thorough = 40000

    def gen(self, rng, tier):
        yield from boundary_cases()
        n = self.n_quick if tier == "quick" else self.n_thorough
        for _ in range(n):
            yield gen_case(rng, 8 if rng.random() < 0.8 else 14)

    def run_impl(self, case):
        return run_history(case)

    def to_coq(self, case, obs):
        return case_term(case, obs)

    def show_term(self, case, obs):
        rank = src_rank(case)
        ev = "[" + "; ".join(c_event(e, rank) for e in case["events"]) + "]"
        return f"mrun {cZ(case.get('max_age8', 480) * 125000)} (mkM false [] {c_sys(case['sys'])}) {ev}"

    def shrink(self, case):
        return shrink_case(case)

    def key(self, case, obs):
        nz = [t for t in obs["targets"] if t not in (None, 0)]
        if not nz and len(case["events"]) < 2:
            return None
        return json.dumps([case["sys"], case["events"], case.get("scale")], sort_keys=True)

    def labels(self, case, obs):
        out = [f"events={min(len(case['events']), 15)}"]
        if case.get("scale", 1) != 1:
            out.append("fractional_or_scaled_watts")
        kinds = {e["t"] for e in case["events"]}
        out += [f"has_{k}" for k in sorted(kinds)]
        prios = [e["prio"] for e in case["events"] if e["t"] == "p"]
        if len(prios) != len(set(prios)):
            out.append("repeated_priority")
        if case["sys"]["incl"] is None:
            out.append("no_inclusion_bounds")
        if any(t not in (None, 0) for t in obs["targets"]):
            out.append("nonzero_target")
        live = live_proposals(case["events"], case.get("max_age8", 480))
        npro = sum(1 for e in case["events"] if e["t"] == "p")
        if len(live) < npro:
            out.append("replaced_or_expired")
        return out


# ============================================================================= stream `calls`
# calculate_target_power with BOTH values of must_return_power, get_target_power after every call,
# many actors and expiry sweeps that drop several proposals at once.
CALLS_HEADER = """From Verif Require Import model.PowerManager.
Inductive gev := GProp (p : proposal) (must : bool) | GExp (now : Z) (must : bool) | GBounds (s : sysb).
(* one public call; returns (state, bounds in force, returned value, get_target_power afterwards) *)
Fixpoint grun (ma : Z) (g : grp) (s : sysb) (h : list gev) : list (option Z * option Z) :=
  match h with
  | [] => []
  | GBounds s' :: h' => (None, g_target g) :: grun ma g s' h'
  | GProp p must :: h' => let '(g', r) := gcalc g (Some p) s must in (r, g_target g') :: grun ma g' s h'
  | GExp now must :: h' =>
      let '(g', r) := gcalc (expire_grp ma now g) None s must in (r, g_target g') :: grun ma g' s h'
  end.
Definition case_t := (Z * sysb * list gev * list (option Z * option Z))%type.
Definition check (c : case_t) : bool :=
  let '(ma, s, h, exp) := c in
  list_eqb (pair_eqb optZ_eqb optZ_eqb) (grun ma (mkG false [] None) s h) exp.
"""


def run_calls(case):
    _, _, _, Matryoshka, _ = _imports()
    set_scale(case)
    m = Matryoshka(max_proposal_age=timedelta(seconds=case.get("max_age8", 480) / 8.0))
    cur = mk_sys(case["sys"])
    out = []
    for e in case["events"]:
        if e["t"] == "p":
            r = watts(m.calculate_target_power(IDS, mk_prop(e), cur, must_return_power=e["must"]))
        elif e["t"] == "x":
            m.drop_old_proposals(e["now"] / 8.0)
            r = watts(m.calculate_target_power(IDS, None, cur, must_return_power=e["must"]))
        else:
            cur = mk_sys(e["sys"])
            r = None
        out.append([r, watts(m.get_target_power(IDS))])
    return {"calls": out}


def gen_calls_case(rng):
    many = rng.random() < 0.45
    nsrc = rng.randint(5, 9) if many else rng.randint(1, 4)
    case = {"sys": gen_sys(rng, allow_none=rng.random() < 0.1), "events": []}
    ma = rng.choice([480] * 5 + [4, 724, 8 * 86400])
    if ma != 480:
        case["max_age8"] = ma
    now = rng.randrange(0, 40)
    n = rng.randint(6, 16) if many else rng.randint(2, 9)
    prios = rng.sample(range(-3, 12), nsrc) if many and rng.random() < 0.7 else None
    for k in range(n):
        r = rng.random()
        if r < (0.7 if many else 0.6):
            p = gen_prop(rng, nsrc, now)
            if prios is not None:
                p["prio"] = prios[int(p["src"][1:])]
            if many and k < nsrc:      # make sure many distinct actors are live at once
                p["src"] = f"a{k}"
                if prios is not None:
                    p["prio"] = prios[k]
            p["must"] = rng.random() < 0.5
            case["events"].append(p)
        elif r < 0.88:
            case["events"].append({"t": "x", "now": now, "must": rng.random() < 0.5})
        else:
            case["events"].append({"t": "b", "sys": gen_sys(rng, allow_none=False)})
        # staggered creation times so that one sweep expires SOME of the live proposals
        now += rng.choice([0, 1, 8, ma // 4, ma // 3, ma // 2, ma - 1, ma + 1] if many else
                          [0, 1, 8, 80, ma // 2, ma - 1, ma, ma + 1, ma + 20])
    if many:
        case["events"].append({"t": "x", "now": now + rng.choice([0, ma // 2, ma // 2 + 1, ma]), "must": True})
    return gen_scale(rng, case)


def gen_tiny_relative_case(rng):
    B = 2 ** rng.choice([31, 33, 40])
    E = 2 ** rng.choice([20, 25])
    d = rng.choice([1, 1, 2, 3])
    side = rng.choice([1, -1])
    P = lambda src, prio, pref, lo, hi, t, must: {"t": "p", "src": src, "prio": prio, "pref": pref, "lo": lo, "hi": hi, "time": t, "must": must}
    kind = rng.choice(["incl", "excl", "both"])
    s0 = {"incl": [-B, B], "excl": [-E, E]}
    s1 = {"incl": [-(B - d), B - d] if kind in ("incl", "both") else [-B, B],
          "excl": [-(E + d), E + d] if kind in ("excl", "both") else [-E, E]}
    pref = side * (2 * B if kind == "incl" else E // 2 if kind == "excl" else rng.choice([2 * B, E // 2]))
    evs = [P("a", 1, pref, None, None, 0, rng.random() < 0.5)]
    if rng.random() < 0.5:
        evs.append(P("b", 3, None, -2 * B, 2 * B, 0, False))
    evs += [{"t": "b", "sys": s1}, {"t": "x", "now": 8, "must": rng.random() < 0.3}]
    if rng.random() < 0.5:      # and back, or further
        evs += [{"t": "b", "sys": rng.choice([s0, {"incl": [-(B - 2 * d), B - 2 * d], "excl": s1["excl"]}])}, {"t": "x", "now": 16, "must": False}]
    return {"sys": s0, "events": evs}


class CallsStream(Stream):
    name = "calls"
    coq_header = CALLS_HEADER
    coq_targets = ["model/PowerManager.vo"]

    def gen(self, rng, tier):
        P = lambda src, prio, pref, lo, hi, t, must: {"t": "p", "src": src, "prio": prio, "pref": pref, "lo": lo, "hi": hi, "time": t, "must": must}
        S = {"incl": [-200, 200], "excl": [-10, 10]}
        # identical re-send with must=False after the bounds shrank; refresh keeps a proposal alive
        yield {"sys": S, "events": [P("a", 1, -120, None, None, 0, False), {"t": "b", "sys": {"incl": [-50, 50], "excl": [-10, 10]}},
                                    P("a", 1, -120, None, None, 8, False), {"t": "x", "now": 16, "must": False}]}
        yield {"sys": S, "events": [P("a", 1, 30, None, None, 0, False), P("a", 1, 30, None, None, 440, False),
                                    {"t": "x", "now": 500, "must": False}, {"t": "x", "now": 930, "must": True}]}
        for _ in range(900 if tier == "quick" else 15000):
            yield gen_calls_case(rng)
        # system bounds that move by one part in 2^31 or less (float noise in summed bounds is of that order):
        # a target sitting on a bound or on an exclusion edge has to follow, whatever must_return_power is
        for _ in range(60 if tier == "quick" else 600):
            yield gen_tiny_relative_case(rng)

    def run_impl(self, case):
        return run_calls(case)

    def _events(self, case):
        rank = src_rank(case)
        ev = []
        for e in case["events"]:
            if e["t"] == "p":
                ev.append(f"(GProp (mkP {cZ(e['prio'])} {cZ(rank[e['src']])} {copt(e['pref'])} {copt(e['lo'])} {copt(e['hi'])} "
                          f"{cZ(e['time'] * 125000)}) {'true' if e['must'] else 'false'})")
            elif e["t"] == "x":
                ev.append(f"(GExp {cZ(e['now'] * 125000)} {'true' if e['must'] else 'false'})")
            else:
                ev.append(f"(GBounds {c_sys(e['sys'])})")
        return "[" + "; ".join(ev) + "]"

    def to_coq(self, case, obs):
        exp = "[" + "; ".join(f"({copt(a)}, {copt(b)})" for a, b in obs["calls"]) + "]"
        return f"(({cZ(case.get('max_age8', 480) * 125000)}, {c_sys(case['sys'])}, {self._events(case)}, {exp}) : case_t)"

    def show_term(self, case, obs):
        return f"grun {cZ(case.get('max_age8', 480) * 125000)} (mkG false [] None) {c_sys(case['sys'])} {self._events(case)}"

    def shrink(self, case):
        return shrink_case(case)

    def key(self, case, obs):
        if not any(b not in (None, 0) for _, b in obs["calls"]):
            return None
        return json.dumps([case["sys"], case["events"], case.get("max_age8")], sort_keys=True)

    def labels(self, case, obs):
        out = []
        actors = {(e["prio"], e["src"]) for e in case["events"] if e["t"] == "p"}
        out.append(f"actors={min(len(actors), 9)}")
        if any(e["t"] in ("p", "x") and not e["must"] for e in case["events"]):
            out.append("must_return_power_false")
        if any(r is None and e["t"] != "b" for e, (r, _) in zip(case["events"], obs["calls"])):
            out.append("call_returned_None")
        if max(abs(v) for v in (case["sys"]["incl"] or [0, 0])) >= 2 ** 31:
            out.append("bounds_move_by_a_tiny_relative_amount")
        # sweeps that drop >= 2 proposals at once
        ma = case.get("max_age8", 480)
        live = {}
        for e in case["events"]:
            if e["t"] == "p":
                live[(e["prio"], e["src"])] = e
            elif e["t"] == "x":
                dead = [k for k, p in live.items() if e["now"] - p["time"] > ma]
                if len(dead) >= 2 and len(live) - len(dead) >= 1:
                    out.append("sweep_drops_several_keeps_some")
                for k in dead:
                    del live[k]
        return sorted(set(out))

    def oracle(self, case, obs):
        """After EVERY call the target in force (get_target_power) is the target of a fresh
        instance fed only the live proposals under the bounds passed to that call; the value a
        call returns is either None or that target."""
        out = []
        systems = [case["sys"]] + [e["sys"] for e in case["events"] if e["t"] == "b"]
        if any(x["incl"] is None and x["excl"] is None for x in systems):
            return out
        s = case["sys"]
        ma = case.get("max_age8", 480)
        for i, (e, (r, stored)) in enumerate(zip(case["events"], obs["calls"])):
            if e["t"] == "b":
                s = e["sys"]
                continue
            if not wf_sys(s):
                continue
            prefix = case["events"][: i + 1]
            live = list(live_proposals(prefix, ma).values())
            accepted = any(x["t"] == "p" for x in prefix)
            if live:
                fresh = run_history({"sys": s, "events": [{**p, "t": "p"} for p in live], "max_age8": ma})["targets"][-1]
            else:
                fresh = 0 if accepted else None
            if stored != fresh:
                out.append({"what": f"in-force: after call {i} ({'must' if e['must'] else 'no-must'}) get_target_power() = {stored} but the live "
                                    f"proposals under the bounds of that call give {fresh}", "finding": None})
                break
            if r is not None and r != stored:
                out.append({"what": f"return: call {i} returned {r} but the target in force is {stored}", "finding": None})
                break
            if not envelope_ok(s, stored):
                out.append({"what": f"envelope: target in force {stored} after call {i} is outside the usable bounds {s}", "finding": None})
                break
        return out


# ============================================================================= stream `groups`
# One Matryoshka instance serving several component groups: the same actor identity
# (priority, source_id) may have proposals in more than one group (pools created with the
# same name and priority for different component sets), drop_old_proposals sweeps every
# bucket, and proposals carry either value of set_operating_point (irrelevant to the
# computation: the model's proposal has no such field).
NGROUPS = 3
GROUPS_HEADER = """From Verif Require Import model.PowerManager.
Inductive gev := GProp (g : nat) (p : proposal) (must : bool) | GExp (g : nat) (now : Z) (must : bool) | GBounds (s : sysb).
Fixpoint upd (gs : list grp) (k : nat) (g : grp) : list grp :=
  match gs, k with
  | [], _ => []
  | _ :: r, O => g :: r
  | x :: r, S k' => x :: upd r k' g
  end.
Definition empty_grp := mkG false [] None.
(* one public call on one group; the sweep of drop_old_proposals covers every group.
   Observation: the returned value and get_target_power of every group afterwards *)
Fixpoint grun (ma : Z) (gs : list grp) (s : sysb) (h : list gev) : list (option Z * list (option Z)) :=
  match h with
  | [] => []
  | GBounds s' :: h' => (None, map g_target gs) :: grun ma gs s' h'
  | GProp k p must :: h' =>
      let '(g', r) := gcalc (nth k gs empty_grp) (Some p) s must in
      let gs' := upd gs k g' in (r, map g_target gs') :: grun ma gs' s h'
  | GExp k now must :: h' =>
      let gs1 := map (expire_grp ma now) gs in
      let '(g', r) := gcalc (nth k gs1 empty_grp) None s must in
      let gs' := upd gs1 k g' in (r, map g_target gs') :: grun ma gs' s h'
  end.
Definition case_t := (Z * sysb * list gev * list (option Z * list (option Z)))%type.
Definition check (c : case_t) : bool :=
  let '(ma, s, h, exp) := c in
  list_eqb (pair_eqb optZ_eqb (list_eqb optZ_eqb)) (grun ma [empty_grp; empty_grp; empty_grp] s h) exp.
"""


def run_groups(case):
    _, _, _, Matryoshka, _ = _imports()
    import dataclasses
    set_scale(case)
    m = Matryoshka(max_proposal_age=timedelta(seconds=case.get("max_age8", 480) / 8.0))
    cur = mk_sys(case["sys"])
    ids = [frozenset({k + 1}) for k in range(NGROUPS)]
    out = []
    for e in case["events"]:
        if e["t"] == "p":
            p = dataclasses.replace(mk_prop(e), component_ids=ids[e["g"]], set_operating_point=bool(e.get("op")))
            r = watts(m.calculate_target_power(ids[e["g"]], p, cur, must_return_power=e["must"]))
        elif e["t"] == "x":
            m.drop_old_proposals(e["now"] / 8.0)
            r = watts(m.calculate_target_power(ids[e["g"]], None, cur, must_return_power=e["must"]))
        else:
            cur = mk_sys(e["sys"])
            r = None
        out.append([r, [watts(m.get_target_power(i)) for i in ids]])
    return {"calls": out}


def gen_groups_case(rng):
    case = gen_calls_case(rng)
    shared = rng.random() < 0.7          # the same actor identities appear in several groups
    for e in case["events"]:
        if e["t"] in ("p", "x"):
            e["g"] = rng.randrange(NGROUPS)
        if e["t"] == "p":
            if not shared:
                e["src"] = f"{e['src']}g{e['g']}"
            if rng.random() < 0.4:
                e["op"] = True
    return case


class GroupsStream(CallsStream):
    name = "groups"
    coq_header = GROUPS_HEADER

    def gen(self, rng, tier):
        P = lambda g, src, prio, pref, lo, hi, t, op=False: {"t": "p", "g": g, "src": src, "prio": prio, "pref": pref, "lo": lo,
                                                             "hi": hi, "time": t, "must": True, "op": op}
        S = {"incl": [-200, 200], "excl": [-10, 10]}
        # an actor's old proposal in group 0 expires while its fresh one in group 1 must stay
        yield {"sys": S, "events": [P(0, "a", 3, 50, None, None, 0), P(1, "b", 1, 100, None, None, 400), P(1, "a", 3, None, -40, 40, 440),
                                    {"t": "x", "g": 1, "now": 500, "must": True}, {"t": "x", "g": 0, "now": 500, "must": True}]}
        # the same actor re-proposes with the other value of set_operating_point: still a replacement
        yield {"sys": S, "events": [P(0, "a", 3, 100, 50, 150, 0), P(0, "a", 3, -80, -120, -40, 8, op=True), P(0, "b", 1, -100, None, None, 8)]}
        for _ in range(700 if tier == "quick" else 12000):
            yield gen_groups_case(rng)

    def run_impl(self, case):
        return run_groups(case)

    def _events(self, case):
        rank = src_rank(case)
        ev = []
        for e in case["events"]:
            if e["t"] == "p":
                ev.append(f"(GProp {e['g']}%nat (mkP {cZ(e['prio'])} {cZ(rank[e['src']])} {copt(e['pref'])} {copt(e['lo'])} "
                          f"{copt(e['hi'])} {cZ(e['time'] * 125000)}) {'true' if e['must'] else 'false'})")
            elif e["t"] == "x":
                ev.append(f"(GExp {e['g']}%nat {cZ(e['now'] * 125000)} {'true' if e['must'] else 'false'})")
            else:
                ev.append(f"(GBounds {c_sys(e['sys'])})")
        return "[" + "; ".join(ev) + "]"

    def to_coq(self, case, obs):
        exp = "[" + "; ".join(f"({copt(a)}, {clist(b, copt)})" for a, b in obs["calls"]) + "]"
        return f"(({cZ(case.get('max_age8', 480) * 125000)}, {c_sys(case['sys'])}, {self._events(case)}, {exp}) : case_t)"

    def show_term(self, case, obs):
        return (f"grun {cZ(case.get('max_age8', 480) * 125000)} [empty_grp; empty_grp; empty_grp] "
                f"{c_sys(case['sys'])} {self._events(case)}")

    def key(self, case, obs):
        if not any(b not in (None, 0) for _, bs in obs["calls"] for b in bs):
            return None
        return json.dumps([case["sys"], case["events"], case.get("max_age8")], sort_keys=True)

    def labels(self, case, obs):
        out = []
        used = {e["g"] for e in case["events"] if e["t"] == "p"}
        out.append(f"groups_used={len(used)}")
        by_actor = {}
        for e in case["events"]:
            if e["t"] == "p":
                by_actor.setdefault((e["prio"], e["src"]), set()).add(e["g"])
        if any(len(v) > 1 for v in by_actor.values()):
            out.append("actor_in_several_groups")
        flags = {}
        for e in case["events"]:
            if e["t"] == "p":
                flags.setdefault((e["g"], e["prio"], e["src"]), set()).add(bool(e.get("op")))
        if any(len(v) > 1 for v in flags.values()):
            out.append("actor_changes_operating_point_flag")
        if any(e["t"] in ("p", "x") and not e["must"] for e in case["events"]):
            out.append("must_return_power_false")
        return sorted(out)

    def oracle(self, case, obs):
        """After every call on group g, g's target in force is the target of a fresh instance fed
        only g's live proposals (latest per actor, not older than the maximum age at the last sweep);
        the other groups' targets in force do not change."""
        out = []
        systems = [case["sys"]] + [e["sys"] for e in case["events"] if e["t"] == "b"]
        if any(x["incl"] is None and x["excl"] is None for x in systems):
            return out
        s = case["sys"]
        ma = case.get("max_age8", 480)
        prev = [None] * NGROUPS
        for i, (e, (r, stored)) in enumerate(zip(case["events"], obs["calls"])):
            if e["t"] == "b":
                s = e["sys"]
                continue
            g = e["g"]
            if any(stored[k] != prev[k] for k in range(NGROUPS) if k != g):
                out.append({"what": f"other-group: call {i} on group {g} changed the targets in force from {prev} to {stored}", "finding": None})
                break
            prev = list(stored)
            if not wf_sys(s):
                continue
            prefix = case["events"][: i + 1]
            # sweeps are global, proposals are per group
            mine = [x for x in prefix if x["t"] == "x" or (x["t"] == "p" and x["g"] == g)]
            live = list(live_proposals(mine, ma).values())
            accepted = any(x["t"] == "p" for x in mine)
            if live:
                fresh = run_history({"sys": s, "events": [{**p, "t": "p"} for p in live], "max_age8": ma})["targets"][-1]
            else:
                fresh = 0 if accepted else None
            if stored[g] != fresh:
                out.append({"what": f"in-force: after call {i} on group {g} get_target_power() = {stored[g]} but the live proposals of "
                                    f"that group under the bounds of that call give {fresh}", "finding": None})
                break
            if r is not None and r != stored[g]:
                out.append({"what": f"return: call {i} returned {r} but the target in force is {stored[g]}", "finding": None})
                break
        return out
