"""C05 -- formula output equals the arithmetic value of the expression."""
from __future__ import annotations

import json

from harness import formula as FM

ID = "C05"
PROPS = "props/C05.v"
NEEDS = ["operator_precedence", "Adder_apply", "Subtractor_apply", "Multiplier_apply", "Divider_apply", "Maximizer_apply", "Minimizer_apply", "Consumption_apply", "Production_apply", "Clipper_apply", "ConstantValue_apply"]


class StrStream(FM.FormulaStream):
    name = "string"
    check_fn = "check_str"
    n_quick = 1300
    n_thorough = 18000
    p_missing = (0.0, 0.0, 0.1)
    p_unaligned = 0.1
    p_stall = 0.05
    p_ends = 0.06

    def gen(self, rng, tier):
        n = self.n_quick if tier == "quick" else self.n_thorough
        for _ in range(n):
            c = FM.gen_str_case(rng)
            pm = rng.choice(self.p_missing)
            c["rows"] = FM.gen_rows(rng, sorted(FM.ast_vars(c["ast"])), rng.randint(2, 4), pm)
            if rng.random() < self.p_unaligned:
                c["pre_rows"] = FM.gen_pre_rows(rng, sorted(FM.ast_vars(c["ast"])))
            elif len(FM.ast_vars(c["ast"])) > 1 and rng.random() < self.p_stall:
                names = sorted(FM.ast_vars(c["ast"]))
                c["rows"] = FM.gen_rows(rng, names, rng.randint(10, 12), 0.0)
                c["stall"] = FM.gen_stall(rng, names, len(c["rows"]))
            elif len(FM.ast_vars(c["ast"])) > 1 and rng.random() < self.p_ends:
                names = sorted(FM.ast_vars(c["ast"]))
                c["rows"] = FM.gen_rows(rng, names, rng.randint(4, 6), 0.0)
                if rng.random() < 0.6:      # one input stream ENDS mid-run, the others continue
                    c["ends"] = [str(rng.choice(names)), rng.randint(1, len(c["rows"]) - 2)]
                else:                        # a stream that started earlier loses its sample of row 0
                    c["lost"] = str(rng.choice(names))
                    c["pre_rows"] = [{c["lost"]: FM.gen_value(rng, 0.3)}]
            yield c
        if tier == "thorough":      # every AST of depth <= 2 over three variables
            for ast in FM.all_asts(2, [1, 2, 3]):
                yield {"kind": "str", "ast": ast, "ws": [1], "nz": False,
                       "rows": FM.gen_rows(rng, sorted(FM.ast_vars(ast)), 2, 0.0)}
        # ill-formed strings: the tokenizer's / int()'s ValueError must be the model's None
        for s in ["#", "#1 + #", "#1 $ #2", "1 + #2", "#1 + # 2", "#1 #2", "", "   ", "#1 + (#2", "#1 ) + #2", "#12#3",
                  "#007 * #7", "\t#1\n-\r#2 "]:
            yield {"kind": "str", "formula": s, "nz": False, "rows": [{str(k): rng.choice(FM.VALS) for k in (1, 2, 3, 7, 12)}]}

    def to_coq(self, case, obs):
        return FM.term_str(case, obs)

    def oracle(self, case, obs):
        out = []
        if "ast" not in case:
            return out
        formula = FM.render(case["ast"], case["ws"])
        if "error" in obs:
            return [{"what": f"rejected: well-formed formula {formula!r} raised {obs['error']}", "finding": None}]
        if FM.std_parse(formula) != FM.strip_parens(case["ast"]):
            raise AssertionError("harness bug: printer and reference parser disagree on " + formula)
        if case.get("lost"):   # steady state only: from the third common timestamp on every sample must be there and right
            FM.judge_rows({**case, "rows": case["rows"][2:]}, {**obs, "out": obs["out"][2:], "float_out": (obs.get("float_out") or [])[2:]},
                          lambda row: FM.eval_ast(case["ast"], row, case["nz"]), out)
            return out
        FM.judge_rows(FM.cut_case(case, obs), obs, lambda row: FM.eval_ast(case["ast"], row, case["nz"]), out)
        out += FM.tail_violations(obs)
        return out

    def key(self, case, obs):
        if "ast" not in case or case["ast"][0] == "v":
            return None
        return json.dumps([case["ast"], case["rows"]], sort_keys=True)

    def labels(self, case, obs):
        if "ast" not in case:
            return ["illformed_string"]
        a = case["ast"]
        s = json.dumps(a)
        out = [f"depth={FM.ast_depth(a)}", f"nz={case['nz']}"]
        out += [f"op{op}" for op in FM.BOPS if f'"{op}"' in s]
        if '"p"' in s:
            out.append("redundant_parens")
        if case["ws"] != [1]:
            out.append("odd_whitespace")
        if case.get("pre_rows"):
            out.append("unaligned_start")
        if case.get("stall"):
            out.append(f"one_input_stalls_{case['stall'][2] * 10}s_then_catches_up")
        if case.get("ends"):
            out.append("one_input_stream_ends_mid_run")
        if case.get("lost"):
            out.append("earlier_stream_loses_its_first_common_sample")
        for k, row in enumerate(case["rows"]):
            if FM.eval_ast(a, row, True) is None:
                out.append("zero_divisor")
                break
        if obs.get("out") and any(o is None for o in obs["out"]):
            out.append("emits_None")
        return out + FM.row_labels(case)


class HoStream(FM.FormulaStream):
    name = "operators"
    check_fn = "check_ho_multi"
    n_quick = 900
    n_thorough = 18000
    p_missing = (0.0, 0.0, 0.1)
    p_src_nz = 0.1
    p_unaligned = 0.1
    p_stall = 0.05
    p_ends = 0.06

    def gen(self, rng, tier):
        n = self.n_quick if tier == "quick" else self.n_thorough
        for _ in range(n):
            c = FM.gen_ho_case(rng)
            names = sorted(FM.hb_names(c["tree"]))
            c["rows"] = FM.gen_rows(rng, names, rng.randint(2, 4), rng.choice(self.p_missing))
            c["src_nz"] = {str(k): rng.random() < self.p_src_nz for k in names}
            if rng.random() < self.p_unaligned:
                c["pre_rows"] = FM.gen_pre_rows(rng, names)
            elif len(names) > 1 and rng.random() < self.p_stall:
                c["rows"] = FM.gen_rows(rng, names, rng.randint(10, 12), 0.0)
                c["stall"] = FM.gen_stall(rng, names, len(c["rows"]))
            elif len(names) > 1 and not c.get("stop") and rng.random() < self.p_ends:
                c["rows"] = FM.gen_rows(rng, names, rng.randint(4, 6), 0.0)
                c["ends"] = [str(rng.choice(names)), rng.randint(1, len(c["rows"]) - 2)]
            yield c

    def to_coq(self, case, obs):
        return FM.term_ho(case, obs)

    def oracle(self, case, obs):
        out = []
        src = case.get("src_nz", {})
        builds = obs.get("builds") or [{"tree": case["tree"], "nz": case["nz"], **obs}]
        for i, b in enumerate(builds):     # every engine that was built must compute ITS expression
            sub = []
            cb = FM.cut_case(case, b)
            sub += FM.tail_violations(b, f"engine #{i + 1}: ")
            FM.judge_rows(cb, b, lambda row: FM.eval_hb(b["tree"], row, lambda n: b["nz"] or src.get(str(n), False)), sub)
            if len(builds) > 1:
                for v in sub:
                    v["what"] = v["what"].split(":")[0] + f": engine #{i + 1} of {len(builds)} built in this scenario (nones_are_zeros={b['nz']}): " + v["what"].split(":", 1)[1]
            out += sub
        return out

    def key(self, case, obs):
        return json.dumps([case["tree"], case["rows"]], sort_keys=True)

    def labels(self, case, obs):
        s = json.dumps(case["tree"])
        out = [f"nz={case['nz']}", f"size={min(s.count('['), 40) // 5 * 5}+"]
        out += [f"op_{op}" for op in FM.HOPS + ("consumption", "production") if f'"{op}"' in s]
        out += [f"arg_{k}" for k, tag in (("engine", '["e"'), ("constant", '["c"'), ("builder", '["b"')) if tag in s]
        if any(case.get("src_nz", {}).values()):
            out.append("source_engine_nones_are_zeros")
        if case.get("share"):
            out.append("shared_builder_objects")
        if case.get("names"):
            out.append("operand_engines_with_equal_names")
        if case.get("zones") and len({json.dumps(z) for z in case["zones"].values()}) > 1:
            out.append("inputs_in_different_time_zones")
        if any("stopped_at" in b for b in obs.get("builds", [])):
            out.append("an_engine_sharing_inputs_stopped_mid_run")
        if case.get("pre"):
            out.append("sub_builder_built_then_extended")
        if len(obs.get("builds", [])) > 1:
            out.append(f"engines_built={min(len(obs['builds']), 5)}")
        if case.get("pre_rows"):
            out.append("unaligned_start")
        if case.get("stall"):
            out.append(f"one_input_stalls_{case['stall'][2] * 10}s_then_catches_up")
        if case.get("ends"):
            out.append("one_input_stream_ends_mid_run")
        if case.get("lost"):
            out.append("earlier_stream_loses_its_first_common_sample")
        if case.get("perturb"):
            out.append("builders_reused_after_combination")
        if obs.get("out") and any(o is None for o in obs["out"]):
            out.append("emits_None")
        return out + FM.row_labels(case)


class SignedStream(FM.FormulaStream):
    """The call sequence every formula generator uses (C12's signed-term lists), on the real
    ResampledFormulaBuilder; model side: compile_signed (theorem C05_signed_sum)."""
    name = "generators"
    check_fn = "check_signed"
    n_quick = 300
    n_thorough = 5000

    def gen(self, rng, tier):
        # the formula of an empty component set: one non-existing id with nones_are_zeros=True
        yield {"kind": "signed", "first": [100000, True], "terms": [], "rows": [{"100000": "none"}, {"100000": "nan"}]}
        for _ in range(self.n_quick if tier == "quick" else self.n_thorough):
            yield FM.gen_signed_case(rng)

    def to_coq(self, case, obs):
        return FM.term_signed(case, obs)

    def oracle(self, case, obs):
        out = []
        FM.judge_rows(case, obs, lambda row: FM.signed_ref(case, row), out)
        return out

    def key(self, case, obs):
        return json.dumps([case["first"], case["terms"], case["rows"]], sort_keys=True)

    def labels(self, case, obs):
        out = [f"terms={1 + len(case['terms'])}"]
        if any(not t[0] for t in case["terms"]):
            out.append("has_minus")
        ids = [case["first"][0]] + [t[1] for t in case["terms"]]
        if len(set(ids)) < len(ids):
            out.append("repeated_id")
        if obs.get("out") and any(o is None for o in obs["out"]):
            out.append("emits_None")
        return out + FM.row_labels(case)


class PoolStream(FM.FormulaStream):
    """FormulaEnginePool.from_string (LogicalMeter.start_formula): several requests on one pool --
    same string / other metric, other string / same metric, identical requests again -- with
    distinguishable per-metric inputs; every request is judged on the streams of ITS metric."""
    name = "pool"
    check_fn = "check_pool"
    n_quick = 200
    n_thorough = 4000

    def gen(self, rng, tier):
        a, b = ["b", "+", ["v", 1], ["v", 2]], ["b", "-", ["v", 1], ["b", "*", ["v", 2], ["v", 3]]]
        yield {"kind": "pool", "requests": [[a, 0, False], [b, 0, False], [a, 1, False], [a, 0, False], [b, 2, True], [a, 1, True]],
               "rows": [{f"{m}:{i}": (m + 2) * 100 + 10 * i + k for m in (0, 1, 2) for i in (1, 2, 3)} for k in range(3)]}
        yield {"kind": "pool", "requests": [[a, 2, False], [a, 3, False]], "compose": [[0, "-", 1]],
               "rows": [{"2:1": 10, "2:2": 20, "3:1": 1, "3:2": 2}, {"2:1": 5, "2:2": 5, "3:1": 7, "3:2": 1}]}
        n = self.n_quick if tier == "quick" else self.n_thorough
        for _ in range(n // 8):
            yield FM.gen_pool_long_case(rng)
        for _ in range(n):
            yield FM.gen_pool_case(rng)

    def to_coq(self, case, obs):
        return FM.term_pool(case, obs)

    def oracle(self, case, obs):
        out = []
        if "error" in obs:
            return [{"what": f"rejected: a well-formed formula raised {obs['error']}", "finding": None}]
        for i, ((ast, m, nz), d) in enumerate(zip(case["requests"], obs["requests"])):
            sub = []
            flag = FM.pool_first_flag(case, i)
            FM.judge_rows({"rows": [FM.pool_row(r, m) for r in case["rows"]]}, d,
                          lambda row: FM.eval_ast(ast, row, flag), sub)
            for v in sub:
                v["what"] = v["what"].split(":")[0] + f": request #{i + 1} ({FM.render(ast, [1])!r} on metric {FM.POOL_METRICS[m]}): " + v["what"].split(":", 1)[1]
            out += sub

        def val(i, row):
            a, m, _ = case["requests"][i]
            return FM.finite_or_none(FM.eval_ast(a, FM.pool_row(row, m), FM.pool_first_flag(case, i)))
        for cd, (i, op, j) in zip(obs.get("composed", []), case.get("compose", [])):
            sub = []
            FM.judge_rows(case, cd, lambda row: FM.binop_ref(op, val(i, row), val(j, row)), sub)
            for v in sub:
                v["what"] = v["what"].split(":")[0] + f": composed formula (request #{i + 1}) {op} (request #{j + 1}): " + v["what"].split(":", 1)[1]
            out += sub
        return out

    def key(self, case, obs):
        return json.dumps([case["requests"], case.get("compose"), case["rows"]], sort_keys=True)

    def labels(self, case, obs):
        out = [f"requests={len(case['requests'])}"]
        reqs = [(json.dumps(a), m) for a, m, _ in case["requests"]]
        if len({a for a, _ in reqs}) < len({(a, m) for a, m in reqs}):
            out.append("same_string_two_metrics")
        if len(set(reqs)) < len(reqs):
            out.append("identical_request_repeated")
        if len({m for _, m in reqs}) < len({(a, m) for a, m in reqs}):
            out.append("two_strings_one_metric")
        if case.get("compose"):
            out.append("pool_engines_composed")
        if any(len(FM.render(a, [1])) > 40 for a, _, _ in case["requests"]):
            out.append("formula_string_longer_than_40")
        return out + FM.row_labels(case)


def streams():
    from harness import c13
    raw = c13.RawStream()
    raw.n_quick, raw.n_thorough = 200, 3000
    return [StrStream(), HoStream(), SignedStream(), FM.FloatBoundaryStream(), PoolStream(), c13.Ho3Stream(), raw]


ASSUMPTIONS = [
    "Exact arithmetic (rnd = Num) for the string theorems: 'up to floating-point rounding' in the property. The shunting "
    "yard re-associates a+b-c as a+(b-c) and a*b/c as a*(b/c); equal in exact arithmetic, measured <= 1e-9 relative in the float run.",
    "Input strings are ASCII (str.isdigit on non-ASCII digits is not modelled); metric ids are parsed by int().",
    "Builders are values (repaired tree, fix: 466a650: operators copy the token deque); equal sub-trees may be one shared Python object.",
    "A formula has at least one input stream (FormulaEngine._run spins without awaiting when there is no fetcher).",
    "All streams deliver their samples for one timestamp in lock-step (synchronisation is property C06).",
]
TRUSTED = ["harness/formula.py XF (float subclass carrying an exact Fraction: makes the engine's arithmetic exact)",
           "async_solipsism event loop"]

META = {
    "technique": "Coq proof (compiler correctness of the shunting-yard FormulaBuilder by structural induction over formulas: "
                 "invariant over the 16 reachable operator-stack shapes, generic refinement push_oper/finalize -> semantic machine, "
                 "lifting through parentheses; HigherOrderFormulaBuilder trees by induction; tokenizer read-back) + T-tie "
                 "translation of _operator_precedence and of the step classes' apply bodies (float-stack mode) + differential correspondence of Tokenizer / ResampledFormulaBuilder.from_string / "
                 "FormulaBuilder / HigherOrderFormulaBuilder / FormulaEvaluator vs the model evaluated inside Coq",
    "level_text": "Machine-checked theorems, closed under the global context, on a Gallina model of tokenizer, FormulaBuilder "
                  "(push_oper/push_metric/push_constant/finalize), the higher-order builder's token discipline and the post-fix evaluator, "
                  "whose precedence table is regenerated from /repo on every run: (1) every spelling of a token list tokenizes back; "
                  "(2) for EVERY well-formed formula (grammar form, any nesting / redundant parentheses) and for every AST printed by the "
                  "standard printer, the compiled program emits the value under ordinary precedence and left-to-right evaluation, with "
                  "None for a zero divisor or a missing needed input (exact arithmetic, no use of x/0=0); (3) for EVERY builder tree over "
                  "+ - * / max min consumption production, engines, builders and constants the compiled program computes the tree's value, "
                  "for every rounding function. The rest of the model is tied to the code by running the real from_string path and the real "
                  "operator API on thousands of generated formulas (exact-rational run compared bit for bit inside Coq: emitted step list, "
                  "fetcher flags and every emitted sample; float run judged up to 1e-9) and by an independent Fraction evaluation of the AST.",
    "level_note": "Proved on the model, not on CPython: the tie is checked (T-tie for the table, C-tie for everything else), not proved. "
                  "String theorems are for exact arithmetic; IEEE rounding/overflow is only a parameter (rnd) in the operator-API theorems. "
                  "Trusted: Coq kernel + vm_compute, tools/translate.py, the harness (generator coverage bounds the tie; XF exact-float class), "
                  "asyncio/frequenz.channels delivering lock-step samples. Out of scope and found while building: formulas without any input stream (from_string('') or constants only) make "
                  "FormulaEngine._run spin without awaiting; no input timestamp exists, so C05/C13 are vacuous there.",
}
