"""C08 — resampled values use exactly the recent, non-future input samples."""
from __future__ import annotations

import json

from harness import resampler as R

ID = "C08"
PROPS = "props/C08.v"


def judge_c08(case, log, history=None, nseries=None):
    """The property statement judged on what the recording resampling function and the sinks were
    handed (independent of the Coq model).  Window clause only for time-ordered input (the
    property's domain); the never-future / never-invalid / None-iff-empty clauses always."""
    out = []
    p = case["period"]
    an, ad = case["age"]
    history = history or R.series_history
    for sid in range(nseries if nseries is not None else len(case["series"])):
        h = history(case, log, sid)
        if not h:
            continue
        valid_ts = [ev[1][0] for ev in h if ev[0] == "recv" and ev[1][2] not in (1, 2)]
        ordered = all(a <= b for a, b in zip(valid_ts, valid_ts[1:]))
        cap = case["init_len"]
        buf = []
        learned = False
        wrong_cap = None
        for ev in h:
            if ev[0] == "recv":
                if ev[1][2] not in (1, 2):
                    buf.append(ev[1])
                    buf = buf[-cap:]
                continue
            _, T, passed, val, sp, maxlen, linked = ev
            # "the configured buffer": initial_buffer_len until the input period is learned, from then on the
            # documented capacity for that period (computed here, not read from the implementation; the peeked
            # capacity only decides between the integers a float ceil may legitimately give)
            if sp is not None and not learned:
                learned = True
                doc, allowed = R.documented_capacity(case, sp)
                newcap = maxlen if maxlen in allowed else doc
                if maxlen not in allowed:
                    wrong_cap = (T, sp, maxlen, doc)
                cap = newcap
                buf = buf[-cap:]
            elif maxlen != cap and wrong_cap is None:
                out.append(f"capacity: series {sid} tick {T}: the buffer capacity changed from {cap} to {maxlen} although the "
                           f"input period was {'already known' if learned else 'not learned'}")
                break
            peff = p if sp is None else max(p, sp)
            lo = T - R._div_round_he(peff * an, ad)
            expected = [x for x in buf if lo < x[0] <= T]
            if any(x[2] in (1, 2) for x in passed):
                out.append(f"invalid: series {sid} tick {T}: a None/NaN sample was handed to the resampling function: {passed}")
                break
            if any(x[0] > T for x in passed) and ordered:
                out.append(f"future: series {sid} tick {T}: a sample stamped after {T} was handed to the resampling function: "
                           f"{[x for x in passed if x[0] > T]}")
                break
            if (val is None) != (not passed):
                out.append(f"none-iff-empty: series {sid} tick {T}: emitted {'None' if val is None else 'a value'} for {len(passed)} passed samples")
                break
            if not linked:
                out.append(f"value: series {sid} tick {T}: the emitted value is not the resampling function's result for this tick")
                break
            if ordered and passed != expected:
                out.append(f"window: series {sid} tick {T}: the function got {_brief(passed)}, the buffered samples stamped in "
                           f"({lo}, {T}] are {_brief(expected)} (configured capacity {cap}, input period {sp}"
                           + (f"; the implementation resized its buffer to {wrong_cap[2]} at tick {wrong_cap[0]}, documented {wrong_cap[3]}" if wrong_cap else "") + ")")
                break
            if ordered and (val is None) != (not expected):
                out.append(f"none-iff-empty: series {sid} tick {T}: emitted {'None' if val is None else 'a value'} while "
                           f"{len(expected)} buffered samples are stamped in ({lo}, {T}]")
                break
    # no sink fails and no source stops in these scenarios: resample() must never raise; if it does, the series
    # concerned got nothing for that tick (and a supervisor would drop it for good)
    for e in log:
        if e[0] == "raised":
            out.append(f"error: resample() raised ResamplingError for series {e[1]} at +{e[2]} us: nothing was emitted for that tick")
            break
        # (IndexError = add_timeseries during an in-flight gather: every sink of that tick had already been
        #  served; it concerns the loop, see C07, not what a source is handed)
        if e[0] == "crash" and e[1] != "IndexError":
            out.append(f"error: resample() died with {e[1]} at +{e[2]} us")
            break
    return [{"what": w, "finding": None} for w in out]


def _brief(xs):
    if len(xs) <= 6:
        return str([[x[0], x[1]] for x in xs])
    return f"{len(xs)} samples {[[x[0], x[1]] for x in xs[:2]]}..{[[x[0], x[1]] for x in xs[-2:]]}"


class C08Stream(R.ScenarioStream):
    name = "window"
    coq_header = R.C08_HEADER
    n_quick = 1000
    n_thorough = 15000

    def gen(self, rng, tier):
        yield from R.c08_boundary_cases()
        n = self.n_quick if tier == "quick" else self.n_thorough
        for _ in range(n):
            yield R.gen_c08_case(rng, tier)

    def to_coq(self, case, obs):
        return R.c08_term(case, obs)

    def show_term(self, case, obs):
        return None

    def oracle(self, case, obs):
        return judge_c08(case, obs["log"])

    def key(self, case, obs):
        n = sum(1 for e in obs["log"] if e[0] == "fn")
        if n < 1:
            return None
        return json.dumps([case["period"], case["age"], case["init_len"], case["start"], case["series"]], sort_keys=True)

    def labels(self, case, obs):
        log = obs["log"]
        p = case["period"]
        out = [f"period={p}", f"age={case['age'][0] / case['age'][1]}", f"init_len={case['init_len']}"]
        if case["max_len"] < 1024:
            out.append("small_max_len")
        if case.get("sample_tz"):
            out.append("samples_stamped_in_DST_zone")
            if any(case["start"] < x < case["start"] + case["duration"] for x in R.DST_ZONES[case["sample_tz"]]):
                out.append("run_crosses_DST_transition")
        an, ad = case["age"]
        for sid in range(len(case["series"])):
            h = R.series_history(case, log, sid)
            ts_valid = [ev[1][0] for ev in h if ev[0] == "recv" and ev[1][2] not in (1, 2)]
            if not all(a <= b for a, b in zip(ts_valid, ts_valid[1:])):
                out.append("not_time_ordered(correspondence only)")
            cap = case["init_len"]
            seen = []
            lastsp = None
            for ev in h:
                if ev[0] == "recv":
                    seen.append(ev[1])
                    continue
                _, T, passed, val, sp, maxlen, _ = ev
                if maxlen != cap:
                    out.append("resize_grow" if maxlen > cap else "resize_shrink")
                    cap = maxlen
                if sp is not None and lastsp is None:
                    out.append("upsampling(sp>period)" if sp > p else "downsampling(sp<=period)")
                    if sp == p:
                        out.append("input_period_exactly_equals_period" + ("(period!=1s)" if p != 10**6 else "(1s)"))
                lastsp = sp
                peff = p if sp is None else max(p, sp)
                lo = T - R._div_round_he(peff * an, ad)
                if any(x[0] == T and x[2] not in (1, 2) for x in seen):
                    out.append("sample_stamped_exactly_T")
                if any(x[0] == lo and x[2] not in (1, 2) for x in seen):
                    out.append("sample_stamped_exactly_T-age*period")
                    if sp is not None and sp > p:
                        out.append("sample_stamped_exactly_T-age*input_period(upsampling)")
                if any(x[0] > T and x[2] not in (1, 2) for x in seen):
                    out.append("future_stamped_sample_buffered_at_tick")
                if val is None:
                    out.append("emitted_None")
                if len(passed) >= cap and cap > 0:
                    out.append("window_limited_by_buffer")
            if any(ev[0] == "recv" and ev[1][2] >= 3 for ev in h):
                out.append("inf_or_huge_sample")
            if any(ev[0] == "tick" and ev[3] in ("nan", "inf", "-inf") for ev in h):
                out.append("emitted_value_nan_or_inf")
            if any(ev[0] == "recv" and ev[1][2] == 1 for ev in h):
                out.append("None_sample")
            if any(ev[0] == "recv" and ev[1][2] == 2 for ev in h):
                out.append("NaN_sample")
        return sorted(set(out))


class ActorBurstStream(R.Stream):
    """The production wiring (ComponentMetricsResamplingActor, registry channels) judged by the same window oracle and
    the same Coq model: back-to-back bursts in front of a small initial buffer."""
    name = "actor_burst"
    coq_header = R.C08_HEADER
    n_quick = 60
    n_thorough = 1000

    def gen(self, rng, tier):
        for _ in range(self.n_quick if tier == "quick" else self.n_thorough):
            yield R.gen_actor_burst_case(rng, tier)

    def run_impl(self, case):
        return R.run_actor_scenario(case)

    def to_coq(self, case, obs):
        return R.c08_term(case, obs, R.actor_series_history)

    def oracle(self, case, obs):
        return judge_c08(case, obs["log"], R.actor_series_history, len(case["metrics"]))

    def key(self, case, obs):
        if not any(e[0] == "fn" for e in obs["log"]):
            return None
        return json.dumps([case["period"], case["age"], case["init_len"], case["start"], case["metrics"]], sort_keys=True)

    def labels(self, case, obs):
        out = ["actor_path", f"init_len={case['init_len']}"]
        h = R.actor_series_history(case, obs["log"], 0)
        caps = {ev[5] for ev in h if ev[0] == "tick"}
        if any(c is not None and c > case["init_len"] for c in caps):
            out.append("buffer_grew_beyond_initial_len")
        if any(ev[0] == "tick" and len(ev[2]) > case["init_len"] for ev in h):
            out.append("window_larger_than_initial_len")
        n = max((sum(1 for x in case["metrics"][0]["samples"] if x[0] == at) for at in {x[0] for x in case["metrics"][0]["samples"]}), default=0)
        out.append(f"burst<= {10 * ((n + 9) // 10)}")
        return out

    def shrink(self, case):
        m = case["metrics"][0]
        n = len(m["samples"])
        for a, b in ((0, n // 2), (n // 2, n), (n // 4, n // 2), (n // 2, 3 * n // 4)):
            if b > a:
                yield {**case, "metrics": [{**m, "samples": m["samples"][:a] + m["samples"][b:]}]}
        if case["duration"] > 4 * case["period"]:
            yield {**case, "duration": case["duration"] - 2 * case["period"]}


def streams():
    return [C08Stream(), ActorBurstStream()]


TRUSTED = ["async_solipsism 0.7 virtual event loop + time_machine slaved to it",
           "the scenario driver of tools/harness/resampler.py (scripted sources, recording resampling function, log -> per-source history)",
           "read-only peek at _ResamplingHelper._buffer.maxlen (capacity is not exposed publicly)"]

ASSUMPTIONS = [
    "the estimated input sampling period and the resized buffer length are float computations: they enter the model as "
    "oracle inputs recorded from the implementation run (the theorems hold for every value of them)",
    "the update guard's float comparison `received < period_s * max_age` decides like the exact rational comparison "
    "(checked by the generator for every generated configuration)",
    "samples reach the helper in the order the source yields them (asyncio task per source)",
    "timestamps are modelled as UTC instants; sample stamps (and align_to) are also given in DST-observing zoneinfo zones "
    "across transitions and every recorded timestamp is compared as a UTC instant",
]

META = {
    "technique": "Coq proof (bisect_right on a sorted list = count of stamps <= x; slice between two bisect positions = half-open "
                 "filter; buffer = bounded suffix of the valid history, invariant over arbitrary event sequences) + trace "
                 "correspondence of the real Resampler (recording resampling_function through ResamplerConfig, scripted "
                 "sources, async_solipsism + time_machine) against the model evaluated in Coq + property oracle",
    "level_text": "Machine-checked theorems, closed under the global context, on a Gallina model of one resampling source (bounded "
                  "deque, None/NaN filter, source properties, relevance window with timedelta*float rounding modelled exactly as "
                  "round-half-even of the exact rational product, CPython's bisect_right loop, islice): for every time-ordered "
                  "history the sequence handed to the resampling function is exactly the buffered valid samples stamped in "
                  "(T - max_age*max(period, input period), T], in arrival order; the buffer is the most recent part of the valid "
                  "history that fits its capacity; nothing stamped after T and no None/NaN is ever passed; a value is emitted iff "
                  "that sequence is non-empty. The model is tied to the code by replaying recorded runs of the real Resampler "
                  "through it inside Coq (every passed sequence, emitted None/value, sampling period, capacity compared exactly).",
    "level_note": "Oracle inputs (not proved): the float estimate of the input sampling period and the resized buffer length; on every "
                  "compared run they are checked against exact rational specifications (estimate = (T - start)/received within 1 us, "
                  "capacity = clamped ceil of the documented quotient, neighbouring integer allowed only within 1e-9 of an integer). "
                  "Fixed finding F24 (c9dba8f): an estimate rounding to zero killed the series; the model discards a zero estimate. The "
                  "capacity is read from the private deque (read-only) because the public API does not expose it. Histories that "
                  "are not time-ordered are outside the property's domain: they are still compared model-vs-code exactly.",
}
