"""C10: actor life cycle (restart policy, start/stop/cancel/wait, run) of the real SDK classes.

Implementation side: real `Actor` / `BackgroundService` / `run` on an `async_solipsism`
virtual-time loop.  A probe actor's `_run` follows a script (await points x outcome per
invocation, reaction to each delivered cancellation); `start/cancel/stop/wait/run` and extra
tasks are injected at scripted virtual instants.  Probe-level instrumentation only:
  * the probe subclass overrides start/cancel/stop/wait to record call / return and then
    delegates to the real method (nested calls made by stop() are folded into the stop event),
  * `asyncio.wait` is wrapped to record the instant a blocked wait()/stop()/run() resumes,
  * every exception raised by a probe task carries the id of its task.
Model side: coq/model/Actor.v, `grun`.
"""
from __future__ import annotations

import asyncio
import itertools
import json

from lib.core import Stream, cZ, cbool, clist, cnat

OUT = {"ret": "Return", "exc": "Exc", "base": "BaseExc", "cancelled": "Cancelled"}


class ProbeError(Exception):
    def __init__(self, tid):
        super().__init__(f"task {tid}")
        self.tid = tid


class ProbeBase(BaseException):
    def __init__(self, tid):
        super().__init__(f"task {tid}")
        self.tid = tid


def run_case(case):
    import warnings
    from datetime import timedelta
    import async_solipsism
    from frequenz.sdk.actor import Actor
    warnings.simplefilter("ignore")
    from frequenz.sdk.actor import run as sdk_run

    loop = async_solipsism.EventLoop()
    log: list = []
    tid_of: dict = {}          # asyncio task -> tid
    task_of: dict = {}         # tid -> asyncio task
    loops: dict = {}           # tid -> {"a":actor index, "in_run": bool, "ended": bool}
    extras: dict = {}          # tid -> {"logged": bool}
    ctx: dict = {}             # asyncio task -> ("call", wid) | ("run", rid)
    wid_of_task: dict = {}
    counters = {"tid": 0, "wid": 0, "rid": 0}
    orig_wait = asyncio.wait
    orig_sleep = asyncio.sleep
    harness_tasks: list = []
    pending_caw: list = []
    CLEANUP_S = 0.1            # a reaction "slow<r>": the cleanup awaits this long before reacting with <r>

    def now_us():
        return int(round(loop.time() * 1_000_000))

    def flush():
        """A loop task that is done without a recorded end was cancelled at its delay (or before
        its first step): the CancelledError was thrown in the step that finished it, which no
        recorded event can precede-and-follow, so recording it now keeps the order exact."""
        for entry, task, before in pending_caw:      # did cancel_and_await() request the cancellation?
            if entry[4] is None:
                entry[4] = [entry[2]] if task.cancelling() > before else []
        for tid, info in loops.items():
            if not info["ended"] and not info["in_run"] and task_of[tid].done():
                info["ended"] = True
                if task_of[tid].cancelled():      # otherwise: the Exception of the last run, re-raised at the limit
                    log.append([now_us(), "delaycancel", tid])
        for tid, info in extras.items():   # an extra task cancelled before its first step never ran its coroutine
            if not info["logged"] and task_of[tid].done():
                info["logged"] = True
                log.append([now_us(), "xdone", tid, "cancelled"])

    def rec(*entry):
        flush()
        e = [now_us(), *entry]
        log.append(e)
        return e

    def new_tid(task, a):
        counters["tid"] += 1
        tid = counters["tid"]
        tid_of[task] = tid
        task_of[tid] = task
        return tid

    def cancelling_snapshot():
        return {tid: t.cancelling() for tid, t in task_of.items()}

    def targets_since(before):
        return sorted(tid for tid, t in task_of.items() if t.cancelling() > before.get(tid, 0))

    def classify(exc):
        if isinstance(exc, asyncio.CancelledError):
            return [0, "cancelled"]
        if isinstance(exc, ProbeError):
            return [exc.tid, "exc"]
        if isinstance(exc, ProbeBase):
            return [exc.tid, "base"]
        return [0, "other:" + type(exc).__name__]

    class Probe(Actor):
        def __init__(self, idx, spec):
            nm = spec.get("name", f"probe{idx}")
            super().__init__(name=None if nm == "default" else nm)
            self.idx = idx
            self.spec = spec
            if spec["limit"] != "default":
                self._restart_limit = spec["limit"]
            d = spec.get("delay")
            if d and d["how"] == "instance":        # RESTART_DELAY set on the instance
                self.RESTART_DELAY = timedelta(milliseconds=d["ms"])
            self.invocation = 0
            self._stop_entry = None

        def __del__(self):          # the real __del__ cancels the tasks at GC time: not part of a schedule
            pass

        # ---- recorded entry points, all delegating to the real methods
        def start(self):
            flush()
            before = set(self._tasks)
            super().start()
            new = [t for t in self._tasks if t not in before]
            if new:
                tid = new_tid(new[0], self.idx)
                loops[tid] = {"a": self.idx, "in_run": False, "ended": False}
                rec("start", self.idx, tid, True)
            else:
                rec("start", self.idx, 0, False)

        def cancel(self, msg=None):
            flush()
            before = cancelling_snapshot()
            super().cancel(msg)
            tg = targets_since(before)
            if self._stop_entry is not None:
                self._stop_entry[5] = tg          # the cancel() made by stop()
            else:
                rec("cancel", self.idx, tg)

        async def stop(self, msg=None):
            cur = asyncio.current_task()
            wid = wid_of_task.pop(cur, None) or _new("wid")
            set0 = sorted(tid_of[t] for t in self._tasks)
            pend0 = sorted(tid_of[t] for t in self._tasks if not t.done())
            entry = rec("stopcall", self.idx, wid, pend0, [], set0)   # [t, kind, a, wid, pending, targets, set0]
            self._stop_entry = entry
            ctx[cur] = ("call", wid)
            try:
                try:
                    await super().stop(msg)
                finally:
                    self._stop_entry = None
            except BaseExceptionGroup as grp:
                rec("ret", wid, sorted(classify(e) for e in grp.exceptions), done_flags(set0))
                raise
            except asyncio.CancelledError:       # the awaiter of stop() was cancelled / timed out
                rec("abort", wid, done_flags(set0))
                raise
            rec("ret", wid, "ok", done_flags(set0))

        async def wait(self):
            if self._stop_entry is not None:      # the wait() made by stop(): same call
                self._stop_entry = None
                return await super().wait()
            cur = asyncio.current_task()
            wid = wid_of_task.pop(cur, None) or _new("wid")
            set0 = sorted(tid_of[t] for t in self._tasks)
            rec("waitcall", self.idx, wid, set0)
            ctx[cur] = ("call", wid)
            try:
                await super().wait()
            except BaseExceptionGroup as grp:
                rec("ret", wid, sorted(classify(e) for e in grp.exceptions), done_flags(set0))
                raise
            except asyncio.CancelledError:
                rec("abort", wid, done_flags(set0))
                raise
            rec("ret", wid, "ok", done_flags(set0))

        # ---- the scripted run logic
        async def _run(self):
            cur = asyncio.current_task()
            tid = tid_of[cur]
            k = self.invocation
            self.invocation += 1
            if k > len(self.spec["script"]) + 40:      # a runaway restart loop (never on the real code): break out
                loops[tid]["in_run"] = True
                rec("enter", tid)
                loops[tid]["in_run"] = False
                loops[tid]["ended"] = True
                rec("exit", tid, "base")
                raise ProbeBase(tid)
            script = self.spec["script"]
            sp = script[k] if k < len(script) else {"awaits": [], "end": "ret", "on_cancel": []}
            loops[tid]["in_run"] = True
            rec("enter", tid)
            if sp.get("spawn"):              # the run logic spawns a helper task and registers it in self.tasks
                register(self, sp["spawn"])
            reactions = list(sp.get("on_cancel", []))

            def leave(o):
                loops[tid]["in_run"] = False
                if o != "exc":
                    loops[tid]["ended"] = True
                rec("exit", tid, o)
                if o == "exc":
                    # a callback scheduled with call_soon right after the failure: it must get to run before the next
                    # invocation (restarts happen at most one per loop iteration) ...
                    loop.call_soon(lambda: rec("tick", tid))
                    # ... and a cancel()/stop() it requests must prevent that invocation
                    if sp.get("after") == "cancel":
                        loop.call_soon(self.cancel)
                    elif sp.get("after") == "stop":
                        loop.call_soon(lambda: harness_tasks.append(
                            asyncio.create_task(do_call(self.stop, "stop", self.idx, None))))

            for d in sp["awaits"]:
                try:
                    await orig_sleep(d / 1000.0)
                except asyncio.CancelledError:
                    rec("deliver", tid)
                    r = reactions.pop(0) if reactions else "prop"
                    if r.startswith("slow"):          # cleanup that awaits before reacting
                        r = r[4:]
                        try:
                            await orig_sleep(CLEANUP_S)
                        except asyncio.CancelledError:   # cancelled again during the cleanup
                            rec("deliver", tid)
                            r = "prop"
                    if r == "prop":
                        leave("cancelled")
                        raise
                    if r == "ret":
                        leave("ret")
                        return
                    if r == "exc":
                        leave("exc")
                        raise ProbeError(tid) from None
                    if r == "base":
                        leave("base")
                        raise ProbeBase(tid) from None
                    # "cont": swallow and go on with the next await
            end = sp["end"]
            if end == "selfcancel_exc":
                before = cancelling_snapshot()
                cur.cancel()
                rec("cancel1", tid)
                leave("exc")
                raise ProbeError(tid)
            leave({"cancel": "cancelled"}.get(end, end))
            if end == "exc":
                raise ProbeError(tid)
            if end == "base":
                raise ProbeBase(tid)
            if end == "cancel":
                raise asyncio.CancelledError()

    def _new(kind):
        counters[kind] += 1
        return counters[kind]

    class ProbeB(Probe):      # other classes: str(actor) = "<class>[<name>]" differs although the name is equal
        pass

    class ProbeC(Probe):
        pass

    classes = {"A": Probe, "B": ProbeB, "C": ProbeC}

    def done_flags(tids):
        return [task_of[t].done() for t in tids]

    async def extra_task(tid, spec):
        reactions = list(spec.get("on_cancel", []))
        o = spec["end"]
        try:
            for d in spec["awaits"]:
                try:
                    await orig_sleep(d / 1000.0)
                except asyncio.CancelledError:
                    r = reactions.pop(0) if reactions else "prop"
                    if r.startswith("slow"):
                        r = r[4:]
                        try:
                            await orig_sleep(CLEANUP_S)
                        except asyncio.CancelledError:
                            r = "prop"
                    if r == "cont":
                        continue
                    o = {"prop": "cancelled"}.get(r, r)
                    break
        finally:
            pass
        flush()
        extras[tid]["logged"] = True
        rec("xdone", tid, o)
        if o == "exc":
            raise ProbeError(tid)
        if o == "base":
            raise ProbeBase(tid)
        if o == "cancelled":
            raise asyncio.CancelledError()

    def register(actor, spec):
        """Spawn an extra task and register it the documented way: through the PUBLIC `tasks` property
        (`self.tasks.add(task)`); spec["via"] == "_tasks" uses the private set instead."""
        counters["tid"] += 1
        tid = counters["tid"]
        t = asyncio.create_task(extra_task(tid, spec))
        tid_of[t] = tid
        task_of[tid] = t
        extras[tid] = {"logged": False}
        flush()
        if spec.get("via") == "_tasks":
            actor._tasks.add(t)
        else:
            actor.tasks.add(t)
        rec("add", actor.idx, tid, spec.get("via", "tasks"))

    async def rec_wait(fs, *, timeout=None, return_when=asyncio.ALL_COMPLETED):
        fs = set(fs)
        cur = asyncio.current_task()
        c = ctx.get(cur)
        if c is not None and c[0] == "run" and not c[2]["called"]:
            c[2]["called"] = True
            ws = []
            for f in sorted(fs, key=lambda f: f.get_name()):
                w = _new("wid")
                wid_of_task[f] = w
                c[2]["wid"][f] = w
                ws.append(w)
            rec("runcall", c[1], sorted(ws), sorted(c[2]["sel"]))
        res = await orig_wait(fs, timeout=timeout, return_when=return_when)
        if c is not None and c[0] == "call":
            rec("wake", c[1])
        elif c is not None and c[0] == "run":
            rec("runwake", c[1], sorted(c[2]["wid"][f] for f in res[0]))
        return res

    async def do_caw(task, tid):
        from frequenz.sdk._internal._asyncio import cancel_and_await
        flush()
        wid = _new("wid")
        was_done = task.done()
        entry = rec("cawcall", tid, wid, None, was_done, task.cancelling())   # [t, kind, tid, wid, targets, done?, cancelling]
        pending_caw.append((entry, task, task.cancelling()))
        res = "ok"
        try:
            await cancel_and_await(task)
        except asyncio.CancelledError:
            raise
        except BaseException as exc:      # pylint: disable=broad-except
            res = [classify(exc)]
        flush()
        if not was_done:
            rec("wake", wid)
        rec("ret", wid, res, [task.done()])

    class BodyError(Exception):
        pass

    async def do_with(actor, spec):
        me = asyncio.current_task()
        info = {"set0": None, "exit_fired": False}

        def fire_exit():
            if not me.done():
                flush()
                info["exit_fired"] = True
                rec("awcancel", 0)
                me.cancel()
        if spec["end"] == "cancel":
            loop.call_later(spec["dur"] / 1000.0, me.cancel)
        raised, how = [], "ok"
        try:
            async with actor:
                try:
                    await orig_sleep(3600.0 if spec["end"] == "cancel" else spec["dur"] / 1000.0)
                    if spec["end"] == "raise":
                        raise BodyError()
                finally:
                    flush()
                    info["set0"] = sorted(tid_of[t] for t in actor._tasks)
                    rec("withleave", actor.idx, spec["end"], info["set0"])
                    if "exit_cancel_after" in spec:      # the task executing __aexit__ is cancelled meanwhile
                        loop.call_later(spec["exit_cancel_after"] / 1000.0, fire_exit)
        except BodyError:
            how = "body-error"
        except asyncio.CancelledError:
            how = "cancelled"
        except BaseExceptionGroup as grp:
            how = "group"
            raised = sorted(classify(e) for e in grp.exceptions)
        set0 = info["set0"] or []
        rec("withdone", actor.idx, set0, done_flags(set0), raised, how, spec["end"], info["exit_fired"])

    async def do_call(fn, kind, a_idx, spec):
        """await actor.stop() / actor.wait(); the awaiting task may itself be cancelled after `cancel_after` ms
        or the call be wrapped in asyncio.timeout(`timeout` ms)."""
        me = asyncio.current_task()
        wid = _new("wid")
        wid_of_task[me] = wid
        fired = {"v": False}

        def fire():
            if not me.done():
                flush()
                fired["v"] = True
                rec("awcancel", wid)
                me.cancel()
        if spec and "cancel_after" in spec:
            loop.call_later(spec["cancel_after"] / 1000.0, fire)
        how = "ok"
        t_call = now_us()
        try:
            if spec and "timeout" in spec:
                async with asyncio.timeout(spec["timeout"] / 1000.0):
                    await fn()
            else:
                await fn()
        except BaseExceptionGroup:
            how = "group"
        except TimeoutError:
            how = "timeout"
        except asyncio.CancelledError:
            how = "cancelled"
        rec("opdone", wid, kind, how, fired["v"], t_call, spec or {})

    async def call_op(coro_fn):
        try:
            await coro_fn()
        except BaseExceptionGroup:
            pass

    async def main():
        def make(i, spec):
            cls = classes[spec.get("cls", "A")]
            d = spec.get("delay")
            if d and d["how"] == "subclass":         # RESTART_DELAY overridden in a subclass
                cls = type(cls.__name__ + "Delay", (cls,), {"RESTART_DELAY": timedelta(milliseconds=d["ms"])})
            return cls(i, spec)
        actors = [make(i, spec) for i, spec in enumerate(case["actors"])]

        async def heartbeat():
            # async_solipsism treats a wait of >= 24 h until the next timer as "sleep for ever": keep a timer
            # at most 6 h away so that restart delays of a day and more can elapse on virtual time
            while True:
                await orig_sleep(21600.0)
        hb = asyncio.create_task(heartbeat())
        t0 = loop.time()
        for op in case["ops"]:
            due = t0 + op[0] / 1000.0
            if due > loop.time():
                await orig_sleep(due - loop.time())
            kind = op[1]
            if kind == "yield":
                for _ in range(op[2]):
                    await orig_sleep(0)
            elif kind == "start":
                actors[op[2]].start()
            elif kind == "cancel":
                actors[op[2]].cancel()
            elif kind == "stop":
                harness_tasks.append(asyncio.create_task(do_call(actors[op[2]].stop, "stop", op[2], op[3] if len(op) > 3 else None)))
            elif kind == "wait":
                harness_tasks.append(asyncio.create_task(do_call(actors[op[2]].wait, "wait", op[2], op[3] if len(op) > 3 else None)))
            elif kind == "add":
                register(actors[op[2]], op[3])
            elif kind == "setlimit":      # the restart budget is changed while the actor exists
                flush()
                actors[op[2]]._restart_limit = op[3]
                rec("setlimit", op[2], op[3])
            elif kind == "cancel1":       # Task.cancel() on one task of the actor
                ts = sorted(tid_of[t] for t in actors[op[2]]._tasks)
                if ts:
                    tid = ts[op[3] % len(ts)]
                    flush()
                    task_of[tid].cancel()
                    rec("cancel1", tid)
            elif kind == "caw":           # _internal._asyncio.cancel_and_await(task) on one task of the actor
                ts = sorted(tid_of[t] for t in actors[op[2]]._tasks)
                if ts:
                    tid = ts[op[3] % len(ts)]
                    harness_tasks.append(asyncio.create_task(do_caw(task_of[tid], tid)))
            elif kind == "with":          # async with actor: <body>
                harness_tasks.append(asyncio.create_task(do_with(actors[op[2]], op[3])))
            elif kind == "run":
                rid = _new("rid")
                info = {"called": False, "wid": {}, "sel": list(op[2])}
                sel = [actors[i] for i in op[2]]
                sets0 = sorted(tid_of[t] for a in sel for t in a._tasks)

                async def do_run(rid=rid, info=info, sel=sel):
                    ctx[asyncio.current_task()] = ("run", rid, info)
                    rec("runbegin", rid, [a.idx for a in sel])
                    try:
                        await sdk_run(*sel)
                    except asyncio.CancelledError:
                        raise
                    except BaseException as exc:     # pylint: disable=broad-except
                        rec("runerr", rid, type(exc).__name__)
                        return
                    if not info["called"]:           # run() never blocked (e.g. the empty group): it waited on nothing
                        info["called"] = True
                        rec("runcall", rid, [], sorted(info["sel"]))
                    rec("runret", rid, [a.is_running for a in sel])
                harness_tasks.append(asyncio.create_task(do_run()))
        # ---- drain: let every script play out, then stop every actor and wait for the calls
        await orig_sleep(case.get("settle_ms", 3000) / 1000.0)
        for a in actors:
            harness_tasks.append(asyncio.create_task(call_op(a.stop)))
        hung = False
        # (a stop() may legitimately wait for a restart delay: a run that turns the cancellation into an Exception
        #  restarts after ITS actor's delay, which may be days)
        longest = max([2.0] + [a.RESTART_DELAY.total_seconds() for a in actors])
        for i in range(240 + 400):
            await orig_sleep(1.0 if i < 240 else longest / 10.0)
            if all(t.done() for t in harness_tasks):
                break
        else:
            hung = True
        flush()
        finals = []
        for tid in sorted(task_of):
            t = task_of[tid]
            if not t.done():
                o = None
            elif t.cancelled():
                o = "cancelled"
            else:
                e = t.exception()
                o = "ret" if e is None else classify(e)[1]
            finals.append([tid, o, t.cancelling()])
        sets = [[a.idx, sorted(tid_of[t] for t in a._tasks), a.is_running] for a in actors]
        log_len = len(log)        # everything after this point is the harness's own teardown, not part of the schedule
        hb.cancel()
        for t in harness_tasks:
            if not t.done():
                t.cancel()
        for t in task_of.values():
            if not t.done():
                t.cancel()
        await orig_sleep(0)
        await orig_sleep(0)
        for t in list(harness_tasks) + list(task_of.values()):
            if t.done() and not t.cancelled():
                t.exception()       # mark retrieved
        del log[log_len:]
        return {"finals": finals, "sets": sets, "hung": hung}

    from frequenz.sdk.actor import Actor as _A
    delay_us = int(round(_A.RESTART_DELAY.total_seconds() * 1_000_000))
    asyncio.set_event_loop(loop)
    asyncio.wait = rec_wait
    try:
        res = loop.run_until_complete(main())
    finally:
        asyncio.wait = orig_wait
        asyncio.set_event_loop(None)
        loop.close()
    res["log"] = log
    res["delay_us"] = delay_us
    res["default_limit"] = _A._restart_limit
    return res


# ----------------------------------------------------------------------------- Coq rendering
def c_outcome(o):
    return OUT[o]


def c_errs(res):
    if res == "ok":
        return "WOk"
    return "(WRaise " + clist(res, lambda x: f"({cnat(x[0])}, {c_outcome(x[1])})") + ")"


def c_event(e, actor_of_call=None):
    t, k = e[0], e[1]
    nl = lambda xs: clist(xs, cnat)
    if k == "start":
        ev = f"GStart {cnat(e[2])} {cnat(e[3])} {cbool(e[4])}"
    elif k == "add":
        ev = f"GAdd {cnat(e[2])} {cnat(e[3])}"
    elif k == "enter":
        ev = f"GLoop {cnat(e[2])} LEnter"
    elif k == "deliver":
        ev = f"GLoop {cnat(e[2])} LDeliver"
    elif k == "exit":
        ev = f"GLoop {cnat(e[2])} (LExit {c_outcome(e[3])})"
    elif k == "delaycancel":
        ev = f"GLoop {cnat(e[2])} LDelayCancelled"
    elif k == "xdone":
        ev = f"GExtraDone {cnat(e[2])} {c_outcome(e[3])}"
    elif k == "cancel":
        ev = f"GCancel {cnat(e[2])} {nl(e[3])}"
    elif k == "cancel1":
        ev = f"GCancelTask {cnat(e[2])}"
    elif k == "waitcall":
        ev = f"GWaitCall {cnat(e[2])} {cnat(e[3])}"
    elif k == "stopcall":
        ev = f"GStopCall {cnat(e[2])} {cnat(e[3])} {nl(e[5])}"
    elif k == "wake":
        ev = f"GWake {cnat(e[2])}"
    elif k == "ret":
        ev = f"GRet {cnat(e[2])} {c_errs(e[3])}"
    elif k == "runcall":
        # one wait() call per actor given to run(): the actor of a call is the one whose wait() it executed
        # (999 = the call never began); both lists sorted by actor
        aws = sorted([(actor_of_call or {}).get(w, 999), w] for w in e[3])
        ev = f"GRunCall {cnat(e[2])} {nl(e[4])} " + clist(aws, lambda x: f"({cnat(x[0])}, {cnat(x[1])})")
    elif k == "runwake":
        ev = f"GRunWake {cnat(e[2])} {nl(e[3])}"
    elif k == "runret":
        ev = f"GRunRet {cnat(e[2])}"
    elif k == "setlimit":
        ev = f"GSetLimit {cnat(e[2])} {c_limit(e[3], None)}"
    elif k == "cawcall":
        ev = f"GCawCall {cnat(e[2])} {cnat(e[3])} {nl(e[4] or [])}"
    elif k == "withdone":
        if e[8]:         # the exit itself was cancelled: __aexit__ raised CancelledError, no guarantee about the tasks
            return None
        ev = f"GWithDone {cnat(e[2])} {nl(e[3])}"
    elif k == "abort":
        ev = f"GCallCancelled {cnat(e[2])}"
    else:
        return None
    return f"({cZ(t)}, {ev})"


def c_trace(log):
    actor_of_call = {e[3]: e[2] for e in log if e[1] in ("waitcall", "stopcall")}
    return "[" + "; ".join(x for x in (c_event(e, actor_of_call) for e in log) if x is not None) + "]"


def c_limit(l, default):
    if l == "default":
        l = None          # the documented default of Actor._restart_limit: unlimited
    # `n_restarts < limit` never holds for a negative limit: no restarts, like 0
    return "None" if l is None else f"(Some {cnat(max(0, l))})"


def actor_delay_us(a):
    """configured RESTART_DELAY of a probe in microseconds, None = the base-class constant"""
    d = a.get("delay")
    return None if not d or d["how"] == "base" else d["ms"] * 1000


def c_config(case, obs):
    lims = clist([a["limit"] for a in case["actors"]], lambda l: c_limit(l, obs["default_limit"]))
    delays = clist([actor_delay_us(a) for a in case["actors"]], lambda d: "None" if d is None else f"(Some {cZ(d)})")
    return f"(mkcfg {lims} {delays})"


def c_finals(obs):
    f = lambda x: f"({cnat(x[0])}, {'None' if x[1] is None else '(Some ' + c_outcome(x[1]) + ')'}, {cnat(x[2])})"
    s = lambda x: f"({cnat(x[0])}, {clist(x[1], cnat)}, {cbool(x[2])})"
    return clist(obs["finals"], f), clist(obs["sets"], s)


HEADER = """From Verif Require Import model.Actor.
(* restart delay of an actor: the value its subclass / instance overrides RESTART_DELAY with (recorded from the
   probe's configuration), else the base-class constant translated from /repo *)
Definition mkcfg (lims : list (option nat)) (delays : list (option Z)) : config :=
  mkC (fun a => nth a lims None) (fun a => default actor_restart_delay_us (nth a delays None)).
Definition opt_outcome_eqb (a b : option outcome) := opt_eqb outcome_eqb a b.
(* case: configuration (restart limit per actor; the delay is the translated RESTART_DELAY),
   the recorded boundary events, the final state of every task (outcome, Task.cancelling()),
   the final _tasks / is_running of every actor *)
Definition mkcase (c : config) (tr : list (Z * gevent)) (fin : list (nat * option outcome * nat))
                  (sets : list (nat * list nat * bool)) := (c, tr, fin, sets).
Definition check (x : config * list (Z * gevent) * list (nat * option outcome * nat)
                      * list (nat * list nat * bool)) : bool :=
  let '(c, tr, fin, sets) := x in
  match grun c g_init tr with
  | None => false
  | Some st =>
      forallb (fun f => let '(tid, o, cr) := f in
                 opt_outcome_eqb (t_outcome (g_tasks st tid)) o && Nat.eqb (g_creq st tid) cr) fin &&
      forallb (fun s => let '(a, l, r) := s in set_eqb (g_set st a) l && Bool.eqb (is_running st a) r) sets
  end.
"""


def case_term(case, obs):
    fin, sets = c_finals(obs)
    return f"(mkcase {c_config(case, obs)} {c_trace(obs['log'])} {fin} {sets})"


# ----------------------------------------------------------------------------- generation
LIMITS = [0, 1, 3, None, "default", 0, 1, 3, None, "default", -1, 5]
DELAYS = [None, None, {"how": "base"}, {"how": "subclass", "ms": 250}, {"how": "subclass", "ms": 2000}, {"how": "subclass", "ms": 7000},
          {"how": "subclass", "ms": 30000}, {"how": "instance", "ms": 250}, {"how": "instance", "ms": 7000}, {"how": "instance", "ms": 30000},
          # a delay of exactly 0: `await asyncio.sleep(0)` is then the only suspension point between two runs
          {"how": "subclass", "ms": 0}, {"how": "instance", "ms": 0},
          # delays of a day and more (virtual time makes them free): 1 d, 36 h, 7 d, 1 d + 0.5 s
          {"how": "subclass", "ms": 86_400_000}, {"how": "instance", "ms": 129_600_000}, {"how": "subclass", "ms": 604_800_000},
          {"how": "instance", "ms": 86_400_500}]


def with_delay(actor, d):
    return actor if d is None else {**actor, "delay": d}


def delay_ms_of(actor):
    d = actor.get("delay")
    return 2000 if not d or d["how"] == "base" else d["ms"]


def gen_run_script(rng, allow_self=True):
    n_aw = rng.choice([0, 1, 1, 2, 3])
    awaits = [rng.choice([0, 1, 100, 500, 1000, 2000, 2500]) for _ in range(n_aw)]
    end = rng.choice(["ret", "exc", "exc", "exc", "base", "cancel"] + (["selfcancel_exc"] if allow_self else []))
    on_cancel = [rng.choice(["prop", "prop", "prop", "ret", "exc", "exc", "base", "cont", "slowprop", "slowexc", "slowbase", "slowret"])
                 for _ in range(rng.choice([0, 0, 1, 2]))]
    out = {"awaits": awaits, "end": end, "on_cancel": on_cancel}
    if rng.random() < 0.15:       # the run logic spawns a helper task and registers it through self.tasks
        out["spawn"] = {**gen_extra(rng), "via": "tasks"}
    if end == "exc" and rng.random() < 0.2:    # cancel()/stop() requested from a call_soon callback right after the failure
        out["after"] = rng.choice(["cancel", "stop"])
    return out


def gen_extra(rng):
    return {"via": rng.choice(["tasks", "tasks", "tasks", "_tasks"]), "awaits": [rng.choice([0, 10, 500, 1500, 4000]) for _ in range(rng.choice([1, 1, 2]))],
            "end": rng.choice(["ret", "ret", "exc", "base"]),
            "on_cancel": [rng.choice(["prop", "prop", "ret", "exc", "base", "cont", "slowprop", "slowexc", "slowbase", "slowret"])
                          for _ in range(rng.choice([0, 1, 1]))]}


def interesting_times(case_actor_scripts, delay_ms):
    """Virtual instants (ms) at which injected calls are most revealing for a sequential play of the
    first actor's script: just before/at/after each run's end and each delay's end."""
    ts = {0}
    t = 0
    for sp in case_actor_scripts:
        dur = sum(sp["awaits"])
        for x in (t, t + dur // 2, t + dur, t + dur + 1):
            ts.add(x)
        if sp["end"] not in ("exc", "selfcancel_exc"):
            break
        t += dur
        for x in (t + 1, t + delay_ms // 2, t + delay_ms - 1, t + delay_ms, t + delay_ms + 1):
            ts.add(x)
        t += delay_ms
    return sorted(ts)


def gen_case(rng):
    nact = rng.choice([1, 1, 1, 2])
    actors = []
    for _ in range(nact):
        actors.append(with_delay({"limit": rng.choice(LIMITS),
                                  "script": [gen_run_script(rng) for _ in range(rng.choice([0, 1, 2, 3, 5]))]}, rng.choice(DELAYS)))
    delay_ms = delay_ms_of(actors[0])
    times = interesting_times(actors[0]["script"], delay_ms) + [rng.randrange(0, 9000) for _ in range(3)] \
        + [rng.choice([10000, delay_ms // 3 + 100])]
    ops = []
    style = rng.random()
    if style < 0.85:
        ops.append([0, "start", 0])
    for _ in range(rng.choice([0, 1, 2, 3, 4, 6, 8])):
        t = rng.choice(times)
        a = rng.randrange(nact)
        k = rng.choice(["start", "start", "stop", "stop", "cancel", "wait", "add", "add", "run", "yield",
                        "caw", "caw", "cancel1", "with", "setlimit"])
        if k == "setlimit":      # raised, lowered below the restarts already consumed, removed, negative
            ops.append([t, "setlimit", a, rng.choice([0, 0, 1, 1, 2, 3, None, -1])])
            continue
        if k in ("caw", "cancel1"):
            ops.append([t, k, a, rng.randrange(3)])
            if rng.random() < 0.5:     # twice at the same instant / a little later: the task is already being cancelled
                ops.append([t + rng.choice([0, 0, 1, 50]), rng.choice(["caw", "caw", "cancel1", "stop"]), a] + ([rng.randrange(3)] if True else []))
                if ops[-1][1] == "stop":
                    ops[-1] = ops[-1][:3]
        elif k == "with":
            spec = {"dur": rng.choice([0, 10, 500, 1500, 2500]), "end": rng.choice(["ok", "raise", "cancel"])}
            if rng.random() < 0.35:
                spec["exit_cancel_after"] = rng.choice([0, 1, 50, 99, 100, 150])
            ops.append([t, "with", a, spec])
        elif k in ("stop", "wait") and rng.random() < 0.35:
            # the task awaiting stop()/wait() is itself cancelled, or the call is under asyncio.timeout()
            d = rng.choice([0, 1, 50, 99, 100, 101, 150, 1000])
            ops.append([t, k, a, {"cancel_after": d} if rng.random() < 0.6 else {"timeout": d}])
        elif k == "add":
            ops.append([t, "add", a, gen_extra(rng)])
        elif k == "run":
            sel = sorted(rng.sample(range(nact), rng.randint(0, nact)))      # the empty group included
            ops.append([t, "run", sel])
        elif k == "yield":
            ops.append([t, "yield", rng.choice([1, 2, 3])])
        else:
            ops.append([t, k, a])
    ops.sort(key=lambda o: o[0])
    return {"actors": actors, "ops": ops, "settle_ms": rng.choice([0, 3000, 3000, 9000, delay_ms + 1000])}


def gen_run_case(rng):
    """run() over 2-3 actors: default / distinct / DUPLICATE explicit names, same or different classes,
    actors finishing in every order (durations drawn independently), some already started, some
    stopped / cancelled / given extra tasks while run() waits."""
    nact = rng.choice([2, 2, 3])
    naming = rng.choice(["default", "distinct", "dup", "dup", "mixed"])
    classing = rng.choice(["same", "same", "different"])
    actors = []
    for i in range(nact):
        name = {"default": "default", "distinct": f"n{i}", "dup": "same-name",
                "mixed": rng.choice(["default", "same-name", "same-name", f"n{i}"])}[naming]
        nruns = rng.choice([1, 1, 2])
        script = [{"awaits": [rng.choice([0, 50, 100, 700, 1500, 3000, 4000])],
                   "end": rng.choice(["ret", "ret", "exc", "base"]) if k == nruns - 1 else "exc",
                   "on_cancel": [rng.choice(["prop", "ret", "exc"])] if rng.random() < 0.3 else []}
                  for k in range(nruns)]
        actors.append(with_delay({"limit": rng.choice([0, 1, 3, None]), "script": script, "name": name,
                                  "cls": "A" if classing == "same" else "ABC"[i]}, rng.choice(DELAYS[:7] + DELAYS[10:14])))
    ops = []
    for i in range(nact):
        if rng.random() < 0.25:
            ops.append([0, "start", i])
    sel = list(range(nact)) if rng.random() < 0.75 else sorted(rng.sample(range(nact), 2))
    ops.append([rng.choice([0, 0, 0, 10]), "run", sel])
    for _ in range(rng.choice([0, 0, 0, 1, 2])):
        t = rng.choice([10, 60, 400, 800, 1600, 2500, 3500, 5000])
        k = rng.choice(["stop", "cancel", "add", "wait", "start", "run"])
        a = rng.randrange(nact)
        if k == "add":
            ops.append([t, "add", a, gen_extra(rng)])
        elif k == "run":
            ops.append([t, "run", sorted(rng.sample(range(nact), rng.randint(1, nact)))])
        else:
            ops.append([t, k, a])
    ops.sort(key=lambda o: o[0])
    return {"actors": actors, "ops": ops, "settle_ms": rng.choice([3000, 9000, 9000])}


def exhaustive_cases(maxlen):
    """All words up to [maxlen] over a small alphabet of injected calls at the same instant structure:
    one actor with a failing-then-returning script; letters advance time or call something."""
    scripts = [[{"awaits": [1000], "end": "exc", "on_cancel": ["slowexc"]}, {"awaits": [1000], "end": "ret", "on_cancel": []}]]
    letters = [("start",), ("stop",), ("stopc",), ("cancel",), ("wait",), ("add",), ("caw",), ("t", 500), ("t", 2000)]
    extra = {"awaits": [1500], "end": "exc", "on_cancel": ["slowexc"]}
    for limit, delay in ((None, None), (0, None), (1, {"how": "subclass", "ms": 500})):
        for n in range(1, maxlen + 1):
            for w in itertools.product(letters, repeat=n):
                if w[-1][0] == "t":
                    continue
                t = 0
                ops = []
                for l in w:
                    if l[0] == "t":
                        t += l[1]
                    elif l[0] == "add":
                        ops.append([t, "add", 0, extra])
                    elif l[0] == "caw":
                        ops.append([t, "caw", 0, 1])      # the most recently added task (else the loop task)
                    elif l[0] == "stopc":                 # stop() whose awaiter is cancelled in the middle of the tasks' cleanup
                        ops.append([t, "stop", 0, {"cancel_after": 50}])
                    else:
                        ops.append([t, l[0], 0])
                yield {"actors": [with_delay({"limit": limit, "script": scripts[0]}, delay)], "ops": ops, "settle_ms": 0}


def boundary_cases():
    S = lambda aw, end, oc=(): {"awaits": list(aw), "end": end, "on_cancel": list(oc)}
    A = lambda limit, script: {"limit": limit, "script": script}
    return [
        # cancelled before the first step; started again afterwards
        {"actors": [A(None, [S([100], "ret")])], "ops": [[0, "start", 0], [0, "cancel", 0], [10, "start", 0]], "settle_ms": 500},
        # stop during the restart delay
        {"actors": [A(None, [S([100], "exc"), S([100], "ret")])], "ops": [[0, "start", 0], [1000, "stop", 0]], "settle_ms": 3000},
        # stop exactly when the delay ends
        {"actors": [A(3, [S([100], "exc"), S([100], "ret")])], "ops": [[0, "start", 0], [2100, "stop", 0]], "settle_ms": 3000},
        # exception raised while being cancelled: restarts, stop() waits for the next run
        {"actors": [A(None, [S([1000], "ret", ["exc"]), S([500], "ret")])], "ops": [[0, "start", 0], [500, "stop", 0]], "settle_ms": 0},
        # limit reached
        {"actors": [A(1, [S([10], "exc"), S([], "exc"), S([10], "ret")])], "ops": [[0, "start", 0], [0, "wait", 0]], "settle_ms": 5000},
        {"actors": [A(0, [S([], "exc")])], "ops": [[0, "start", 0], [1, "stop", 0], [2, "stop", 0]], "settle_ms": 0},
        # BaseException, then restart by hand
        {"actors": [A(None, [S([10], "base"), S([10], "ret")])], "ops": [[0, "start", 0], [5, "start", 0], [20, "start", 0], [20, "start", 0]], "settle_ms": 100},
        # extra tasks, one failing, one ignoring the cancellation, stop collects the errors
        {"actors": [A(None, [S([5000], "ret")])],
         "ops": [[0, "start", 0], [10, "add", 0, {"awaits": [100, 100], "end": "exc", "on_cancel": ["cont"]}],
                 [10, "add", 0, {"awaits": [1000], "end": "ret", "on_cancel": ["base"]}], [50, "stop", 0], [60, "stop", 0]], "settle_ms": 0},
        # run() over two actors, one failing for ever within its limit
        {"actors": [A(1, [S([10], "exc"), S([10], "exc")]), A(None, [S([3000], "ret")])],
         "ops": [[0, "run", [0, 1]], [100, "wait", 1]], "settle_ms": 6000},
        # a task cancelling itself and failing without awaiting: cancelled at the restart delay
        {"actors": [A(None, [S([10], "selfcancel_exc"), S([10], "ret")])], "ops": [[0, "start", 0]], "settle_ms": 3000},
        # swallowed cancellation, task added while stop() is waiting: stop keeps waiting for it
        {"actors": [A(None, [S([1000], "ret", ["ret"])])],
         "ops": [[0, "start", 0], [10, "stop", 0], [10, "yield", 1], [10, "add", 0, {"awaits": [700], "end": "exc", "on_cancel": []}]], "settle_ms": 0},
        # run() over actors with the SAME explicit name: the earlier one outlives the later one, and the reverse
        {"actors": [{**A(None, [S([3000], "ret")]), "name": "dup"}, {**A(None, [S([100], "ret")]), "name": "dup"}],
         "ops": [[0, "run", [0, 1]]], "settle_ms": 6000},
        {"actors": [{**A(None, [S([100], "ret")]), "name": "dup"}, {**A(None, [S([3000], "exc")]), "name": "dup"}],
         "ops": [[0, "run", [0, 1]]], "settle_ms": 6000},
        {"actors": [{**A(0, [S([3000], "exc")]), "name": "dup", "cls": "A"}, {**A(None, [S([100], "ret")]), "name": "dup", "cls": "B"},
                    {**A(None, [S([1500], "base")]), "name": "default", "cls": "A"}],
         "ops": [[0, "run", [0, 1, 2]]], "settle_ms": 6000},
        {"actors": [{**A(None, [S([2000], "ret")]), "name": "default"}, {**A(None, [S([100], "ret")]), "name": "default"},
                    {**A(None, [S([900], "ret")]), "name": "dup"}, ],
         "ops": [[0, "start", 0], [5, "run", [0, 1, 2]], [50, "run", [0, 2]]], "settle_ms": 6000},
        # cancel_and_await on a task that is already being cancelled and whose cleanup takes time and fails
        {"actors": [A(None, [S([5000], "ret")])],
         "ops": [[0, "start", 0], [10, "add", 0, {"awaits": [1000], "end": "ret", "on_cancel": ["slowexc"]}],
                 [20, "cancel1", 0, 1], [20, "caw", 0, 1]], "settle_ms": 500},
        {"actors": [A(None, [S([5000], "ret")])],
         "ops": [[0, "start", 0], [10, "add", 0, {"awaits": [1000], "end": "ret", "on_cancel": ["slowbase"]}],
                 [20, "caw", 0, 1], [20, "caw", 0, 1], [200, "caw", 0, 1]], "settle_ms": 500},
        {"actors": [A(0, [S([5000], "ret", ["slowexc"])])],
         "ops": [[0, "start", 0], [20, "cancel", 0], [30, "caw", 0, 0], [30, "stop", 0]], "settle_ms": 500},
        # async with: normal exit, body raises, body cancelled, with a task that awaits (and fails) in its cleanup
        {"actors": [A(None, [S([5000], "ret", ["slowprop"])])], "ops": [[0, "with", 0, {"dur": 100, "end": "ok"}]], "settle_ms": 500},
        {"actors": [A(0, [S([5000], "ret", ["slowexc"])])], "ops": [[0, "with", 0, {"dur": 100, "end": "raise"}]], "settle_ms": 500},
        {"actors": [A(None, [S([5000], "ret", ["slowbase"])])],
         "ops": [[0, "with", 0, {"dur": 100, "end": "cancel"}], [50, "add", 0, {"awaits": [1000], "end": "ret", "on_cancel": ["slowexc"]}]], "settle_ms": 500},
        # RESTART_DELAY overridden in a subclass / on the instance: stop 10 s into a 30 s delay; short delay; two actors
        {"actors": [{**A(None, [S([100], "exc"), S([100], "ret")]), "delay": {"how": "subclass", "ms": 30000}}],
         "ops": [[0, "start", 0], [10100, "stop", 0]], "settle_ms": 1000},
        {"actors": [{**A(None, [S([100], "exc"), S([100], "ret")]), "delay": {"how": "instance", "ms": 30000}}],
         "ops": [[0, "start", 0], [10100, "cancel", 0]], "settle_ms": 31000},
        {"actors": [{**A(3, [S([100], "exc"), S([100], "exc"), S([100], "ret")]), "delay": {"how": "instance", "ms": 250}}],
         "ops": [[0, "start", 0]], "settle_ms": 3000},
        {"actors": [{**A(1, [S([100], "exc"), S([100], "ret")]), "delay": {"how": "subclass", "ms": 7000}},
                    {**A(1, [S([100], "exc"), S([100], "ret")]), "delay": {"how": "base"}}],
         "ops": [[0, "run", [0, 1]], [5000, "wait", 0]], "settle_ms": 9000},
        # the awaiter of stop() / of the `async with` exit is cancelled or timed out while the tasks are still cleaning up
        {"actors": [A(None, [S([5000], "ret", ["slowprop"])])], "ops": [[0, "start", 0], [10, "stop", 0, {"cancel_after": 50}]], "settle_ms": 500},
        {"actors": [A(0, [S([5000], "ret", ["slowexc"])])], "ops": [[0, "start", 0], [10, "stop", 0, {"timeout": 50}]], "settle_ms": 500},
        {"actors": [A(None, [S([5000], "ret", ["slowprop"])])], "ops": [[0, "start", 0], [10, "wait", 0, {"cancel_after": 50}], [200, "stop", 0, {"cancel_after": 100}]], "settle_ms": 500},
        {"actors": [A(None, [S([5000], "ret", ["slowbase"])])], "ops": [[0, "with", 0, {"dur": 100, "end": "ok", "exit_cancel_after": 50}]], "settle_ms": 500},
        {"actors": [A(None, [S([5000], "ret", ["slowprop"])])], "ops": [[0, "with", 0, {"dur": 100, "end": "raise", "exit_cancel_after": 0}]], "settle_ms": 500},
        # the restart limit is lowered below the restarts already consumed / negative limit / raised / removed
        {"actors": [{**A(5, [S([10], "exc")] * 8), "delay": {"how": "instance", "ms": 250}}],
         "ops": [[0, "start", 0], [800, "setlimit", 0, 1]], "settle_ms": 5000},
        {"actors": [{**A(None, [S([10], "exc")] * 8), "delay": {"how": "instance", "ms": 250}}],
         "ops": [[0, "start", 0], [1000, "setlimit", 0, 0]], "settle_ms": 5000},
        {"actors": [{**A(-1, [S([10], "exc"), S([10], "ret")]), "delay": {"how": "instance", "ms": 250}}],
         "ops": [[0, "start", 0]], "settle_ms": 2000},
        {"actors": [{**A(1, [S([10], "exc")] * 5 + [S([10], "ret")]), "delay": {"how": "instance", "ms": 250}}],
         "ops": [[0, "start", 0], [100, "setlimit", 0, 3], [600, "setlimit", 0, None]], "settle_ms": 5000},
        # run() over the empty group, over one actor, over actors that already finished
        {"actors": [A(None, [S([100], "ret")])], "ops": [[0, "run", []]], "settle_ms": 100},
        {"actors": [A(None, [S([100], "ret")])], "ops": [[0, "start", 0], [50, "run", []], [500, "run", [0]], [900, "run", []]], "settle_ms": 500},
        {"actors": [A(0, [S([100], "exc")]), A(None, [S([50], "ret")])], "ops": [[0, "start", 0], [0, "start", 1], [500, "run", [0, 1]]], "settle_ms": 500},
        # extra tasks registered through the PUBLIC tasks property: before start, after start, from inside _run
        {"actors": [A(None, [S([5000], "ret")])],
         "ops": [[0, "add", 0, {"via": "tasks", "awaits": [1000], "end": "ret", "on_cancel": ["slowexc"]}], [10, "start", 0], [50, "stop", 0]], "settle_ms": 500},
        {"actors": [A(None, [S([5000], "ret")])],
         "ops": [[0, "start", 0], [10, "add", 0, {"via": "tasks", "awaits": [1000], "end": "exc", "on_cancel": ["slowbase"]}], [50, "stop", 0]], "settle_ms": 500},
        {"actors": [A(None, [{**S([5000], "ret"), "spawn": {"via": "tasks", "awaits": [3000], "end": "ret", "on_cancel": ["slowexc"]}}])],
         "ops": [[0, "start", 0], [50, "stop", 0]], "settle_ms": 500},
        {"actors": [A(None, [{**S([100], "ret"), "spawn": {"via": "tasks", "awaits": [700], "end": "exc", "on_cancel": []}}])],
         "ops": [[0, "start", 0], [10, "wait", 0]], "settle_ms": 1500},
        # restart delay exactly 0 and runs that raise before any suspension point; cancel/stop requested from a callback
        # scheduled right after the k-th failure; limits None / finite
        {"actors": [{**A(None, [S([], "exc")] * 6), "delay": {"how": "subclass", "ms": 0}}], "ops": [[0, "start", 0]], "settle_ms": 100},
        {"actors": [{**A(30, [S([], "exc")] * 3 + [{**S([], "exc"), "after": "stop"}] + [S([], "exc")] * 4), "delay": {"how": "instance", "ms": 0}}],
         "ops": [[0, "start", 0]], "settle_ms": 100},
        {"actors": [{**A(None, [{**S([], "exc"), "after": "cancel"}] + [S([], "exc")] * 5), "delay": {"how": "subclass", "ms": 0}}],
         "ops": [[0, "start", 0]], "settle_ms": 100},
        {"actors": [{**A(3, [S([], "exc")] * 8), "delay": {"how": "instance", "ms": 0}}],
         "ops": [[0, "start", 0], [0, "stop", 0]], "settle_ms": 100},
        {"actors": [{**A(None, [S([0], "exc"), {**S([], "exc"), "after": "stop"}, S([], "exc"), S([], "ret")]), "delay": {"how": "base"}}],
         "ops": [[0, "start", 0]], "settle_ms": 5000},
        # restart delays of a day and more: the `days` part of the timedelta counts
        {"actors": [{**A(1, [S([100], "exc"), S([100], "ret")]), "delay": {"how": "subclass", "ms": 86_400_000}}],
         "ops": [[0, "start", 0]], "settle_ms": 86_500_000},
        {"actors": [{**A(2, [S([100], "exc"), S([100], "exc"), S([100], "ret")]), "delay": {"how": "instance", "ms": 129_600_000}}],
         "ops": [[0, "start", 0], [43_200_000, "start", 0]], "settle_ms": 260_000_000},
        {"actors": [{**A(None, [S([100], "exc"), S([100], "ret")]), "delay": {"how": "subclass", "ms": 604_800_000}}],
         "ops": [[0, "start", 0], [3_600_000, "stop", 0]], "settle_ms": 1000},
        {"actors": [{**A(None, [S([100], "exc"), S([100], "ret")]), "delay": {"how": "instance", "ms": 86_400_500}}],
         "ops": [[0, "start", 0], [86_400_400, "wait", 0, {"timeout": 1000}]], "settle_ms": 1000},
        # default restart limit (unbounded)
        {"actors": [A("default", [S([], "exc")] * 6 + [S([], "ret")])], "ops": [[0, "start", 0]], "settle_ms": 15000},
    ]


def shrink_case(case):
    ops = case["ops"]
    for i in range(len(ops)):
        yield {**case, "ops": ops[:i] + ops[i + 1:]}
    if len(case["actors"]) > 1 and all(o[1] == "yield" or (o[1] != "run" and o[2] == 0) for o in ops):
        yield {**case, "actors": case["actors"][:1]}
    for ai, a in enumerate(case["actors"]):
        sc = a["script"]
        for i in range(len(sc)):
            if i == len(sc) - 1:
                yield {**case, "actors": case["actors"][:ai] + [{**a, "script": sc[:i]}] + case["actors"][ai + 1:]}
            sp = sc[i]
            if sp["on_cancel"]:
                yield {**case, "actors": case["actors"][:ai] + [{**a, "script": sc[:i] + [{**sp, "on_cancel": sp["on_cancel"][:-1]}] + sc[i + 1:]}] + case["actors"][ai + 1:]}
            if len(sp["awaits"]) > 1:
                yield {**case, "actors": case["actors"][:ai] + [{**a, "script": sc[:i] + [{**sp, "awaits": sp["awaits"][:-1]}] + sc[i + 1:]}] + case["actors"][ai + 1:]}
    if case.get("settle_ms"):
        yield {**case, "settle_ms": 0}


class ActorStream(Stream):
    name = "lifecycle"
    coq_header = HEADER
    n_quick = 1600
    n_thorough = 10000
    n_run_quick = 700
    n_run_thorough = 4000
    exhaustive_quick = 3
    exhaustive_thorough = 5

    def gen(self, rng, tier):
        yield from boundary_cases()
        yield from exhaustive_cases(self.exhaustive_quick if tier == "quick" else self.exhaustive_thorough)
        for _ in range(self.n_quick if tier == "quick" else self.n_thorough):
            yield gen_case(rng)
        for _ in range(self.n_run_quick if tier == "quick" else self.n_run_thorough):
            yield gen_run_case(rng)

    def run_impl(self, case):
        return run_case(case)

    def to_coq(self, case, obs):
        return case_term(case, obs)

    def show_term(self, case, obs):
        return f"grun_stuck {c_config(case, obs)} g_init {c_trace(obs['log'])} 0%nat"

    def shrink(self, case):
        return shrink_case(case)

    def key(self, case, obs):
        kinds = [e[1:] for e in obs["log"] if e[1] not in ("runbegin",)]
        if len(kinds) < 3:
            return None
        return json.dumps([case["actors"], kinds], sort_keys=True, default=str)

    def labels(self, case, obs):
        log = obs["log"]
        out = [f"actors={len(case['actors'])}"]
        names = [a.get("name", f"probe{i}") for i, a in enumerate(case["actors"])]
        runs = [e for e in log if e[1] == "runbegin"]
        for rb in runs:
            sel_names = [names[i] for i in rb[3]]
            expl = [n for n in sel_names if n != "default"]
            if len(expl) != len(set(expl)):
                same_cls = len({case["actors"][i].get("cls", "A") for i in rb[3]}) == 1
                out.append("run_duplicate_names_" + ("same_class" if same_cls else "different_classes"))
            elif "default" in sel_names:
                out.append("run_default_names")
            else:
                out.append("run_distinct_names")
            out.append(f"run_over={len(rb[3])}")
        for a in case["actors"]:
            out.append(f"limit={a['limit']}")
        nexc_seen = {}
        for e in log:
            if e[1] == "exit" and e[3] == "exc":
                nexc_seen[e[2]] = nexc_seen.get(e[2], 0) + 1
            if e[1] == "setlimit":
                consumed = max([0] + list(nexc_seen.values()))
                out.append("limit_changed_to_" + ("None" if e[3] is None else "negative" if e[3] < 0 else
                                                   "below_consumed" if e[3] < consumed else "at_or_above_consumed"))
            d = a.get("delay")
            out.append("delay=" + ("base" if not d or d["how"] == "base" else f"{d['how']}:{d['ms']}ms"))
        kinds = [e[1] for e in log]
        if any(sp.get("after") for a in case["actors"] for sp in a["script"]):
            out.append("cancel_or_stop_requested_by_callback_after_a_failure")
        if any(not sp["awaits"] and sp["end"] == "exc" for a in case["actors"] for sp in a["script"]) and \
           any((a.get("delay") or {}).get("ms") == 0 for a in case["actors"]):
            out.append("zero_delay_and_run_raising_without_suspension")
        for i_, e in enumerate(log):
            if e[1] == "add" and i_ > 0 and log[i_ - 1][1] == "enter":
                out.append("task_registered_from_inside_run")
        for e in log:
            if e[1] == "cawcall":
                out.append("caw_on_" + ("done_task" if e[5] else ("task_already_being_cancelled" if e[6] else "running_task")))
            if e[1] == "withdone":
                out.append("with_body_" + e[7])
                if e[8]:
                    out.append("with_exit_cancelled")
            if e[1] == "add":
                out.append("task_registered_via_" + (e[4] if len(e) > 4 else "tasks"))
            if e[1] == "runbegin":
                out.append("run_over_empty_group" if not e[3] else "run_over_nonempty_group")
            if e[1] == "abort":
                out.append("awaiter_cancelled_while_tasks_" + ("done" if all(e[3]) else "still_running"))
            if e[1] == "opdone" and e[7]:
                out.append("call_under_" + ("timeout" if "timeout" in e[7] else "awaiter_cancel"))
        if any("slow" in r for a in case["actors"] for sp in a["script"] for r in sp.get("on_cancel", [])) or \
           any(o[1] == "add" and any("slow" in r for r in o[3].get("on_cancel", [])) for o in case["ops"]):
            out.append("has_slow_cleanup")
        for k in ("stopcall", "waitcall", "cancel", "add", "runcall", "delaycancel", "deliver", "cancel1"):
            if k in kinds:
                out.append("has_" + k)
        state = {}   # tid -> "delay"/"run"/"end"
        for e in log:
            k = e[1]
            if k == "start" and e[4]:
                state[e[3]] = "delay0"
            elif k == "start":
                out.append("start_ignored_while_running")
            elif k == "enter":
                state[e[2]] = "run"
                if any(x[1] == "exit" and x[2] == e[2] for x in log[:log.index(e)]):
                    out.append("restart")
            elif k == "exit":
                state[e[2]] = "delay" if e[3] == "exc" else "end"
                out.append("run_outcome=" + e[3])
            elif k == "delaycancel":
                out.append("cancelled_in_" + ("first_step" if state.get(e[2]) == "delay0" else "restart_delay"))
                state[e[2]] = "end"
            elif k in ("stopcall", "cancel", "waitcall"):
                a = e[2]
                sts = sorted({v for t, v in state.items()})
                for v in sts:
                    out.append(f"{k}_while_some_loop_in_{v}")
            elif k == "ret" and e[3] != "ok":
                out.append("call_raised_group")
            elif k == "wake":
                pass
        exits = {}
        for e in log:
            if e[1] == "deliver":
                exits[e[2]] = True
            if e[1] == "exit" and exits.pop(e[2], False) and e[3] == "exc":
                out.append("exception_while_being_cancelled")
        if obs["hung"]:
            out.append("hung")
        return sorted(set(out))


# ============================================================================= SDK services
# The SDK's own BackgroundService / Actor subclasses that can be built without a microgrid, under the
# generic stop oracle: every asyncio task the service spawned (running SDK code) between start() and the
# end of stop() is done when stop() returns, and is_running is False.
SERVICES = ["mw", "mw_rs", "resampling_actor", "resampling_actor_sub", "pda", "pv_tracker", "ev_tracker", "data_sourcing"]


def run_service_case(case):
    import warnings
    from datetime import datetime, timedelta, timezone
    from types import SimpleNamespace
    import async_solipsism
    from frequenz.channels import Broadcast
    warnings.simplefilter("ignore")

    loop = async_solipsism.EventLoop()
    kind = case["service"]
    saved = {}

    def stub_cm(**kw):
        from frequenz.sdk.microgrid import connection_manager as cm
        saved.setdefault("cm", getattr(cm, "_CONNECTION_MANAGER", None))
        cm._CONNECTION_MANAGER = SimpleNamespace(**kw)

    def build():
        from frequenz.sdk.timeseries import ResamplerConfig
        feed = None
        if kind in ("mw", "mw_rs"):
            from frequenz.sdk.timeseries import MovingWindow
            ch = Broadcast(name="samples")
            cfg = ResamplerConfig(resampling_period=timedelta(seconds=1)) if kind == "mw_rs" else None
            svc = MovingWindow(size=timedelta(seconds=10), resampled_data_recv=ch.new_receiver(),
                               input_sampling_period=timedelta(seconds=1), resampler_config=cfg)
            feed = ch.new_sender()
        elif kind in ("resampling_actor", "resampling_actor_sub"):
            from frequenz.sdk._internal._channels import ChannelRegistry
            from frequenz.sdk.microgrid._resampling import ComponentMetricsResamplingActor
            rr = Broadcast(name="resampling requests")
            svc = ComponentMetricsResamplingActor(
                channel_registry=ChannelRegistry(name="verif"), data_sourcing_request_sender=Broadcast(name="ds").new_sender(),
                resampling_request_receiver=rr.new_receiver(), config=ResamplerConfig(resampling_period=timedelta(seconds=1)))
            feed = rr.new_sender()
        elif kind == "pda":
            from frequenz.client.microgrid import ComponentCategory
            from frequenz.sdk.microgrid._power_distributing import power_distributing as pd

            class QuietManager:
                def __init__(self, *a):
                    pass

                async def start(self):
                    pass

                async def stop(self):
                    pass
            old = pd.BatteryManager
            pd.BatteryManager = QuietManager
            try:
                svc = pd.PowerDistributingActor(
                    Broadcast(name="rq").new_receiver(), Broadcast(name="rs").new_sender(), Broadcast(name="st").new_sender(),
                    api_power_request_timeout=timedelta(seconds=5), component_category=ComponentCategory.BATTERY)
            finally:
                pd.BatteryManager = old
        elif kind in ("pv_tracker", "ev_tracker"):
            stub_cm(component_graph=None, api_client=SimpleNamespace())
            if kind == "pv_tracker":
                from frequenz.sdk.timeseries.pv_pool._system_bounds_tracker import PVSystemBoundsTracker as T
            else:
                from frequenz.sdk.timeseries.ev_charger_pool._system_bounds_tracker import EVCSystemBoundsTracker as T
            svc = T({1, 2}, Broadcast(name="status").new_receiver(), Broadcast(name="bounds").new_sender())
        elif kind == "data_sourcing":
            stub_cm(component_graph=SimpleNamespace(components=lambda **kw: set()), api_client=SimpleNamespace())
            from frequenz.sdk._internal._channels import ChannelRegistry
            from frequenz.sdk.microgrid._data_sourcing import DataSourcingActor
            svc = DataSourcingActor(Broadcast(name="requests").new_receiver(), ChannelRegistry(name="verif"))
        else:
            raise ValueError(kind)
        return svc, feed

    class BodyError(Exception):
        pass

    def describe(t):
        coro = t.get_coro()
        code = getattr(coro, "cr_code", None) or getattr(coro, "gi_code", None)
        fn = getattr(code, "co_filename", "") or ""
        return getattr(coro, "__qualname__", type(coro).__name__), "/frequenz/sdk/" in fn

    async def main():
        me = asyncio.current_task()
        before = asyncio.all_tasks()
        svc, feed = build()
        seen: set = set()

        def look():
            seen.update(asyncio.all_tasks() - before - {me})

        async def use(ms):
            """let the service work: feed samples / subscription requests, let virtual time pass"""
            from frequenz.quantities import Quantity
            from frequenz.sdk.timeseries import Sample
            for i in range(case.get("feed", 0)):
                if kind in ("mw", "mw_rs") and feed is not None:
                    await feed.send(Sample(datetime(2024, 1, 1, tzinfo=timezone.utc) + timedelta(seconds=i), Quantity(float(i))))
                elif kind == "resampling_actor_sub" and feed is not None:
                    from frequenz.client.microgrid import ComponentMetricId
                    from frequenz.sdk.microgrid._data_sourcing import ComponentMetricRequest
                    await feed.send(ComponentMetricRequest("verif", 10 + i, ComponentMetricId.ACTIVE_POWER, None))
                await asyncio.sleep(0)
            look()
            if ms:
                await asyncio.sleep(ms / 1000.0)
            look()

        raised = None
        rounds = []
        for rnd in range(2 if case.get("restart") else 1):
            exit_ = case["exit"]
            try:
                if exit_ in ("with_ok", "with_raise"):
                    try:
                        async with svc:
                            for _ in range(case.get("starts", 1) - 1):
                                svc.start()
                            look()
                            await use(case.get("run_ms", 0))
                            if exit_ == "with_raise":
                                raise BodyError()
                    except BodyError:
                        pass
                else:
                    for _ in range(case.get("starts", 1)):
                        svc.start()
                    look()
                    await use(case.get("run_ms", 0))
                    if exit_ == "cancel_wait":
                        svc.cancel()
                        try:
                            await svc.wait()
                        except BaseExceptionGroup as grp:
                            _, rest = grp.split(asyncio.CancelledError)
                            if rest is not None:
                                raise rest
                    else:
                        await svc.stop()
                        if exit_ == "stop_stop":
                            await svc.stop()
            except BaseExceptionGroup as grp:
                raised = sorted(type(e).__name__ for e in grp.exceptions)
            look()
            tasks = sorted(seen, key=lambda t: t.get_name())
            rounds.append({"is_running": svc.is_running,
                           "tasks": [[describe(t)[0], describe(t)[1], t.done(), t in svc._tasks] for t in tasks]})
        for t in asyncio.all_tasks() - before - {me}:
            t.cancel()
        await asyncio.sleep(0)
        await asyncio.sleep(0)
        return {"rounds": rounds, "raised": raised}

    asyncio.set_event_loop(loop)
    try:
        return loop.run_until_complete(main())
    finally:
        if "cm" in saved:
            from frequenz.sdk.microgrid import connection_manager as cm
            cm._CONNECTION_MANAGER = saved["cm"]
        asyncio.set_event_loop(None)
        loop.close()


def gen_service_case(rng):
    return {"service": rng.choice(SERVICES), "starts": rng.choice([1, 1, 1, 2]), "run_ms": rng.choice([0, 0, 500, 2500]),
            "feed": rng.choice([0, 1, 3]), "exit": rng.choice(["stop", "stop", "with_ok", "with_raise", "stop_stop"]),
            "restart": rng.random() < 0.25}


def service_boundary_cases():
    out = []
    for kind in SERVICES:
        for exit_ in ("stop", "with_raise", "with_ok"):
            out.append({"service": kind, "starts": 1, "run_ms": 2500, "feed": 2, "exit": exit_, "restart": False})
        out.append({"service": kind, "starts": 2, "run_ms": 0, "feed": 1, "exit": "stop", "restart": True})
    return out


class ServiceStream(Stream):
    """SDK services under the generic stop oracle (no Coq twin: the model of stop() is exercised by the lifecycle stream)."""
    name = "services"

    def gen(self, rng, tier):
        yield from service_boundary_cases()
        for _ in range(120 if tier == "quick" else 1500):
            yield gen_service_case(rng)

    def run_impl(self, case):
        return run_service_case(case)

    def to_coq(self, case, obs):
        return None

    def shrink(self, case):
        if case.get("restart"):
            yield {**case, "restart": False}
        if case.get("starts", 1) > 1:
            yield {**case, "starts": 1}
        if case.get("feed"):
            yield {**case, "feed": case["feed"] - 1}
        if case.get("run_ms"):
            yield {**case, "run_ms": 0}
        if case["exit"] != "stop":
            yield {**case, "exit": "stop"}

    def key(self, case, obs):
        return json.dumps({k: v for k, v in case.items() if k != "debug_log"}, sort_keys=True)

    def labels(self, case, obs):
        out = [f"service={case['service']}", f"exit={case['exit']}", f"starts={case.get('starts', 1)}"]
        if case.get("restart"):
            out.append("stopped_and_started_again")
        n = sum(1 for t in obs["rounds"][-1]["tasks"] if t[1])
        out.append(f"sdk_tasks_spawned={min(n, 6)}")
        return out
