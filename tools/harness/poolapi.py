"""C04 (and C11), stream `pool_api`: the documented contract of BatteryPool.propose_power /
propose_charge / propose_discharge / power_status, end to end:

  real BatteryPool instances (several priorities, regular and operating-point) sharing one real
  BatteryPoolReferenceStore  ->  real PowerManagingActor (only the pool that feeds its bounds
  tracker is a channel)  ->  Requests on the power-distributing channel and _Reports on each
  pool's power_status channel.

What the pools are told and what is requested must be what the PowerManager model computes from
the proposals the pool API is documented to make (priority and operating-point flag of the pool,
preferred power with the PSC sign, bounds)."""
from __future__ import annotations

import asyncio
import json
from datetime import datetime, timedelta, timezone
from types import SimpleNamespace as NS

import async_solipsism

from lib.core import Stream, cZ, copt
from harness import matryoshka as M
from harness import powermanager as P1
from harness import powermanager2 as P2

BATS = [11, 12]
QUIESCE = 0.001
REJECT = ("ValueError", "PVPoolError", "EVChargerPoolError")   # documented argument rejections


def pool_ids(case):
    return sorted(BATS) if case.get("kind", "battery") == "battery" else [21, 22]


async def _drive(case):
    from frequenz.channels import Broadcast
    from frequenz.client.microgrid import Component, ComponentCategory, Connection, InverterType
    from frequenz.quantities import Power
    from frequenz.sdk._internal._channels import ChannelRegistry
    from frequenz.sdk.microgrid import connection_manager
    from frequenz.sdk.microgrid.component_graph import _MicrogridComponentGraph
    from frequenz.sdk.timeseries._base_types import Bounds, SystemBounds
    from frequenz.sdk.timeseries.battery_pool import BatteryPool
    from frequenz.sdk.timeseries.battery_pool._battery_pool_reference_store import BatteryPoolReferenceStore

    M.set_scale(case)
    W = lambda x: Power.from_watts(x * M.SCALE)
    loop = asyncio.get_running_loop()
    base_ts = datetime.now(tz=timezone.utc)
    ids = frozenset(BATS) if case.get("kind", "battery") == "battery" else frozenset({21, 22})
    comps = {Component(1, ComponentCategory.GRID), Component(2, ComponentCategory.METER)}
    conns = {Connection(1, 2)}
    for b in BATS:
        comps |= {Component(1000 + b, ComponentCategory.INVERTER, InverterType.BATTERY), Component(b, ComponentCategory.BATTERY)}
        conns |= {Connection(2, 1000 + b), Connection(1000 + b, b)}
    comps |= {Component(21, ComponentCategory.INVERTER, InverterType.SOLAR), Component(22, ComponentCategory.INVERTER, InverterType.SOLAR),
              Component(31, ComponentCategory.EV_CHARGER)}
    conns |= {Connection(2, 21), Connection(2, 22), Connection(2, 31)}
    fake = NS(component_graph=_MicrogridComponentGraph(comps, conns), api_client=NS())
    old = connection_manager._CONNECTION_MANAGER
    connection_manager._CONNECTION_MANAGER = fake
    try:
        boundsch, status, unused = (Broadcast(name=n) for n in "btu")
        registry = ChannelRegistry(name="verif")
        kind = case.get("kind", "battery")
        # Production wiring: the real PowerWrapper creates the channels and the manager's receivers (with the limits
        # it chooses) and the real PowerManagingActor, incl. its own _add_system_bounds_tracker; the data pipeline the
        # tracker asks for a pool is replaced by a factory handing out the bounds channel of this run.
        from frequenz.sdk.microgrid._power_wrapper import PowerWrapper
        from frequenz.sdk.microgrid._power_managing import _power_managing_actor as PMA
        pool_calls = []

        def factory(k):
            def new_pool(*, priority, component_ids, **_kw):
                pool_calls.append([k, sorted(component_ids)])
                return NS(_system_power_bounds=boundsch)
            return new_pool
        PMA._data_pipeline = NS(new_battery_pool=factory("battery"), new_ev_charger_pool=factory("ev"), new_pv_pool=factory("pv"))
        cat = {"battery": (ComponentCategory.BATTERY, None), "ev": (ComponentCategory.EV_CHARGER, None),
               "pv": (ComponentCategory.INVERTER, InverterType.SOLAR)}[kind]
        wrapper = PowerWrapper(registry, api_power_request_timeout=timedelta(seconds=5), component_category=cat[0],
                               component_type=cat[1])
        proposals, subs = wrapper.proposal_channel, wrapper.bounds_subscription_channel
        reqs, results = wrapper._power_distribution_requests_channel, wrapper._power_distribution_results_channel
        wrapper._start_power_managing_actor()
        actor = wrapper._power_managing_actor
        assert actor is not None, "PowerWrapper did not start a power manager for a graph that has such components"
        if kind == "battery":
            store = BatteryPoolReferenceStore(
                channel_registry=registry, resampler_subscription_sender=unused.new_sender(),
                batteries_status_receiver=status.new_receiver(limit=1), power_manager_requests_sender=proposals.new_sender(),
                power_manager_bounds_subscription_sender=subs.new_sender(), power_distribution_results_fetcher=results,
                min_update_interval=timedelta(seconds=0.2), batteries_id=set(BATS))
            pools = [BatteryPool(pool_ref_store=store, name=p["name"], priority=p["prio"], set_operating_point=p["op"])
                     for p in case["pools"]]
        else:
            # PVPool / EVChargerPool: the real pool classes on a reference store reduced to what
            # propose_power / power_status use (their own bounds trackers need a live API client; the
            # manager's bounds come from the channel as for batteries)
            from frequenz.sdk.timeseries.pv_pool import PVPool
            from frequenz.sdk.timeseries.ev_charger_pool import EVChargerPool

            async def _nostop():
                return None
            store = NS(channel_registry=registry, power_manager_requests_sender=proposals.new_sender(),
                       power_manager_bounds_subs_sender=subs.new_sender(), power_distribution_results_fetcher=results,
                       component_ids=ids, power_bounds_subs={}, stop=_nostop)
            cls = PVPool if kind == "pv" else EVChargerPool
            pools = [cls(pool_ref_store=store, name=p["name"], priority=p["prio"], set_operating_point=p["op"])
                     for p in case["pools"]]
        req_buf: list = []
        rep_buf = [[] for _ in pools]
        tasks = []

        async def pump(rx, buf):
            async for m in rx:
                buf.append(m)
        tasks.append(asyncio.create_task(pump(reqs.new_receiver(limit=5000), req_buf)))
        ticks = []
        orig_drop = actor._set_power_group.drop_old_proposals

        def rec_drop(now):
            ticks.append(now)
            return orig_drop(now)
        actor._set_power_group.drop_old_proposals = rec_drop
        subscribed = [False] * len(pools)
        bsend = boundsch.new_sender()
        o = lambda x: None if x is None else W(x)
        log = []
        log_ticks = []      # [index of the step during which the timer fired, its `now`]
        for e in case["script"]:
            err = None
            t_call = P1._units(loop.time())
            try:
                if e["t"] == "status":
                    k = e["pool"]
                    if not subscribed[k]:
                        subscribed[k] = True
                        tasks.append(asyncio.create_task(pump(pools[k].power_status.new_receiver(limit=5000), rep_buf[k])))
                elif e["t"] == "power":
                    if "lo" in e or "hi" in e:
                        await pools[e["pool"]].propose_power(o(e["p"]), bounds=Bounds(o(e.get("lo")), o(e.get("hi"))))
                    else:
                        await pools[e["pool"]].propose_power(o(e["p"]))
                elif e["t"] == "charge":
                    await pools[e["pool"]].propose_charge(o(e["p"]))
                elif e["t"] == "discharge":
                    await pools[e["pool"]].propose_discharge(o(e["p"]))
                elif e["t"] == "bounds":
                    sb = M.mk_sys(e["sys"])
                    await bsend.send(SystemBounds(timestamp=base_ts, inclusion_bounds=sb.inclusion_bounds,
                                                  exclusion_bounds=sb.exclusion_bounds))
                elif e["t"] == "sleep":
                    await asyncio.sleep(e["dt"] / 8.0)
                elif e["t"] == "burst":
                    # several pools propose in the same event-loop iteration, before the manager runs
                    await asyncio.gather(*[pools[c["pool"]].propose_power(o(c["p"]), bounds=Bounds(o(c.get("lo")), o(c.get("hi"))))
                                           for c in e["calls"]])
            except ValueError as exc:
                err = "ValueError"
            except Exception as exc:  # PVPoolError / EVChargerPoolError: documented rejections
                if type(exc).__name__ not in ("PVPoolError", "EVChargerPoolError"):
                    raise
                err = type(exc).__name__
            await asyncio.sleep(QUIESCE)
            for now in ticks:
                log_ticks.append([len(log), P1._units(now)])
            ticks.clear()
            rq = list(req_buf)
            req_buf.clear()
            reps = []
            for k in range(len(pools)):
                got = list(rep_buf[k])
                rep_buf[k].clear()
                if got:
                    r = got[-1]
                    b = None if r.bounds is None else [M.watts(r.bounds.lower), M.watts(r.bounds.upper)]
                    reps.append([k, len(got), M.watts(r.target_power), b])
            log.append({"time": t_call, "error": err, "n_requests": len(rq),
                        "request": M.watts(rq[-1].power) if rq else None,
                        "request_ids": sorted(rq[-1].component_ids) if rq else None, "reports": reps})
        srcs = [p._source_id for p in pools]
        for t in tasks:
            t.cancel()
        await asyncio.gather(*tasks, return_exceptions=True)
        await wrapper.stop()
        await store.stop()
        return {"log": log, "sources": srcs, "ticks": log_ticks, "pool_calls": pool_calls}
    finally:
        connection_manager._CONNECTION_MANAGER = old
        PMA._data_pipeline = _REAL_PIPELINE[0]


_REAL_PIPELINE = []


def run_pools(case):
    from frequenz.sdk.microgrid._power_managing import _power_managing_actor as PMA
    if not _REAL_PIPELINE:
        _REAL_PIPELINE.append(PMA._data_pipeline)
    loop = async_solipsism.EventLoop()
    try:
        return loop.run_until_complete(_drive(case))
    finally:
        import gc
        gc.collect()
        loop.close()


# ----------------------------------------------------------------------------- expectations
def expected_proposal(case, e):
    """The proposal the documentation of the pool API says this call makes, or None (no proposal)."""
    pool = case["pools"][e["pool"]]
    kind = case.get("kind", "battery")
    if e["t"] == "power" and e["p"] is not None:
        if kind == "pv" and e["p"] > 0:
            return "PVPoolError"
        if kind == "ev" and e["p"] < 0:
            return "EVChargerPoolError"
    if e["t"] == "power":
        return {"op": pool["op"], "prio": pool["prio"], "pref": e["p"], "lo": e.get("lo"), "hi": e.get("hi")}
    if e["t"] == "charge":
        if e["p"] is not None and e["p"] < 0:
            return "ValueError"
        return {"op": pool["op"], "prio": pool["prio"], "pref": e["p"], "lo": None, "hi": None}
    if e["t"] == "discharge":
        if e["p"] is not None and e["p"] < 0:
            return "ValueError"
        return {"op": pool["op"], "prio": pool["prio"], "pref": None if e["p"] is None else -e["p"], "lo": None, "hi": None}
    return None


HEADER = P2.HEADER


def model_terms(case, obs):
    srcs = obs["sources"]
    rank = {s: i for i, s in enumerate(sorted(srcs))}
    evs, exp = [], []
    if any(e["t"] == "burst" for e in case["script"]):
        return None, None      # several proposals within one loop iteration: judged by the oracle only
    subscribed = []
    ticks_at = {}
    for i, now in obs.get("ticks", []):
        ticks_at.setdefault(i, []).append(now)
    times = [x["time"] for e, x in zip(case["script"], obs["log"]) if e["t"] in ("power", "charge", "discharge")]
    for _, now in obs.get("ticks", []):
        if any(abs((now - t) - 60 * P1.UNIT) <= 2 for t in times):
            return None, None      # float subtraction at the exact expiry boundary is not modelled
    for i, (e, x) in enumerate(zip(case["script"], obs["log"])):
        if i in ticks_at:
            # the timer fired while this step slept (consecutive sweeps coalesce: C11_tick_coalescing_sound)
            evs.append(f"(PE (PTick {cZ(ticks_at[i][-1])}))")
            exp.append("(None, None)")
        if e["t"] == "sleep":
            continue
        if e["t"] == "status":
            k = e["pool"]
            pool = case["pools"][k]
            if k not in subscribed:
                subscribed.append(k)
                evs.append(f"(PSub {'true' if pool['op'] else 'false'} {cZ(pool['prio'])})")
                exp.append("(None, None)")
            continue
        if e["t"] == "bounds":
            evs.append(f"(PE (PBounds {M.c_sys(e['sys'])}))")
        else:
            p = expected_proposal(case, e)
            if p in REJECT:
                continue
            evs.append(f"(PE (PProp {'true' if p['op'] else 'false'} (mkP {cZ(p['prio'])} {cZ(rank[srcs[e['pool']]])} "
                       f"{copt(p['pref'])} {copt(p['lo'])} {copt(p['hi'])} {cZ(x['time'])})))")
        # the reports each subscribed pool received, by (group, priority) in subscription order
        reg, op = [], []
        seen = set()
        for k in subscribed:
            pool = case["pools"][k]
            key = (pool["op"], pool["prio"])
            if key in seen:
                continue
            seen.add(key)
            r = next((r for r in x["reports"] if r[0] == k), None)
            if r is None:
                return None, None
            (op if pool["op"] else reg).append(P2._line([pool["prio"], r[2], r[3]]))
        exp.append(f"({copt(x['request'])}, (Some (([{'; '.join(reg)}] : list rep_line), ([{'; '.join(op)}] : list rep_line))))")
    return evs, exp


def gen_case(rng):
    n = rng.randint(1, 3)
    prios = rng.sample([0, 1, 2, 3, 5], n) if rng.random() < 0.8 else [rng.choice([1, 2]) for _ in range(n)]
    pools = [{"name": f"a{k}", "prio": prios[k], "op": rng.random() < 0.35} for k in range(n)]
    # the first call is always a power_status subscription: it makes the manager start tracking the
    # group's bounds, so that the bounds message that follows is not sent into the void
    script = [{"t": "status", "pool": 0}]
    for k in range(1, n):
        if rng.random() < 0.8:
            script.append({"t": "status", "pool": k})
    script.append({"t": "bounds", "sys": M.gen_sys(rng, allow_none=False)})
    vals = [None, 0, 5, 10, 20, 30, 50, 100, 150]
    for _ in range(rng.randint(2, 9)):
        r = rng.random()
        k = rng.randrange(n)
        if r < 0.35:
            e = {"t": "power", "pool": k, "p": rng.choice(vals + [-5, -10, -20, -50, -100])}
            if rng.random() < 0.5:
                lo, hi = rng.choice([None, -100, -50, -20, 0, 10]), rng.choice([None, -10, 0, 20, 50, 100])
                if lo is not None and hi is not None and lo > hi:
                    lo, hi = hi, lo
                e["lo"], e["hi"] = lo, hi
            script.append(e)
        elif r < 0.55:
            script.append({"t": "charge", "pool": k, "p": rng.choice(vals + [-5])})
        elif r < 0.75:
            script.append({"t": "discharge", "pool": k, "p": rng.choice(vals + [-5])})
        elif r < 0.9:
            script.append({"t": "bounds", "sys": M.gen_sys(rng, allow_none=False)})
        else:
            script.append({"t": "status", "pool": k})
    case = {"pools": pools, "script": script}
    # a third of the cases: PV or EV-charger pools (propose_power only, one sign allowed) and pauses around
    # the maximum proposal age, so that proposals made through the pool API expire
    r = rng.random()
    if r < 0.34:
        case["kind"] = rng.choice(["pv", "ev"])
        sign = -1 if case["kind"] == "pv" else 1
        for e in script:
            if e["t"] in ("charge", "discharge"):
                e["t"] = "power"
            if e["t"] == "power" and e["p"] is not None and rng.random() < 0.9:
                e["p"] = sign * abs(e["p"])
    if n >= 2 and rng.random() < 0.3:
        sign = {"pv": -1, "ev": 1}.get(case.get("kind"), rng.choice([-1, 1]))
        for _ in range(rng.randint(1, 2)):
            order = rng.sample(range(n), n)
            calls = []
            for k in order:
                c = {"pool": k, "p": rng.choice([None, sign * 5, sign * 20, sign * 50, sign * 100, sign * 150])}
                if rng.random() < 0.6:
                    lo, hi = rng.choice([None, -100, -50, -20, 0]), rng.choice([None, 0, 20, 50, 100])
                    c["lo"], c["hi"] = lo, hi
                calls.append(c)
            script.insert(rng.randrange(3, len(script) + 1) if len(script) > 3 else len(script), {"t": "burst", "calls": calls})
    if r < 0.34 or rng.random() < 0.25:
        k = 0
        while k < len(script):
            if script[k]["t"] in ("power", "charge", "discharge") and rng.random() < 0.4:
                script.insert(k + 1, {"t": "sleep", "dt": rng.choice([8, 80, 240, 400, 479, 481, 500, 700])})
                k += 1
            k += 1
    return M.gen_scale(rng, case) if rng.random() < 0.5 else case


def boundary_cases():
    S = {"incl": [-100, 100], "excl": [-10, 10]}
    return [
        {"pools": [{"name": "hi", "prio": 3, "op": False}, {"name": "lo", "prio": 1, "op": False}],
         "script": [{"t": "status", "pool": 0}, {"t": "status", "pool": 1}, {"t": "bounds", "sys": S},
                    {"t": "power", "pool": 0, "p": None, "lo": -50, "hi": 40}, {"t": "discharge", "pool": 1, "p": 70},
                    {"t": "charge", "pool": 1, "p": 70}, {"t": "charge", "pool": 1, "p": -5}, {"t": "power", "pool": 1, "p": 5}]},
        {"pools": [{"name": "op", "prio": 1, "op": True}, {"name": "r", "prio": 1, "op": False}],
         "script": [{"t": "status", "pool": 0}, {"t": "status", "pool": 1}, {"t": "bounds", "sys": S},
                    {"t": "discharge", "pool": 0, "p": 30}, {"t": "charge", "pool": 1, "p": 90}, {"t": "power", "pool": 0, "p": None}]},
    ]


def expiry_cases():
    S = {"incl": [-100, 100], "excl": [0, 0]}
    out = []
    for kind, sign in (("battery", 1), ("pv", -1), ("ev", 1)):
        # the curtailing high-priority pool goes silent for 80 s while the low-priority one keeps renewing
        out.append({"kind": kind, "pools": [{"name": "hi", "prio": 3, "op": False}, {"name": "lo", "prio": 1, "op": False}],
                    "script": [{"t": "status", "pool": 0}, {"t": "status", "pool": 1}, {"t": "bounds", "sys": S},
                               {"t": "power", "pool": 0, "p": None, "lo": -10, "hi": 10}, {"t": "power", "pool": 1, "p": sign * 40},
                               {"t": "sleep", "dt": 320}, {"t": "power", "pool": 1, "p": sign * 40}, {"t": "sleep", "dt": 320},
                               {"t": "power", "pool": 1, "p": sign * 40}, {"t": "sleep", "dt": 560}, {"t": "bounds", "sys": S}]})
    return out


def burst_cases():
    S = {"incl": [-1000, 1000], "excl": [0, 0]}
    return [{"pools": [{"name": "limiter", "prio": 5, "op": False}, {"name": "trader", "prio": 1, "op": False}],
             "script": [{"t": "status", "pool": 0}, {"t": "status", "pool": 1}, {"t": "bounds", "sys": S},
                        {"t": "burst", "calls": [{"pool": 0, "p": None, "lo": -200, "hi": 200}, {"pool": 1, "p": 600}]},
                        {"t": "bounds", "sys": S}]}]


def shrink_case(case):
    sc = case["script"]
    for i in range(1, len(sc)):
        yield {**case, "script": sc[:i] + sc[i + 1:]}


class PoolApiStream(Stream):
    name = "pool_api"
    coq_header = HEADER
    coq_targets = ["model/PowerManager.vo"]

    def gen(self, rng, tier):
        yield from boundary_cases()
        yield from expiry_cases()
        yield from burst_cases()
        for _ in range(300 if tier == "quick" else 4000):
            yield gen_case(rng)

    def run_impl(self, case):
        return run_pools(case)

    def to_coq(self, case, obs):
        evs, exp = model_terms(case, obs)
        if evs is None:
            return None
        return f"(([{'; '.join(evs)}], [{'; '.join(exp)}]) : case_t)"

    def show_term(self, case, obs):
        evs, _ = model_terms(case, obs)
        return f"prun2 max_proposal_age_us max_proposal_age_op_us (mkSubs [] []) pm_init [{'; '.join(evs or [])}]"

    def shrink(self, case):
        return shrink_case(case)

    def key(self, case, obs):
        if not any(x["request"] is not None for x in obs["log"]):
            return None
        return json.dumps(case, sort_keys=True)

    def labels(self, case, obs):
        out = [f"pools={len(case['pools'])}"] + sorted({"call_" + e["t"] for e in case["script"]})
        if any(e["t"] == "burst" for e in case["script"]):
            out.append("several_proposals_in_one_loop_iteration")
        if any(p["op"] for p in case["pools"]):
            out.append("has_operating_point_pool")
        if len({p["prio"] for p in case["pools"]}) < len(case["pools"]):
            out.append("shared_priority")
        if any(x["error"] for x in obs["log"]):
            out.append("ValueError_raised")
        out.append("pool_kind=" + case.get("kind", "battery"))
        if obs.get("ticks"):
            out.append("timer_ticks")
        if case.get("scale", 1) != 1:
            out.append("fractional_or_scaled_watts")
        return out

    def oracle(self, case, obs):
        out = []
        cur = None
        want = [[case.get("kind", "battery"), pool_ids(case)]]
        if obs.get("pool_calls") is not None and obs["pool_calls"] != want and any(e["t"] != "bounds" for e in case["script"]):
            out.append({"what": f"wiring: the manager asked the data pipeline for bounds pools {obs['pool_calls']}, needed {want}", "finding": None})
        latest = {}      # pool index -> the proposal its latest call is documented to make
        only_regular = not any(p["op"] for p in case["pools"])
        ticks_at = {}
        for i, now in obs.get("ticks", []):
            ticks_at.setdefault(i, []).append(now)
        for i, (e, x) in enumerate(zip(case["script"], obs["log"])):
            # proposals older than the maximum age (60 s) at a sweep of the 1 s timer stop counting
            for now in ticks_at.get(i, []):
                for k in [k for k, q in latest.items() if now - q["t_us"] > 60 * P1.UNIT]:
                    del latest[k]
            if e["t"] == "bounds":
                cur = e["sys"]
            # a proposal that reaches the manager before it has received any bounds for the group is ignored
            # (documented; model: gcalc on a group that does not exist yet under no bounds)
            if e["t"] == "burst" and cur is not None:
                for c in e["calls"]:
                    pc = expected_proposal(case, {"t": "power", **c})
                    if pc in REJECT:
                        continue
                    latest[c["pool"]] = {"prio": pc["prio"], "src": obs["sources"][c["pool"]], "pref": pc["pref"], "lo": pc["lo"],
                                         "hi": pc["hi"], "t_us": x["time"]}
            p = expected_proposal(case, e) if e["t"] in ("power", "charge", "discharge") else None
            # documented argument checks (negative charge/discharge power; charging a PV pool; discharging EV chargers)
            if p in REJECT and x["error"] != p:
                out.append({"what": f"api: step {i} {e}: the call must raise {p}, got {x['error']}", "finding": None})
            if p not in (None,) + REJECT and x["error"] is not None:
                out.append({"what": f"api: step {i} {e}: raised {x['error']}", "finding": None})
            if p in REJECT and (x["request"] is not None):
                out.append({"what": f"api: step {i} {e}: a rejected call still produced a request", "finding": None})
            if p not in (None,) + REJECT and cur is not None:
                latest[e["pool"]] = {"prio": p["prio"], "src": obs["sources"][e["pool"]], "pref": p["pref"], "lo": p["lo"], "hi": p["hi"],
                                     "t_us": x["time"]}
            r = x["request"]
            if r is None:
                continue
            # regular pools only: only the LATEST call of each pool counts; the request is the closest
            # admissible value for the lowest-priority preference (independent oracle of the history stream)
            if only_regular and cur is not None and M.wf_sys(cur) and cur["incl"] is not None and latest:
                from harness import c04 as C04
                exp, ok = C04.expected_target(cur, list(latest.values()))
                if ok and r != exp:
                    out.append({"what": f"latest-call: step {i}: with the latest call of each pool {list(latest.values())} the closest admissible "
                                        f"value is {exp} W but {r} W is requested", "finding": None})
            if x["request_ids"] != pool_ids(case):
                out.append({"what": f"api: step {i}: request addresses {x['request_ids']}, the pool's components are {pool_ids(case)}", "finding": None})
            if cur is not None and M.wf_sys(cur):
                l, u = cur["incl"]
                if not (l <= r <= u):
                    out.append({"what": f"bounds: step {i}: request {r} W outside the system inclusion bounds [{l}, {u}]", "finding": None})
            # what the pools are told: every pool of a group that received a report in this step is told the
            # same target, and the request is the regular group's target plus the operating-point group's
            # (a report delivered to the wrong group's pool shows here)
            told = {False: set(), True: set()}
            for k, _, tgt, _b in x["reports"]:
                told[case["pools"][k]["op"]].add(tgt)
            if any(len(v) > 1 for v in told.values()):
                out.append({"what": f"reports: step {i}: pools of one group are told different targets {x['reports']}", "finding": None})
            elif told[False] and told[True]:
                a, b = next(iter(told[False])), next(iter(told[True]))
                if (a or 0) + (b or 0) != r:
                    out.append({"what": f"reports: step {i}: request {r} W but the regular pools are told target {a} W and the "
                                        f"operating-point pools {b} W", "finding": None})
            # single regular pool, no operating-point pool: the documented contract in its simplest form,
            # judged with the same independent `closest admissible value` oracle as the history stream
            if len(case["pools"]) == 1 and not case["pools"][0]["op"] and cur is not None and M.wf_sys(cur) and p not in (None,) + REJECT:
                from harness import c04 as C04
                exp, ok = C04.expected_target(cur, [{"prio": 1, "src": "a", "pref": p["pref"], "lo": p["lo"], "hi": p["hi"]}])
                if ok and r != exp:
                    out.append({"what": f"contract: step {i}: the only actor proposes {p['pref']} W with bounds ({p['lo']}, {p['hi']}); "
                                        f"the closest admissible value is {exp} W but {r} W is requested", "finding": None})
        return out
