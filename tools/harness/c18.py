"""C18 — pool SoC and capacity are the documented aggregates of working batteries."""
from __future__ import annotations

from harness import poolmetrics as PM

ID = "C18"
PROPS = "props/C18.v"
NEEDS = ["is_close_to_zero_abs_tol"]


def streams():
    return [PM.PoolMetricsStream(), PM.PoolIntegrationStream()]


ASSUMPTIONS = [
    "component timestamps are later than datetime.min (the calculators use timestamp == _MIN_TIMESTAMP as 'no battery was used')",
    "math.isclose on the exact class converts to binary64 first; generated data keep every compared quantity either on or at least 10 % away from a tolerance threshold, so the exact model comparison and the float comparison agree",
]

META = {
    "technique": "Coq proof over Q (loop invariant of the accumulating loops, algebra of the weighted mean, monotonicity and scale invariance by Forall2-induction) + T-tie of the zero-capacity tolerance + differential correspondence of SoCCalculator/CapacityCalculator (run on exact rationals) vs the model evaluated in Coq + property oracle on the implementation's outputs + integration scenarios (real BatteryPool / reference store / SendOnUpdate / fetchers on virtual time) judged against the model on the snapshot at each step",
    "level_text": "Machine-checked theorems (closed under the global context) about a Gallina model of SoCCalculator.calculate and CapacityCalculator.calculate as written (option metrics, working/present flags, isclose on equal limits, clamp, zero-capacity guard, snap to 100): the model equals the documented formulas, is None exactly when no battery qualifies, stays in [0,100], is monotone in every SoC, invariant under permutation and under scaling all capacities (when the absolute zero-capacity guard answers the same before and after), and ignores non-working / incomplete batteries. The model is tied to the code by running the real calculators on exact rationals (and the real metric fetcher for the NaN -> missing step) and comparing with the model evaluated inside Coq on thousands of generated pools with paired perturbed / scaled inputs; the property is also judged directly on the implementation's outputs.",
    "level_note": "Trusted: Coq kernel + vm_compute, tools/translate.py (one constant), the harness and its generator, the exact-rational class (math.isclose/isnan see a binary64 rounding of the exact value). Float rounding is not modelled (float run compared within 1e-6 as supporting evidence). The wiring around the calculators (BatteryPool.soc/.capacity starting SendOnUpdate with the reference store's CURRENT working set, status updates reaching active aggregators, the fetchers' NaN drop and 2 s data timeout, SendOnUpdate's cache) is not modelled as a transition system; it is covered by the integration stream `pool`: a real BatteryPoolReferenceStore + BatteryPool on a fake in-process microgrid (real component graph, fake API client, a status channel and data channels the harness feeds) on async_solipsism virtual time, with one to three BatteryPool instances sharing the reference store (every consumer's streams judged), component data stamped either with fixed 2020 UTC times or with the current instant in aware non-UTC zones (fixed offsets east / west, zoneinfo zones), with status messages produced three ways (a fresh ComponentPoolStatus per message; ONE object mutated in place and re-sent; the real ComponentPoolStatusTracker driven through scripted per-battery trackers, incl. uncertain batteries) and scripts that vary the order of the first status message, the first request of pool.soc / pool.capacity, later status changes, metric changes, NaN metrics, batteries going silent, and metrics (SoC, capacity, limits) drifting in 20 - 4000 steps of 1e-6 - 1e-3 relative change with no other event in between; after every step the latest value each stream emitted must equal the calculators' model (and, independently, the documented aggregate) on the snapshot 'working per the last status and streaming complete data'. Only settled values (6 virtual seconds after each step) are judged, not transients.",
}
