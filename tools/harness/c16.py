"""C16 — a battery is reported usable only while its data proves it healthy."""
from __future__ import annotations

from harness import batterystatus as B

ID = "C16"
PROPS = "props/C16.v"
NEEDS = ["battery_valid_relay", "battery_valid_state", "inverter_valid_state", "critical_level",
         "min_blocking_duration_us", "default_max_blocking_duration_us", "default_max_data_age_us"]


def streams():
    return [B.TrackerStream(), B.BlockingStream(), B.PoolStream()]


META = {
    "technique": "placeholder",
    "level_text": "placeholder",
    "level_note": "placeholder",
}
