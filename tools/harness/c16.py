"""C16 — a battery is reported usable only while its data proves it healthy."""
from __future__ import annotations

from harness import batterystatus as B

ID = "C16"
PROPS = "props/C16.v"
NEEDS = ["battery_valid_relay", "battery_valid_state", "inverter_valid_state", "critical_level",
         "min_blocking_duration_us", "default_max_blocking_duration_us", "default_max_data_age_us",
         "BlockingStatus_block", "BlockingStatus_unblock", "BlockingStatus_is_blocked"]


def streams():
    return [B.TrackerStream(), B.BlockingStream(), B.PoolStream(), B.E2EStream(), B.ManagerStream()]


ASSUMPTIONS = [
    "runtime: frequenz.channels Timer(max_data_age, SkipMissedAndDrift) fires max_data_age after its last reset() -- 'data stops arriving => a timer event is handled' is the Timer's and asyncio's job; exercised by every run of the tracker stream (silences, tails), not proved",
    "runtime: select() hands the tracker one ready receiver at a time; all datetime.now() readings inside one handler are the same instant (the model's `now`); the wall clock and the loop clock agree (harness: time_machine driven by the async_solipsism clock)",
    "domain: message timestamps are not ahead of the tracker's clock (a component clock ahead makes the late-timer filter discard a real time-out until a later tick); such runs are in the correspondence stream but excluded from the time-based oracle",
    "reading of 'younger than the maximum data age': judged when the message is handled (age <= max_data_age, boundary inclusive as in the code), silence is then measured from that moment by the data timer",
]

TRUSTED = ["async_solipsism virtual-time loop + time_machine", "frequenz.channels Broadcast/select/Timer (real ones, driven by the harness)"]

META = {
    "technique": "Coq proof (invariants of the tracker's transition system by induction over ALL event histories; refinement of BlockingStatus to a closed-form back-off counter; set lemmas for the pool) + T-tie translation of BlockingStatus.block/unblock/is_blocked, the valid-state tables, critical level, min/max blocking duration and max data age + trace refinement: the real BatteryStatusTracker runs on async_solipsism virtual time with probe collaborators, the recorded boundary events (which receiver was consumed when, which notification was sent) are replayed through the model inside Coq (vm_compute); BlockingStatus and ComponentPoolStatus(Tracker) are additionally compared op-by-op, and an end-to-end stream lets the real ComponentPoolStatusTracker create the real BatteryStatusTrackers (constructor wiring: max_data_age, max_blocking_duration, per-tracker set-power receiver, merged status channel) with every expectation computed from the values given to the pool; a manager stream takes the set-power outcomes from the real BatteryManager.distribute_power over a fault-injecting fake API (who is mentioned as succeeded/failed comes from production code, the oracle judges by the commands the API actually received); message timestamps are also stamped in non-UTC zones (fixed offsets, zoneinfo zones, runs started 30 s before a DST switch)",
    "level_text": "Machine-checked theorems, closed under the global context, on a Gallina model of one iteration of BatteryStatusTracker._run's select loop: C16_safe (for every history, a WORKING/UNCERTAIN report implies that the latest battery and inverter messages each passed every predicate when handled and no data time-out was processed since), C16_immediate (a failing message or an effective time-out gives NOT_WORKING and a notification in the same step), C16_uncertain / C16_recover (exact status whenever it is evaluated), C16_backoff_invariant + C16_backoff (k-th consecutive expired-block failure blocks until now + min(2^(k-1) d_min, d_max); success and recovery reset), C16_only_on_change, C16_pool / C16_pool_complete. The model is tied to the code by replaying thousands of recorded traces of the real tracker (random words <= 40 events: healthy and singly-faulty messages, silences beyond the max data age, late timer events produced by a blocking status sender, coincident events, all set-power outcomes); the property is also judged directly on each recorded trace by an independent Python bookkeeping.",
    "level_note": "Proved on the model; the model/code agreement is checked by correspondence (generator coverage bounds it), not proved. BlockingStatus.block/unblock/is_blocked are TRANSLATED from _blocking_status.py (kind \"method\": the method as a pure function of the object's fields and the clock reading) and additionally compared op-by-op with the real class. Not proved: that the data Timer fires (runtime assumption, exercised), asyncio/select scheduling, that nothing raises inside the loop. Observations: the UNCERTAIN -> WORKING transition happens at the first event handled after the deadline, not at the deadline itself; message age is checked on receipt only, so data can be up to 2 x max_data_age old by their own timestamp while WORKING; timestamps ahead of the local clock delay the detection of a silence.",
}
