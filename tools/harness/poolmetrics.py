"""C18: battery-pool SoC / capacity calculators.

Implementation side: the real `SoCCalculator.calculate` and `CapacityCalculator.calculate`
(real constructors) on `ComponentMetricsData` whose values are exact rationals
(`lib.exact.X`), so results are compared exactly with the Q model (coq/model/PoolMetrics.v).
In "fetch" cases the metrics first go through the real `LatestBatteryMetricsFetcher`
(`async_new` + `fetch_next` on a stub API client), which is where NaN values are dropped.
A second run on ordinary floats is supporting evidence only (tolerance 1e-6 relative;
cases within 10 % of one of the code's tolerance thresholds are counted as borderline).

Case (JSON):
  {"bats": [B, ...], "fetch": bool, "variants": [{"kind": "mono"|"scale"|"excl", "bats": [B, ...], ...}]}
  B = {"id": int, "working": bool, "present": bool, "cap": V, "lo": V, "hi": V, "soc": V}
  V = None (metric missing) | "nan" (fetch cases only) | [num, den]
"""
from __future__ import annotations

import asyncio
import json
import math
from datetime import datetime, timezone
from fractions import Fraction as F
from types import SimpleNamespace as NS

from lib.core import Stream, cQ, cbool, copt, clist
from lib.exact import X

NOW = datetime(2020, 1, 1, tzinfo=timezone.utc)
TOL = F(1, 10 ** 9)
FIELDS = ("cap", "lo", "hi", "soc")


def fr(v):
    return None if v is None or v == "nan" else F(v[0], v[1])


def enc(x):
    if x is None:
        return None
    x = F(x)
    return [x.numerator, x.denominator]


def to_frac(v):
    """implementation number (X | float | int) -> Fraction"""
    if isinstance(v, X):
        return v.q
    return F(v)


# ----------------------------------------------------------------------------- implementation
def _imports():
    from frequenz.client.microgrid import ComponentMetricId as M
    from frequenz.sdk.timeseries.battery_pool._component_metrics import ComponentMetricsData
    from frequenz.sdk.timeseries.battery_pool._metric_calculator import CapacityCalculator, SoCCalculator
    return M, ComponentMetricsData, SoCCalculator, CapacityCalculator


_LOOP = None


def _loop():
    global _LOOP
    if _LOOP is None:
        _LOOP = asyncio.new_event_loop()
    return _LOOP


def _fetch(bid, b, num):
    """Push one battery message through the real LatestBatteryMetricsFetcher."""
    from frequenz.sdk.microgrid import connection_manager
    from frequenz.sdk.timeseries.battery_pool._component_metric_fetcher import LatestBatteryMetricsFetcher
    M = _imports()[0]
    val = lambda v: math.nan if v is None or v == "nan" else num(F(v[0], v[1]))
    msg = NS(component_id=bid, timestamp=NOW, capacity=val(b["cap"]), soc_lower_bound=val(b["lo"]),
             soc_upper_bound=val(b["hi"]), soc=val(b["soc"]))

    class Recv:
        async def receive(self):
            return msg

    class Api:
        async def battery_data(self, cid, maxsize=1):
            assert cid == bid
            return Recv()

    old = connection_manager._CONNECTION_MANAGER
    connection_manager._CONNECTION_MANAGER = NS(api_client=Api(), component_graph=None)
    try:
        async def go():
            f = await LatestBatteryMetricsFetcher.async_new(
                bid, [M.CAPACITY, M.SOC_LOWER_BOUND, M.SOC_UPPER_BOUND, M.SOC])
            return await f.fetch_next()
        return _loop().run_until_complete(go())
    finally:
        connection_manager._CONNECTION_MANAGER = old


def metrics_data(bats, fetch, num):
    M, CMD, _, _ = _imports()
    keys = {"cap": M.CAPACITY, "lo": M.SOC_LOWER_BOUND, "hi": M.SOC_UPPER_BOUND, "soc": M.SOC}
    md = {}
    for b in bats:
        if not b["present"]:
            continue
        if fetch:
            md[b["id"]] = _fetch(b["id"], b, num)
        else:
            md[b["id"]] = CMD(b["id"], NOW, {keys[k]: num(fr(b[k])) for k in FIELDS if fr(b[k]) is not None})
    return md


def calc_both(bats, fetch, num):
    _, _, SoC, Cap = _imports()
    ids = {b["id"] for b in bats}
    working = {b["id"] for b in bats if b["working"]}
    md = metrics_data(bats, fetch, num)
    s = SoC(ids).calculate(md, set(working)).value
    c = Cap(ids).calculate(md, set(working)).value
    return (None if s is None else s.as_percent(), None if c is None else c.as_watt_hours())


def run_case(case):
    fetch = bool(case.get("fetch"))
    out = {"variants": []}
    worst = "ok"
    for k, bats in [("base", case["bats"])] + [("v", v["bats"]) for v in case.get("variants", [])]:
        s, c = calc_both(bats, fetch, X)
        fs, fc = calc_both(bats, fetch, float)
        s, c = (None if s is None else to_frac(s)), (None if c is None else to_frac(c))
        for e, f_ in ((s, fs), (c, fc)):
            if (e is None) != (f_ is None):
                dev = "bad"
            elif e is None:
                dev = "ok"
            else:
                dev = "ok" if abs(float(e) - f_) <= 1e-6 * max(1.0, abs(float(e))) else "bad"
            if dev == "bad":
                worst = "borderline" if borderline(bats) else "bad"
        rec = {"soc": enc(s), "cap": enc(c)}
        if k == "base":
            out.update(rec)
        else:
            out["variants"].append(rec)
    out["float"] = worst
    return out


# ----------------------------------------------------------------------------- independent arithmetic
def q_soc(b):
    return b["working"] and b["present"] and all(fr(b[k]) is not None for k in FIELDS)


def q_cap(b):
    return b["working"] and b["present"] and all(fr(b[k]) is not None for k in ("cap", "lo", "hi"))


def isclose_q(a, b, rel=TOL, abs_=F(0)):
    return abs(a - b) <= max(rel * abs(a), rel * abs(b), abs_)


def totals(bats):
    """(used_x100, total_x100) of the documented formula; hi == lo batteries contribute 0"""
    used = total = F(0)
    for b in bats:
        if not q_soc(b):
            continue
        cap, lo, hi, soc = (fr(b[k]) for k in FIELDS)
        u = cap * (hi - lo)
        if hi != lo:
            sc = min(max(F(0), (soc - lo) / (hi - lo) * 100), F(100))
            used += u * sc
        total += u
    return used, total


def wf(bats):
    return all(fr(b["lo"]) <= fr(b["hi"]) and fr(b["cap"]) >= 0 for b in bats if q_soc(b))


def limits_ok(bats):
    """no qualifying battery has distinct limits that math.isclose calls equal"""
    return all(fr(b["hi"]) == fr(b["lo"]) or not isclose_q(fr(b["hi"]), fr(b["lo"])) for b in bats if q_soc(b))


def borderline(bats):
    """within 10 % of a tolerance threshold of the code: float and exact runs may differ"""
    used, total = totals(bats)
    near = lambda x, t: t != 0 and F(9, 10) <= abs(x) / t <= F(11, 10)
    if near(total, TOL):
        return True
    for b in bats:
        if q_soc(b):
            lo, hi = fr(b["lo"]), fr(b["hi"])
            if hi != lo and near(hi - lo, TOL * max(abs(hi), abs(lo))):
                return True
    if total != 0 and near(used / total - 100, TOL * 100):
        return True
    return False


def oracle_c18(case, obs):
    out = []
    hit = lambda w: out.append({"what": w, "finding": None})
    sets = [("base", case["bats"], obs)] + [(f"variant{i}", v["bats"], o)
                                            for i, (v, o) in enumerate(zip(case.get("variants", []), obs["variants"]))]
    for name, bats, o in sets:
        soc, cap = fr(o["soc"]), fr(o["cap"])
        # None exactly when no battery qualifies
        if (soc is None) != (not any(q_soc(b) for b in bats)):
            hit(f"none: {name}: SoC is {soc} but qualifying batteries = {[b['id'] for b in bats if q_soc(b)]}")
        if (cap is None) != (not any(q_cap(b) for b in bats)):
            hit(f"none: {name}: capacity is {cap} but qualifying batteries = {[b['id'] for b in bats if q_cap(b)]}")
        # capacity = documented sum of usable capacities
        if cap is not None:
            doc = sum((fr(b["cap"]) * (fr(b["hi"]) - fr(b["lo"])) / 100 for b in bats if q_cap(b)), F(0))
            if cap != doc:
                hit(f"spec: {name}: capacity {cap} differs from the documented sum of usable capacities {doc}")
        if soc is None:
            continue
        # range
        if wf(bats) and not (0 <= soc <= 100):
            hit(f"range: {name}: SoC {soc} outside [0, 100]")
        # documented weighted mean (defined when the total usable capacity is not ~0)
        used, total = totals(bats)
        if abs(total) > TOL and limits_ok(bats):
            doc = used / total
            if soc != doc and not (soc == 100 and isclose_q(doc, F(100))):
                hit(f"spec: {name}: SoC {soc} differs from the documented usable-capacity-weighted mean {doc}")
    base_soc = fr(obs["soc"])
    _, base_total = totals(case["bats"])
    for i, (v, o) in enumerate(zip(case.get("variants", []), obs["variants"])):
        vs = fr(o["soc"])
        if v["kind"] == "mono" and base_soc is not None and vs is not None and wf(case["bats"]) and wf(v["bats"]):
            if vs < base_soc:
                hit(f"mono: raising battery {v.get('id')}'s SoC lowered the pool SoC from {base_soc} to {vs}")
        if v["kind"] == "scale" and base_soc is not None:
            _, vt = totals(v["bats"])
            if (abs(base_total) > TOL) == (abs(vt) > TOL) and vs != base_soc:
                hit(f"scale: scaling all capacities by {fr(v.get('k'))} changed the pool SoC from {base_soc} to {vs}")
        if v["kind"] == "excl":
            if vs != base_soc or fr(o["cap"]) != fr(obs["cap"]):
                hit(f"excl: changing a non-working / incomplete battery changed the result "
                    f"(SoC {base_soc} -> {vs}, capacity {fr(obs['cap'])} -> {fr(o['cap'])})")
    if obs.get("float") == "bad":
        hit("float: the float run deviates from the exact run by more than 1e-6 away from every tolerance threshold")
    return out


# ----------------------------------------------------------------------------- Coq rendering
def c_bat(b):
    f = lambda v: copt(fr(v), cQ)
    return f"(mkBat {cbool(b['working'])} {cbool(b['present'])} {f(b['cap'])} {f(b['lo'])} {f(b['hi'])} {f(b['soc'])})"


def c_bats(bats):
    return "[" + "; ".join(c_bat(b) for b in bats) + "]"


HEADER = """From Coq Require Import QArith.
From Verif Require Import model.Common model.PoolMetrics.
Open Scope Q_scope.
(* (batteries, expected SoC, expected capacity) for the base input and every variant *)
Definition check1 (c : list bat * option Q * option Q) : bool :=
  let '(bs, es, ec) := c in optQ_eqb (soc_calc bs) es && optQ_eqb (cap_calc bs) ec.
Definition check (c : list (list bat * option Q * option Q)) : bool := forallb check1 c.
"""


def case_term(case, obs):
    one = lambda bats, o: f"({c_bats(bats)}, {copt(fr(o['soc']), cQ)}, {copt(fr(o['cap']), cQ)})"
    items = [one(case["bats"], obs)] + [one(v["bats"], o) for v, o in zip(case.get("variants", []), obs["variants"])]
    return "[" + "; ".join(items) + "]"


# ----------------------------------------------------------------------------- generation
def gen_bat(rng, bid, fetch):
    lo = rng.choice([F(0), F(5), F(10), F(20), F(50), F(100, 3)])
    r = rng.random()
    if r < 0.15:
        hi = lo
    elif r < 0.18 and lo != 0:
        hi = lo * (1 + rng.choice([F(1, 2 * 10 ** 9), F(2, 10 ** 9)]))  # inside / outside math.isclose (never on the threshold: binary64 rounding decides there)
    elif r < 0.21:
        hi = lo - rng.choice([1, 10])  # reversed limits (not well-formed)
    else:
        hi = max(lo, rng.choice([F(80), F(90), F(95), F(100), lo + F(1, 3)]))
    r = rng.random()
    if r < 0.15:
        cap = F(0)
    elif r < 0.18:
        cap = -rng.choice([F(1), F(10)])  # not well-formed
    else:
        cap = rng.choice([F(1), F(10), F(1000), F(7, 3), F(5000), F(1, 10)])
    d = rng.choice([F(1, 1000), F(1), F(5)])
    soc = rng.choice([lo - d, lo, lo + d, (lo + hi) / 2, hi - d, hi, hi + d, F(rng.randint(-20, 1200), 10), F(rng.randint(0, 300), 7)])
    b = {"id": bid, "working": rng.random() < 0.8, "present": rng.random() < 0.9,
         "cap": enc(cap), "lo": enc(lo), "hi": enc(hi), "soc": enc(soc)}
    for k in FIELDS:
        if rng.random() < 0.06:
            b[k] = "nan" if (fetch and rng.random() < 0.7) else None
    return b


def gen_case(rng):
    fetch = rng.random() < 0.25
    n = rng.choice([0, 1, 1, 2, 2, 3, 3, 4, 5, 6])
    ids = rng.sample(range(1, 40), n)
    bats = [gen_bat(rng, i, fetch) for i in ids]
    # sometimes push the total usable capacity to the zero-capacity guard (1e-9 on capacity x 100)
    if bats and rng.random() < 0.12:
        _, total = totals(bats)
        if total > 0:
            target = rng.choice([TOL / 2, TOL, TOL * 2, TOL / 1000])
            for b in bats:
                if fr(b["cap"]) is not None:
                    b["cap"] = enc(fr(b["cap"]) * target / total)
    case = {"bats": bats, "fetch": fetch, "variants": []}
    quals = [b for b in bats if q_soc(b)]
    cp = lambda: [dict(b) for b in bats]
    if quals:
        t = rng.choice(quals)
        delta = rng.choice([F(1, 1000), F(1, 2), F(3), F(20), F(200)])
        vb = cp()
        for b in vb:
            if b["id"] == t["id"]:
                b["soc"] = enc(fr(b["soc"]) + delta)
        case["variants"].append({"kind": "mono", "id": t["id"], "bats": vb})
        k = rng.choice([F(1, 1000), F(1, 2), F(3), F(1000), F(1, 10 ** 12), F(10 ** 12), F(1, 10 ** 9)])
        vb = cp()
        for b in vb:
            if fr(b["cap"]) is not None:
                b["cap"] = enc(fr(b["cap"]) * k)
        case["variants"].append({"kind": "scale", "k": enc(k), "bats": vb})
    # excluded batteries do not influence the result: drop / alter / add a non-qualifying battery
    vb = cp()
    nonq = [b for b in vb if not q_cap(b)]
    r = rng.random()
    if nonq and r < 0.4:
        vb.remove(rng.choice(nonq))
    elif nonq and r < 0.7:
        b = rng.choice(nonq)
        for k in FIELDS:
            if fr(b[k]) is not None:
                b[k] = enc(fr(b[k]) * 3 + 7)
    else:
        extra = gen_bat(rng, 90 + rng.randrange(5), fetch)
        if rng.random() < 0.5:
            extra["working"] = False
        elif rng.random() < 0.5:
            extra["present"] = False
        else:
            extra[rng.choice(("cap", "lo", "hi"))] = None
        vb.insert(rng.randrange(len(vb) + 1), extra)
    case["variants"].append({"kind": "excl", "bats": vb})
    return case


def boundary_cases():
    B = lambda i, cap, lo, hi, soc, w=True, p=True: {"id": i, "working": w, "present": p, "cap": enc(cap), "lo": enc(lo), "hi": enc(hi), "soc": enc(soc)}
    out = []
    out.append({"bats": [], "fetch": False, "variants": []})
    out.append({"bats": [B(1, 100, 10, 90, 50), B(2, 50, 20, 80, 95)], "fetch": False, "variants": []})
    # equal limits: at, below, above
    for s in (19, 20, 21):
        out.append({"bats": [B(1, 100, 20, 20, s), B(2, 10, 0, 100, 30)], "fetch": False, "variants": []})
        out.append({"bats": [B(1, 100, 20, 20, s)], "fetch": False, "variants": []})
    # zero capacities only
    out.append({"bats": [B(1, 0, 10, 90, 50), B(2, 0, 0, 100, 70)], "fetch": True, "variants": []})
    # result within isclose of 100 snaps
    out.append({"bats": [B(1, 100, 0, 100, F(100) - F(1, 10 ** 8))], "fetch": False, "variants": []})
    out.append({"bats": [B(1, 100, 0, 100, F(100) - F(1, 10 ** 6))], "fetch": False, "variants": []})
    # everything missing one by one
    for k in FIELDS:
        b = B(1, 100, 10, 90, 50)
        b[k] = None
        out.append({"bats": [b, B(2, 10, 0, 100, 30, w=False)], "fetch": False, "variants": []})
        b = dict(b)
        b[k] = "nan"
        out.append({"bats": [b, B(2, 10, 0, 100, 30)], "fetch": True, "variants": []})
    return out


def shrink_case(case):
    bats = case["bats"]
    if case.get("variants"):
        yield {**case, "variants": []}
        for v in case["variants"]:
            yield {**case, "variants": [v]}
    for i in range(len(bats)):
        ids = {bats[i]["id"]}
        yield {**case, "bats": bats[:i] + bats[i + 1:],
               "variants": [{**v, "bats": [b for b in v["bats"] if b["id"] not in ids]} for v in case.get("variants", [])
                            if v.get("id") not in ids]}
    if case.get("fetch"):
        yield {**case, "fetch": False}


class PoolMetricsStream(Stream):
    name = "metrics"
    coq_header = HEADER
    n_quick = 2500
    n_thorough = 40000

    def gen(self, rng, tier):
        yield from boundary_cases()
        n = self.n_quick if tier == "quick" else self.n_thorough
        for _ in range(n):
            yield gen_case(rng)

    def run_impl(self, case):
        try:
            return run_case(case)
        except Exception as exc:  # the calculators never raise on the unchanged tree; a mutant may
            return {"error": f"{type(exc).__name__}: {exc}"}

    def to_coq(self, case, obs):
        return None if "error" in obs else case_term(case, obs)

    def show_term(self, case, obs):
        return f"(soc_calc {c_bats(case['bats'])}, cap_calc {c_bats(case['bats'])})"

    def oracle(self, case, obs):
        if "error" in obs:
            return [{"what": f"crash: the calculators raised {obs['error']}", "finding": None}]
        return oracle_c18(case, obs)

    def shrink(self, case):
        return shrink_case(case)

    def key(self, case, obs):
        if "error" in obs or (obs["soc"] is None and obs["cap"] is None):
            return None
        return json.dumps(case["bats"], sort_keys=True)

    def labels(self, case, obs):
        if "error" in obs:
            return ["impl_error"]
        bats = case["bats"]
        out = [f"batteries={len(bats)}", f"qualifying={sum(1 for b in bats if q_soc(b))}"]
        if case.get("fetch"):
            out.append("via_fetcher")
        if any(b[k] == "nan" for b in bats for k in FIELDS):
            out.append("nan_metric")
        if any(b[k] is None for b in bats for k in FIELDS):
            out.append("missing_metric")
        if any(not b["working"] for b in bats):
            out.append("non_working")
        if any(not b["present"] for b in bats):
            out.append("absent_from_metrics_data")
        qs = [b for b in bats if q_soc(b)]
        if any(fr(b["hi"]) == fr(b["lo"]) for b in qs):
            out.append("equal_limits")
        if any(fr(b["hi"]) != fr(b["lo"]) and isclose_q(fr(b["hi"]), fr(b["lo"])) for b in qs):
            out.append("nearly_equal_limits")
        if any(not (fr(b["lo"]) <= fr(b["soc"]) <= fr(b["hi"])) for b in qs):
            out.append("soc_outside_limits")
        if any(fr(b["cap"]) == 0 for b in qs):
            out.append("zero_capacity")
        if qs and abs(totals(bats)[1]) <= TOL:
            out.append("total_capacity_close_to_zero")
        if not wf(bats):
            out.append("not_wellformed")
        if obs["soc"] is None:
            out.append("soc_none")
        elif fr(obs["soc"]) in (0, 100):
            out.append("soc_at_0_or_100")
        out += [f"variant_{v['kind']}" for v in case.get("variants", [])]
        if obs.get("float") != "ok":
            out.append(f"float_{obs.get('float')}")
        return out
