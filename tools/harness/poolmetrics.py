"""C18: battery-pool SoC / capacity calculators.

Implementation side: the real `SoCCalculator.calculate` and `CapacityCalculator.calculate`
(real constructors) on `ComponentMetricsData` whose values are exact rationals
(`lib.exact.X`), so results are compared exactly with the Q model (coq/model/PoolMetrics.v).
In "fetch" cases the metrics first go through the real `LatestBatteryMetricsFetcher`
(`async_new` + `fetch_next` on a stub API client), which is where NaN values are dropped.
A second run on ordinary floats is supporting evidence only (tolerance 1e-6 relative;
cases within 10 % of one of the code's tolerance thresholds are counted as borderline).

Case (JSON):
  {"bats": [B, ...], "fetch": bool, "variants": [{"kind": "mono"|"scale"|"excl", "bats": [B, ...], ...}]}
  B = {"id": int, "working": bool, "present": bool, "cap": V, "lo": V, "hi": V, "soc": V}
  V = None (metric missing) | "nan" (fetch cases only) | [num, den]
"""
from __future__ import annotations

import asyncio
import json
import math
from datetime import datetime, timezone
from fractions import Fraction as F
from types import SimpleNamespace as NS

from lib.core import Stream, cQ, cbool, copt, clist
from lib.exact import X

NOW = datetime(2020, 1, 1, tzinfo=timezone.utc)
TOL = F(1, 10 ** 9)
FIELDS = ("cap", "lo", "hi", "soc")


def fr(v):
    return None if v is None or v == "nan" else F(v[0], v[1])


def enc(x):
    if x is None:
        return None
    x = F(x)
    return [x.numerator, x.denominator]


def to_frac(v):
    """implementation number (X | float | int) -> Fraction"""
    if isinstance(v, X):
        return v.q
    return F(v)


# ----------------------------------------------------------------------------- implementation
def _imports():
    from frequenz.client.microgrid import ComponentMetricId as M
    from frequenz.sdk.timeseries.battery_pool._component_metrics import ComponentMetricsData
    from frequenz.sdk.timeseries.battery_pool._metric_calculator import CapacityCalculator, SoCCalculator
    return M, ComponentMetricsData, SoCCalculator, CapacityCalculator


_LOOP = None


def _loop():
    global _LOOP
    if _LOOP is None:
        _LOOP = asyncio.new_event_loop()
    return _LOOP


def _fetch(bid, b, num):
    """Push one battery message through the real LatestBatteryMetricsFetcher."""
    from frequenz.sdk.microgrid import connection_manager
    from frequenz.sdk.timeseries.battery_pool._component_metric_fetcher import LatestBatteryMetricsFetcher
    M = _imports()[0]
    val = lambda v: math.nan if v is None or v == "nan" else num(F(v[0], v[1]))
    msg = NS(component_id=bid, timestamp=NOW, capacity=val(b["cap"]), soc_lower_bound=val(b["lo"]),
             soc_upper_bound=val(b["hi"]), soc=val(b["soc"]))

    class Recv:
        async def receive(self):
            return msg

    class Api:
        async def battery_data(self, cid, maxsize=1):
            assert cid == bid
            return Recv()

    old = connection_manager._CONNECTION_MANAGER
    connection_manager._CONNECTION_MANAGER = NS(api_client=Api(), component_graph=None)
    try:
        async def go():
            f = await LatestBatteryMetricsFetcher.async_new(
                bid, [M.CAPACITY, M.SOC_LOWER_BOUND, M.SOC_UPPER_BOUND, M.SOC])
            return await f.fetch_next()
        return _loop().run_until_complete(go())
    finally:
        connection_manager._CONNECTION_MANAGER = old


def metrics_data(bats, fetch, num):
    M, CMD, _, _ = _imports()
    keys = {"cap": M.CAPACITY, "lo": M.SOC_LOWER_BOUND, "hi": M.SOC_UPPER_BOUND, "soc": M.SOC}
    md = {}
    for b in bats:
        if not b["present"]:
            continue
        if fetch:
            md[b["id"]] = _fetch(b["id"], b, num)
        else:
            md[b["id"]] = CMD(b["id"], NOW, {keys[k]: num(fr(b[k])) for k in FIELDS if fr(b[k]) is not None})
    return md


def calc_both(bats, fetch, num):
    _, _, SoC, Cap = _imports()
    ids = {b["id"] for b in bats}
    working = {b["id"] for b in bats if b["working"]}
    md = metrics_data(bats, fetch, num)
    s = SoC(ids).calculate(md, set(working)).value
    c = Cap(ids).calculate(md, set(working)).value
    return (None if s is None else s.as_percent(), None if c is None else c.as_watt_hours())


def run_case(case):
    fetch = bool(case.get("fetch"))
    out = {"variants": []}
    worst = "ok"
    for k, bats in [("base", case["bats"])] + [("v", v["bats"]) for v in case.get("variants", [])]:
        s, c = calc_both(bats, fetch, X)
        fs, fc = calc_both(bats, fetch, float)
        s, c = (None if s is None else to_frac(s)), (None if c is None else to_frac(c))
        for e, f_ in ((s, fs), (c, fc)):
            if (e is None) != (f_ is None):
                dev = "bad"
            elif e is None:
                dev = "ok"
            else:
                dev = "ok" if abs(float(e) - f_) <= 1e-6 * max(1.0, abs(float(e))) else "bad"
            if dev == "bad":
                # with a negative capacity or inverted limits (outside the property's domain) the weights can cancel
                # exactly, and the float sum is then rounding noise: only well-formed data is judged here
                worst = "borderline" if borderline(bats) or not wf(bats) else "bad"
        rec = {"soc": enc(s), "cap": enc(c)}
        if k == "base":
            out.update(rec)
        else:
            out["variants"].append(rec)
    out["float"] = worst
    return out


# ----------------------------------------------------------------------------- independent arithmetic
def q_soc(b):
    return b["working"] and b["present"] and all(fr(b[k]) is not None for k in FIELDS)


def q_cap(b):
    return b["working"] and b["present"] and all(fr(b[k]) is not None for k in ("cap", "lo", "hi"))


def isclose_q(a, b, rel=TOL, abs_=F(0)):
    return abs(a - b) <= max(rel * abs(a), rel * abs(b), abs_)


def totals(bats):
    """(used_x100, total_x100) of the documented formula; hi == lo batteries contribute 0"""
    used = total = F(0)
    for b in bats:
        if not q_soc(b):
            continue
        cap, lo, hi, soc = (fr(b[k]) for k in FIELDS)
        u = cap * (hi - lo)
        if hi != lo:
            sc = min(max(F(0), (soc - lo) / (hi - lo) * 100), F(100))
            used += u * sc
        total += u
    return used, total


def wf(bats):
    return all(fr(b["lo"]) <= fr(b["hi"]) and fr(b["cap"]) >= 0 for b in bats if q_soc(b))


def limits_ok(bats):
    """no qualifying battery has distinct limits that math.isclose calls equal"""
    return all(fr(b["hi"]) == fr(b["lo"]) or not isclose_q(fr(b["hi"]), fr(b["lo"])) for b in bats if q_soc(b))


def borderline(bats):
    """within 10 % of a tolerance threshold of the code: float and exact runs may differ"""
    used, total = totals(bats)
    near = lambda x, t: t != 0 and F(9, 10) <= abs(x) / t <= F(11, 10)
    if near(total, TOL):
        return True
    for b in bats:
        if q_soc(b):
            lo, hi = fr(b["lo"]), fr(b["hi"])
            if hi != lo and near(hi - lo, TOL * max(abs(hi), abs(lo))):
                return True
    if total != 0 and near(used / total - 100, TOL * 100):
        return True
    return False


def oracle_c18(case, obs):
    out = []
    hit = lambda w: out.append({"what": w, "finding": None})
    sets = [("base", case["bats"], obs)] + [(f"variant{i}", v["bats"], o)
                                            for i, (v, o) in enumerate(zip(case.get("variants", []), obs["variants"]))]
    for name, bats, o in sets:
        soc, cap = fr(o["soc"]), fr(o["cap"])
        # None exactly when no battery qualifies
        if (soc is None) != (not any(q_soc(b) for b in bats)):
            hit(f"none: {name}: SoC is {soc} but qualifying batteries = {[b['id'] for b in bats if q_soc(b)]}")
        if (cap is None) != (not any(q_cap(b) for b in bats)):
            hit(f"none: {name}: capacity is {cap} but qualifying batteries = {[b['id'] for b in bats if q_cap(b)]}")
        # capacity = documented sum of usable capacities
        if cap is not None:
            doc = sum((fr(b["cap"]) * (fr(b["hi"]) - fr(b["lo"])) / 100 for b in bats if q_cap(b)), F(0))
            if cap != doc:
                hit(f"spec: {name}: capacity {cap} differs from the documented sum of usable capacities {doc}")
        if soc is None:
            continue
        # range
        if wf(bats) and not (0 <= soc <= 100):
            hit(f"range: {name}: SoC {soc} outside [0, 100]")
        # documented weighted mean (defined when the total usable capacity is not ~0)
        used, total = totals(bats)
        if abs(total) > TOL and limits_ok(bats):
            doc = used / total
            if soc != doc and not (soc == 100 and isclose_q(doc, F(100))):
                hit(f"spec: {name}: SoC {soc} differs from the documented usable-capacity-weighted mean {doc}")
    base_soc = fr(obs["soc"])
    _, base_total = totals(case["bats"])
    for i, (v, o) in enumerate(zip(case.get("variants", []), obs["variants"])):
        vs = fr(o["soc"])
        if v["kind"] == "mono" and base_soc is not None and vs is not None and wf(case["bats"]) and wf(v["bats"]):
            if vs < base_soc:
                hit(f"mono: raising battery {v.get('id')}'s SoC lowered the pool SoC from {base_soc} to {vs}")
        if v["kind"] == "scale" and base_soc is not None:
            _, vt = totals(v["bats"])
            if (abs(base_total) > TOL) == (abs(vt) > TOL) and vs != base_soc:
                hit(f"scale: scaling all capacities by {fr(v.get('k'))} changed the pool SoC from {base_soc} to {vs}")
        if v["kind"] == "excl":
            if vs != base_soc or fr(o["cap"]) != fr(obs["cap"]):
                hit(f"excl: changing a non-working / incomplete battery changed the result "
                    f"(SoC {base_soc} -> {vs}, capacity {fr(obs['cap'])} -> {fr(o['cap'])})")
    if obs.get("float") == "bad":
        hit("float: the float run deviates from the exact run by more than 1e-6 away from every tolerance threshold")
    return out


# ----------------------------------------------------------------------------- Coq rendering
def c_bat(b):
    f = lambda v: copt(fr(v), cQ)
    return f"(mkBat {cbool(b['working'])} {cbool(b['present'])} {f(b['cap'])} {f(b['lo'])} {f(b['hi'])} {f(b['soc'])})"


def c_bats(bats):
    return "[" + "; ".join(c_bat(b) for b in bats) + "]"


HEADER = """From Coq Require Import QArith.
From Verif Require Import model.Common model.PoolMetrics.
Open Scope Q_scope.
(* (batteries, expected SoC, expected capacity) for the base input and every variant *)
Definition check1 (c : list bat * option Q * option Q) : bool :=
  let '(bs, es, ec) := c in optQ_eqb (soc_calc bs) es && optQ_eqb (cap_calc bs) ec.
Definition check (c : list (list bat * option Q * option Q)) : bool := forallb check1 c.
(* integration stream: per checkpoint the snapshot of the pool (who is working, whose data is
   streaming, the latest metrics) and the latest value each REQUESTED stream has emitted
   (outer None = stream not requested yet; "nothing emitted so far" is rendered as inner None) *)
Definition check_pool1 (c : list bat * option (option Q) * option (option Q)) : bool :=
  let '(bs, es, ec) := c in
  match es with Some e => optQ_eqb (soc_calc bs) e | None => true end &&
  match ec with Some e => optQ_eqb (cap_calc bs) e | None => true end.
Definition check_pool (c : list (list bat * option (option Q) * option (option Q))) : bool := forallb check_pool1 c.
"""


def case_term(case, obs):
    one = lambda bats, o: f"({c_bats(bats)}, {copt(fr(o['soc']), cQ)}, {copt(fr(o['cap']), cQ)})"
    items = [one(case["bats"], obs)] + [one(v["bats"], o) for v, o in zip(case.get("variants", []), obs["variants"])]
    return "[" + "; ".join(items) + "]"


# ----------------------------------------------------------------------------- generation
def gen_bat(rng, bid, fetch):
    lo = rng.choice([F(0), F(5), F(10), F(20), F(50), F(100, 3)])
    r = rng.random()
    if r < 0.15:
        hi = lo
    elif r < 0.18 and lo != 0:
        hi = lo * (1 + rng.choice([F(1, 2 * 10 ** 9), F(2, 10 ** 9)]))  # inside / outside math.isclose (never on the threshold: binary64 rounding decides there)
    elif r < 0.21:
        hi = lo - rng.choice([1, 10])  # reversed limits (not well-formed)
    else:
        hi = max(lo, rng.choice([F(80), F(90), F(95), F(100), lo + F(1, 3)]))
    r = rng.random()
    if r < 0.15:
        cap = F(0)
    elif r < 0.18:
        cap = -rng.choice([F(1), F(10)])  # not well-formed
    else:
        cap = rng.choice([F(1), F(10), F(1000), F(7, 3), F(5000), F(1, 10)])
    d = rng.choice([F(1, 1000), F(1), F(5)])
    soc = rng.choice([lo - d, lo, lo + d, (lo + hi) / 2, hi - d, hi, hi + d, F(rng.randint(-20, 1200), 10), F(rng.randint(0, 300), 7)])
    b = {"id": bid, "working": rng.random() < 0.8, "present": rng.random() < 0.9,
         "cap": enc(cap), "lo": enc(lo), "hi": enc(hi), "soc": enc(soc)}
    for k in FIELDS:
        if rng.random() < 0.06:
            b[k] = "nan" if (fetch and rng.random() < 0.7) else None
    return b


def gen_case(rng):
    fetch = rng.random() < 0.25
    n = rng.choice([0, 1, 1, 2, 2, 3, 3, 4, 5, 6])
    ids = rng.sample(range(1, 40), n)
    bats = [gen_bat(rng, i, fetch) for i in ids]
    # sometimes push the total usable capacity to the zero-capacity guard (1e-9 on capacity x 100)
    if bats and rng.random() < 0.12:
        _, total = totals(bats)
        if total > 0:
            target = rng.choice([TOL / 2, TOL, TOL * 2, TOL / 1000])
            for b in bats:
                if fr(b["cap"]) is not None:
                    b["cap"] = enc(fr(b["cap"]) * target / total)
    case = {"bats": bats, "fetch": fetch, "variants": []}
    quals = [b for b in bats if q_soc(b)]
    cp = lambda: [dict(b) for b in bats]
    if quals:
        t = rng.choice(quals)
        delta = rng.choice([F(1, 1000), F(1, 2), F(3), F(20), F(200)])
        vb = cp()
        for b in vb:
            if b["id"] == t["id"]:
                b["soc"] = enc(fr(b["soc"]) + delta)
        case["variants"].append({"kind": "mono", "id": t["id"], "bats": vb})
        k = rng.choice([F(1, 1000), F(1, 2), F(3), F(1000), F(1, 10 ** 12), F(10 ** 12), F(1, 10 ** 9)])
        vb = cp()
        for b in vb:
            if fr(b["cap"]) is not None:
                b["cap"] = enc(fr(b["cap"]) * k)
        case["variants"].append({"kind": "scale", "k": enc(k), "bats": vb})
    # excluded batteries do not influence the result: drop / alter / add a non-qualifying battery
    vb = cp()
    nonq = [b for b in vb if not q_cap(b)]
    r = rng.random()
    if nonq and r < 0.4:
        vb.remove(rng.choice(nonq))
    elif nonq and r < 0.7:
        b = rng.choice(nonq)
        for k in FIELDS:
            if fr(b[k]) is not None:
                b[k] = enc(fr(b[k]) * 3 + 7)
    else:
        extra = gen_bat(rng, 90 + rng.randrange(5), fetch)
        if rng.random() < 0.5:
            extra["working"] = False
        elif rng.random() < 0.5:
            extra["present"] = False
        else:
            extra[rng.choice(("cap", "lo", "hi"))] = None
        vb.insert(rng.randrange(len(vb) + 1), extra)
    case["variants"].append({"kind": "excl", "bats": vb})
    return case


def boundary_cases():
    B = lambda i, cap, lo, hi, soc, w=True, p=True: {"id": i, "working": w, "present": p, "cap": enc(cap), "lo": enc(lo), "hi": enc(hi), "soc": enc(soc)}
    out = []
    out.append({"bats": [], "fetch": False, "variants": []})
    out.append({"bats": [B(1, 100, 10, 90, 50), B(2, 50, 20, 80, 95)], "fetch": False, "variants": []})
    # equal limits: at, below, above
    for s in (19, 20, 21):
        out.append({"bats": [B(1, 100, 20, 20, s), B(2, 10, 0, 100, 30)], "fetch": False, "variants": []})
        out.append({"bats": [B(1, 100, 20, 20, s)], "fetch": False, "variants": []})
    # zero capacities only
    out.append({"bats": [B(1, 0, 10, 90, 50), B(2, 0, 0, 100, 70)], "fetch": True, "variants": []})
    # result within isclose of 100 snaps
    out.append({"bats": [B(1, 100, 0, 100, F(100) - F(1, 10 ** 8))], "fetch": False, "variants": []})
    out.append({"bats": [B(1, 100, 0, 100, F(100) - F(1, 10 ** 6))], "fetch": False, "variants": []})
    # everything missing one by one
    for k in FIELDS:
        b = B(1, 100, 10, 90, 50)
        b[k] = None
        out.append({"bats": [b, B(2, 10, 0, 100, 30, w=False)], "fetch": False, "variants": []})
        b = dict(b)
        b[k] = "nan"
        out.append({"bats": [b, B(2, 10, 0, 100, 30)], "fetch": True, "variants": []})
    return out


def shrink_case(case):
    bats = case["bats"]
    if case.get("variants"):
        yield {**case, "variants": []}
        for v in case["variants"]:
            yield {**case, "variants": [v]}
    for i in range(len(bats)):
        ids = {bats[i]["id"]}
        yield {**case, "bats": bats[:i] + bats[i + 1:],
               "variants": [{**v, "bats": [b for b in v["bats"] if b["id"] not in ids]} for v in case.get("variants", [])
                            if v.get("id") not in ids]}
    if case.get("fetch"):
        yield {**case, "fetch": False}


class PoolMetricsStream(Stream):
    name = "metrics"
    coq_header = HEADER
    n_quick = 2500
    n_thorough = 40000

    def gen(self, rng, tier):
        yield from boundary_cases()
        n = self.n_quick if tier == "quick" else self.n_thorough
        for _ in range(n):
            yield gen_case(rng)

    def run_impl(self, case):
        try:
            return run_case(case)
        except Exception as exc:  # the calculators never raise on the unchanged tree; a mutant may
            return {"error": f"{type(exc).__name__}: {exc}"}

    def to_coq(self, case, obs):
        return None if "error" in obs else case_term(case, obs)

    def show_term(self, case, obs):
        return f"(soc_calc {c_bats(case['bats'])}, cap_calc {c_bats(case['bats'])})"

    def oracle(self, case, obs):
        if "error" in obs:
            return [{"what": f"crash: the calculators raised {obs['error']}", "finding": None}]
        return oracle_c18(case, obs)

    def shrink(self, case):
        return shrink_case(case)

    def key(self, case, obs):
        if "error" in obs or (obs["soc"] is None and obs["cap"] is None):
            return None
        return json.dumps(case["bats"], sort_keys=True)

    def labels(self, case, obs):
        if "error" in obs:
            return ["impl_error"]
        bats = case["bats"]
        out = [f"batteries={len(bats)}", f"qualifying={sum(1 for b in bats if q_soc(b))}"]
        if case.get("fetch"):
            out.append("via_fetcher")
        if any(b[k] == "nan" for b in bats for k in FIELDS):
            out.append("nan_metric")
        if any(b[k] is None for b in bats for k in FIELDS):
            out.append("missing_metric")
        if any(not b["working"] for b in bats):
            out.append("non_working")
        if any(not b["present"] for b in bats):
            out.append("absent_from_metrics_data")
        qs = [b for b in bats if q_soc(b)]
        if any(fr(b["hi"]) == fr(b["lo"]) for b in qs):
            out.append("equal_limits")
        if any(fr(b["hi"]) != fr(b["lo"]) and isclose_q(fr(b["hi"]), fr(b["lo"])) for b in qs):
            out.append("nearly_equal_limits")
        if any(not (fr(b["lo"]) <= fr(b["soc"]) <= fr(b["hi"])) for b in qs):
            out.append("soc_outside_limits")
        if any(fr(b["cap"]) == 0 for b in qs):
            out.append("zero_capacity")
        if qs and abs(totals(bats)[1]) <= TOL:
            out.append("total_capacity_close_to_zero")
        if not wf(bats):
            out.append("not_wellformed")
        if obs["soc"] is None:
            out.append("soc_none")
        elif fr(obs["soc"]) in (0, 100):
            out.append("soc_at_0_or_100")
        out += [f"variant_{v['kind']}" for v in case.get("variants", [])]
        if obs.get("float") != "ok":
            out.append(f"float_{obs.get('float')}")
        return out


# ----------------------------------------------------------------------------- integration stream
# A real BatteryPoolReferenceStore + BatteryPool (pool.soc / pool.capacity -> SendOnUpdate ->
# LatestBatteryMetricsFetcher -> calculators) wired to an in-process fake microgrid on
# async_solipsism virtual time.  The harness controls the battery status channel and the
# component data channels; a script varies the ORDER of status messages, first requests of the
# metric streams, metric changes and batteries whose data stops / turns NaN.
#
# Case (JSON): {"pool": [battery ids], "init": {"<id>": D | None}, "script": [OP, ...], "producer": P}
#   P  = how status messages are produced: "fresh" (a new ComponentPoolStatus per message), "mutate" (ONE
#        ComponentPoolStatus object whose sets are mutated in place and which is re-sent, as the SDK's
#        ComponentPoolStatusTracker does), "tracker" (the real ComponentPoolStatusTracker feeding the channel,
#        driven through scripted per-battery status trackers: one message per battery whose status changes)
#   "consumers": n  = number of BatteryPool instances sharing the ONE BatteryPoolReferenceStore (as
#        microgrid.new_battery_pool does for equal battery sets); a request OP names its consumer: "who": k
#   "tz": None | ["offset", minutes] | ["zone", name] = time zone of the component data timestamps; None keeps the
#        fixed 2020 UTC stamps, otherwise the stamps are the current instant expressed in that (aware, non-UTC) zone
#   a status OP may carry "uncertain": [ids]; ComponentPoolStatus.get_working_components falls back to the
#   uncertain batteries when none of the pool's batteries is working
#   D  = {"cap": V, "lo": V, "hi": V, "soc": V}      V = [num, den] | "nan"      (None = silent at start)
#   OP = {"op": "status", "working": [ids]} | {"op": "request", "what": "soc" | "capacity"}
#      | {"op": "data", "id": b, "d": D} | {"op": "silence", "id": b} | {"op": "resume", "id": b}
#      | {"op": "drift", "id": b, "field": "soc"|"cap"|"lo"|"hi", "rel": [n, d], "steps": N}
#      | {"op": "burst", "gap": [n, d], "ops": [OP, ...]}
#        (the sub-operations are issued `gap` virtual seconds apart - far less than the 0.5 s data period -
#         WITHOUT settling in between: status flaps faster than the data, a status right after `request`
#         and before the first data message reaches the new aggregator, ...; only the state after the
#         whole burst has settled is judged)
#        drift: (N messages 50 virtual ms apart, the field moving from v0 to v0 * (1 + k * rel), k = 1..N, with
#         nothing else happening in between: the streamed value must follow slow changes, too)
# After every OP the scenario waits SETTLE virtual seconds (longer than the fetchers' 2 s data
# timeout + the aggregator's 2 s start delay + the 0.5 s streaming period) and records the latest
# value each requested stream has emitted; that value must be the documented aggregate of the
# snapshot at that moment (batteries working per the LAST status message and currently streaming
# complete data).
SETTLE = 6.0
PERIOD = 0.5
BASE_TS = datetime(2020, 1, 1, tzinfo=timezone.utc)


def _pool_imports():
    import async_solipsism
    from datetime import timedelta
    from frequenz.channels import Broadcast
    from frequenz.client.microgrid import (BatteryComponentState, BatteryData, BatteryRelayState, Component,
                                           ComponentCategory, Connection, InverterType)
    from frequenz.sdk._internal._channels import ChannelRegistry
    from frequenz.sdk.microgrid import connection_manager
    from frequenz.sdk.microgrid._power_distributing import ComponentPoolStatus
    from frequenz.sdk.microgrid._power_distributing._component_pool_status_tracker import ComponentPoolStatusTracker
    from frequenz.sdk.microgrid._power_distributing._component_status import (ComponentStatus, ComponentStatusEnum,
                                                                             ComponentStatusTracker)
    from frequenz.sdk.actor import BackgroundService
    from frequenz.sdk.microgrid.component_graph import _MicrogridComponentGraph
    from frequenz.sdk.timeseries.battery_pool import BatteryPool
    from frequenz.sdk.timeseries.battery_pool._battery_pool_reference_store import BatteryPoolReferenceStore
    return NS(**locals())


def snapshots(case):
    """Independent bookkeeping: the pool's state after each script step."""
    working = set()                       # BatteryPoolReferenceStore starts with no working battery
    data = {int(k): (None if v is None else dict(v)) for k, v in case["init"].items()}
    silent = {b for b, v in data.items() if v is None}
    last = {b: v for b, v in data.items() if v is not None}
    requested = set()
    out = []
    st = {"working": working}

    def apply(op):
        k = op["op"]
        if k == "status":
            w = set(op["working"]) & set(case["pool"])
            st["working"] = w if w else (set(op.get("uncertain", [])) - set(op["working"])) & set(case["pool"])
        elif k == "request":
            requested.add(f"{op['what']}@{op.get('who', 0)}")
        elif k == "data":
            last[op["id"]] = dict(op["d"])
            silent.discard(op["id"])
        elif k == "silence":
            silent.add(op["id"])
        elif k == "resume":
            if op["id"] in last:
                silent.discard(op["id"])
        elif k == "drift":
            d = last.get(op["id"])
            if d is not None and op["id"] not in silent and fr(d[op["field"]]) is not None:
                last[op["id"]] = {**d, op["field"]: enc(fr(d[op["field"]]) * (1 + op["steps"] * fr(op["rel"])))}
        elif k == "burst":
            for sub in op["ops"]:
                apply(sub)

    for op in case["script"]:
        apply(op)
        working = st["working"]
        bats = []
        for b in sorted(case["pool"]):
            d = last.get(b)
            streaming = b not in silent and d is not None
            dd = d if streaming else {"cap": None, "lo": None, "hi": None, "soc": None}
            # a silent battery stays a key of the cache, with empty metrics (fetcher timeout)
            bats.append({"id": b, "working": b in working, "present": True, **{f: dd[f] for f in FIELDS}})
        out.append({"bats": bats, "requested": sorted(requested)})
    return out


def run_pool(case):
    I = _pool_imports()
    pool_ids = sorted(case["pool"])

    class Api:
        def __init__(self):
            self.ch = {}

        def chan(self, cid):
            if cid not in self.ch:
                self.ch[cid] = I.Broadcast(name=f"data-{cid}")
            return self.ch[cid]

        async def battery_data(self, cid, maxsize=50):
            return self.chan(cid).new_receiver(limit=maxsize)

        async def inverter_data(self, cid, maxsize=50):
            return self.chan(cid).new_receiver(limit=maxsize)

    comps = {I.Component(1, I.ComponentCategory.GRID), I.Component(2, I.ComponentCategory.METER)}
    conns = {I.Connection(1, 2)}
    for b in pool_ids:
        inv = 1000 + b
        comps |= {I.Component(inv, I.ComponentCategory.INVERTER, I.InverterType.BATTERY), I.Component(b, I.ComponentCategory.BATTERY)}
        conns |= {I.Connection(2, inv), I.Connection(inv, b)}
    api = Api()
    fake = NS(component_graph=I._MicrogridComponentGraph(comps, conns), api_client=api)

    async def scenario():
        import asyncio as aio
        loop = aio.get_running_loop()
        status = I.Broadcast(name="battery-status", resend_latest=True)
        status_tx = status.new_sender()
        unused = I.Broadcast(name="unused")
        store = I.BatteryPoolReferenceStore(
            channel_registry=I.ChannelRegistry(name="verif"), resampler_subscription_sender=unused.new_sender(),
            batteries_status_receiver=status.new_receiver(limit=1), power_manager_requests_sender=unused.new_sender(),
            power_manager_bounds_subscription_sender=unused.new_sender(), power_distribution_results_fetcher=unused,
            min_update_interval=I.timedelta(seconds=0.2), batteries_id=set(pool_ids))
        pools = [I.BatteryPool(pool_ref_store=store, name=f"verif{k}", priority=k + 1, set_operating_point=False)
                 for k in range(case.get("consumers", 1))]
        tzspec = case.get("tz")
        if tzspec is None:
            stamp = lambda: BASE_TS + I.timedelta(seconds=loop.time())
        else:
            if tzspec[0] == "offset":
                tz = timezone(I.timedelta(minutes=tzspec[1]))
            else:
                from zoneinfo import ZoneInfo
                tz = ZoneInfo(tzspec[1])
            stamp = lambda: datetime.now(tz=timezone.utc).astimezone(tz)
        cur = {int(k): (None if v is None else dict(v)) for k, v in case["init"].items()}
        silent = {b for b, v in cur.items() if v is None}
        senders = {b: api.chan(b).new_sender() for b in pool_ids}
        val = lambda v: math.nan if v == "nan" or v is None else X(F(v[0], v[1]))

        async def send_now(b):
            d = cur.get(b)
            if b in silent or d is None:
                return
            await senders[b].send(I.BatteryData(
                component_id=b, timestamp=stamp(),
                soc=val(d["soc"]), soc_lower_bound=val(d["lo"]), soc_upper_bound=val(d["hi"]), capacity=val(d["cap"]),
                power_inclusion_lower_bound=-1000.0, power_exclusion_lower_bound=0.0,
                power_inclusion_upper_bound=1000.0, power_exclusion_upper_bound=0.0, temperature=20.0,
                relay_state=I.BatteryRelayState.CLOSED, component_state=I.BatteryComponentState.IDLE, errors=[]))

        async def streamer():
            while True:
                for b in pool_ids:
                    await send_now(b)
                await aio.sleep(PERIOD)

        logs = {}
        tasks = [aio.create_task(streamer())]
        producer = case.get("producer", "fresh")
        shared = I.ComponentPoolStatus(working=set(), uncertain=set())      # "mutate": the one object that is re-sent
        pst, scripted, state = None, {}, {}
        if producer == "tracker":
            class Scripted(I.ComponentStatusTracker, I.BackgroundService):  # per-battery tracker the script speaks through
                def __init__(self, component_id, max_data_age, max_blocking_duration, status_sender, set_power_result_receiver):
                    I.BackgroundService.__init__(self, name=f"scripted-{component_id}")
                    self.sender = status_sender
                    scripted[component_id] = self

                def start(self):
                    pass
            pst = I.ComponentPoolStatusTracker(component_ids=set(pool_ids), component_status_sender=status_tx,
                                               max_data_age=I.timedelta(seconds=10), max_blocking_duration=I.timedelta(seconds=30),
                                               component_status_tracker_type=Scripted)
            await aio.sleep(0)

        async def send_status(op):
            w, u = set(op["working"]), set(op.get("uncertain", [])) - set(op["working"])
            if producer == "fresh":
                await status_tx.send(I.ComponentPoolStatus(working=set(w), uncertain=set(u)))
            elif producer == "mutate":
                shared.working.clear(); shared.working.update(w)
                shared.uncertain.clear(); shared.uncertain.update(u)
                await status_tx.send(shared)
            else:
                E = I.ComponentStatusEnum
                for b in pool_ids:
                    want = E.WORKING if b in w else (E.UNCERTAIN if b in u else E.NOT_WORKING)
                    if state.get(b, E.NOT_WORKING) != want:
                        state[b] = want
                        await scripted[b].sender.send(I.ComponentStatus(b, want))

        async def collect(key, rx):
            async for smp in rx:
                v = smp.value
                if v is not None:
                    v = v.as_percent() if key.startswith("soc") else v.as_watt_hours()
                logs[key].append([round(loop.time(), 3), None if v is None else enc(to_frac(v))])

        checkpoints = []
        try:
            async def do(op):
                k = op["op"]
                if k == "status":
                    await send_status(op)
                elif k == "request":
                    key = f"{op['what']}@{op.get('who', 0)}"
                    if key not in logs:
                        bp = pools[op.get("who", 0)]
                        fetcher = bp.soc if op["what"] == "soc" else bp.capacity
                        logs[key] = []
                        tasks.append(aio.create_task(collect(key, fetcher.new_receiver()), name=key))
                elif k == "data":
                    cur[op["id"]] = dict(op["d"])
                    silent.discard(op["id"])
                elif k == "silence":
                    silent.add(op["id"])
                elif k == "resume":
                    if cur.get(op["id"]) is not None:
                        silent.discard(op["id"])
                elif k == "drift":
                    b, d0 = op["id"], cur.get(op["id"])
                    if d0 is not None and b not in silent and fr(d0[op["field"]]) is not None:
                        v0, rel = fr(d0[op["field"]]), fr(op["rel"])
                        for step in range(1, op["steps"] + 1):
                            cur[b] = {**d0, op["field"]: enc(v0 * (1 + step * rel))}
                            await send_now(b)
                            await aio.sleep(0.05)
                elif k == "burst":
                    for sub in op["ops"]:
                        await do(sub)
                        await aio.sleep(float(fr(op["gap"])))

            for op in case["script"]:
                await do(op)
                await aio.sleep(SETTLE)
                checkpoints.append({w: (["none-yet"] if not logs[w] else [logs[w][-1][1]]) for w in sorted(logs)})
        finally:
            for t in tasks:
                t.cancel()
            await aio.gather(*tasks, return_exceptions=True)
            if pst is not None:
                await pst.stop()
            await store.stop()
        return {"checkpoints": checkpoints, "emitted": {w: len(v) for w, v in logs.items()}}

    import asyncio as aio
    old = I.connection_manager._CONNECTION_MANAGER
    I.connection_manager._CONNECTION_MANAGER = fake
    try:
        with aio.Runner(loop_factory=I.async_solipsism.EventLoop) as runner:
            return runner.run(scenario())
    finally:
        I.connection_manager._CONNECTION_MANAGER = old


def gen_pool_case(rng):
    n = rng.choice([1, 2, 2, 3, 3, 4])
    pool = sorted(rng.sample(range(3, 30), n))

    def gen_d(allow_nan=True):
        b = gen_bat(rng, 0, True)
        d = {f: (b[f] if b[f] is not None else "nan") for f in FIELDS}
        if not allow_nan:
            d = {f: (enc(F(50)) if v == "nan" else v) for f, v in d.items()}
        return d
    init = {str(b): (None if rng.random() < 0.1 else gen_d(rng.random() < 0.5)) for b in pool}
    subset = lambda: sorted(b for b in pool if rng.random() < 0.65)
    producer = rng.choice(["fresh", "mutate", "mutate", "tracker", "tracker"])
    script = []
    # the order of the first status and the first requests is the point: draw their positions freely
    core = [{"op": "request", "what": "soc"}, {"op": "request", "what": "capacity"}]
    if rng.random() < 0.9:
        core.append({"op": "status", "working": subset() if rng.random() < 0.7 else list(pool)})
    rng.shuffle(core)
    script += core
    for _ in range(rng.randint(1, 4)):
        r = rng.random()
        b = rng.choice(pool)
        if r < 0.4:
            script.append({"op": "status", "working": subset()})
        elif r < 0.65:
            script.append({"op": "data", "id": b, "d": gen_d()})
        elif r < 0.85:
            script.append({"op": "silence", "id": b})
        else:
            script.append({"op": "resume", "id": b})
    if rng.random() < 0.35:
        # status flapping faster than the data (0.5 s period), optionally right after a request / with a
        # data change or a battery falling silent in the middle
        gap = rng.choice([F(1, 100), F(1, 20), F(1, 10), F(3, 20)])
        flap = rng.choice(pool)
        subs = []
        for j in range(rng.randint(2, 4)):
            if rng.random() < 0.6:   # flap one battery: out, in, out, ...
                base = set(subset()) | {flap}
                w = sorted(base - {flap}) if j % 2 == 0 else sorted(base)
            else:
                w = subset()
            subs.append({"op": "status", "working": w})
        r = rng.random()
        if r < 0.25:
            subs.insert(rng.randrange(len(subs) + 1), {"op": "silence", "id": rng.choice(pool)})
        elif r < 0.4:
            subs.insert(rng.randrange(len(subs) + 1), {"op": "data", "id": rng.choice(pool), "d": gen_d()})
        burst = {"op": "burst", "gap": enc(gap), "ops": subs}
        r = rng.random()
        if r < 0.35:
            # put the first request of a stream INTO the burst: status changes hit a brand-new aggregator
            i = next(k for k, o in enumerate(script) if o["op"] == "request")
            burst["ops"].insert(0, script.pop(i))
            script.insert(min(i, len(script)), burst)
        else:
            script.insert(rng.randint(0, len(script)), burst)
    if rng.random() < 0.09:
        # a metric drifting in many small steps with no other event in between; mostly short, a few long
        steps = rng.choice([20, 20, 20, 50, 50, 200, 200, 200, 1000, 1000, 1000, 4000])
        rel = rng.choice([F(1, 10 ** 6), F(1, 10 ** 5), F(5, 10 ** 5), F(1, 10 ** 4), F(1, 10 ** 3)]) * rng.choice([1, 1, -1])
        if steps * abs(rel) > 2:
            rel = rel / 10
        script.append({"op": "drift", "id": rng.choice(pool), "field": rng.choice(["soc", "soc", "cap", "lo", "hi"]),
                       "rel": enc(rel), "steps": steps})
        if rng.random() < 0.3:
            script.append({"op": "status", "working": list(pool)})
            script.append({"op": "drift", "id": rng.choice(pool), "field": rng.choice(["soc", "cap"]),
                           "rel": enc(F(1, 10 ** 5)), "steps": rng.choice([50, 300])})
    if rng.random() < 0.3:  # sometimes drop one of the requests / move it to the very end
        i = next(k for k, o in enumerate(script) if o["op"] == "request")
        script.append(script.pop(i))
    consumers = rng.choice([1, 1, 2, 2, 3])
    if consumers > 1:
        reqs = [o for o in script if o["op"] == "request"] + [x for o in script if o["op"] == "burst" for x in o["ops"] if x["op"] == "request"]
        for o in reqs:
            o["who"] = rng.randrange(consumers)
        # the same metric requested by another pool instance on the same store, at any point of the script
        for _ in range(rng.randint(1, 2)):
            o = rng.choice(reqs)
            other = rng.choice([k for k in range(consumers) if k != o["who"]])
            script.insert(rng.randint(0, len(script)), {"op": "request", "what": o["what"], "who": other})
        if rng.random() < 0.7:
            script.append({"op": "status", "working": subset()})
    r = rng.random()
    tz = None if r < 0.45 else (["offset", rng.choice([120, 60, 330, 765, 540, -300, -480, -210])] if r < 0.8
                                else ["zone", rng.choice(["Europe/Berlin", "Asia/Kolkata", "America/New_York", "Australia/Sydney"])])
    if tz is not None and rng.random() < 0.7:
        # something must change after the first samples for a stalled stream to show
        b = rng.choice(pool)
        script.append({"op": "data", "id": b, "d": gen_d(False)})
        script.append({"op": "status", "working": subset()})

    def add_uncertain(ops):
        for o in ops:
            if o["op"] == "burst":
                add_uncertain(o["ops"])
            elif o["op"] == "status" and rng.random() < 0.15:
                o["uncertain"] = sorted(b for b in pool if b not in o["working"] and rng.random() < 0.6)
                if rng.random() < 0.5:
                    o["working"] = []
    add_uncertain(script)
    return {"pool": pool, "init": init, "script": script, "producer": producer, "consumers": consumers, "tz": tz}


def pool_boundary_cases():
    out = []
    for c in _pool_boundary_cases():
        for producer in ("fresh", "mutate", "tracker"):
            if producer == "fresh" or any(o["op"] in ("status", "burst") for o in c["script"]):
                out.append({**c, "producer": producer})
    return out


def _pool_boundary_cases():
    yield from _pool_boundary_cases0()
    D = lambda cap, lo, hi, soc: {"cap": enc(F(cap)), "lo": enc(F(lo)), "hi": enc(F(hi)), "soc": enc(F(soc))}
    init = {"5": D(1000, 10, 90, 50), "8": D(3000, 10, 90, 90)}
    R = lambda w, k: {"op": "request", "what": w, "who": k}
    S = lambda *w: {"op": "status", "working": list(w)}
    # two pool instances on one store request the same metrics, then the status changes
    yield {"pool": [5, 8], "init": init, "consumers": 2,
           "script": [S(5, 8), R("soc", 0), R("capacity", 0), R("soc", 1), R("capacity", 1), S(5), S()]}
    # component data stamped in aware non-UTC zones; data and status change after the first samples
    for tz in (["offset", 120], ["offset", -300], ["zone", "Asia/Kolkata"]):
        yield {"pool": [5, 8], "init": init, "tz": tz,
               "script": [S(5, 8), R("soc", 0), R("capacity", 0), {"op": "data", "id": 5, "d": D(1000, 10, 90, 70)}, S(5)]}


def _pool_boundary_cases0():
    D = lambda cap, lo, hi, soc: {"cap": enc(F(cap)), "lo": enc(F(lo)), "hi": enc(F(hi)), "soc": enc(F(soc))}
    init = {"5": D(1000, 10, 90, 50), "8": D(3000, 10, 90, 90)}
    R = lambda w: {"op": "request", "what": w}
    S = lambda *w: {"op": "status", "working": list(w)}
    return [
        # status with a non-working battery first, metric streams requested only afterwards, status never repeated
        {"pool": [5, 8], "init": init, "script": [S(5), R("capacity"), R("soc")]},
        # requests first, status afterwards
        {"pool": [5, 8], "init": init, "script": [R("capacity"), R("soc"), S(5), S(5, 8), S(8)]},
        # no status at all: nothing is known to work
        {"pool": [5, 8], "init": init, "script": [R("soc"), R("capacity")]},
        # battery 8 flaps (out, in, out) within 0.2 s while data arrives every 0.5 s; later statuses must still count
        {"pool": [5, 8], "init": init, "script": [S(5, 8), R("soc"), R("capacity"),
                                                 {"op": "burst", "gap": [1, 10], "ops": [S(5), S(5, 8), S(5)]}, S(5, 8), S(8)]},
        # a battery reported not working right after the stream is created, before its first data message
        {"pool": [5, 8], "init": init, "script": [S(5, 8), {"op": "burst", "gap": [1, 100], "ops": [R("capacity"), R("soc"), S(5)]},
                                                 S(5, 8)]},
        # battery 5 charges 40 % -> 50 % in 4000 steps of 0.0025 %, nothing else happens meanwhile
        {"pool": [5, 8], "init": {"5": D(1000, 10, 90, 40), "8": D(3000, 10, 90, 90)},
         "script": [S(5), R("soc"), R("capacity"), {"op": "drift", "id": 5, "field": "soc", "rel": enc(F(1, 16000)), "steps": 4000}]},
        # capacity fading and the upper limit creeping in steps of 1e-6 / 1e-5
        {"pool": [5, 8], "init": init,
         "script": [S(5, 8), R("capacity"), R("soc"), {"op": "drift", "id": 8, "field": "cap", "rel": enc(F(-1, 10 ** 6)), "steps": 1000},
                    {"op": "drift", "id": 5, "field": "hi", "rel": enc(F(-1, 10 ** 5)), "steps": 300}]},
        # a working battery goes silent, comes back; a metric turns NaN
        {"pool": [5, 8], "init": init, "script": [S(5, 8), R("soc"), R("capacity"), {"op": "silence", "id": 8},
                                                 {"op": "resume", "id": 8},
                                                 {"op": "data", "id": 5, "d": {**D(1000, 10, 90, 50), "soc": "nan"}}]},
    ]


class PoolIntegrationStream(Stream):
    name = "pool"
    coq_header = HEADER
    check_fn = "check_pool"
    n_quick = 400
    n_thorough = 5000

    def gen(self, rng, tier):
        yield from pool_boundary_cases()
        for _ in range(self.n_quick if tier == "quick" else self.n_thorough):
            yield gen_pool_case(rng)

    def run_impl(self, case):
        try:
            return run_pool(case)
        except Exception as exc:
            return {"error": f"{type(exc).__name__}: {exc}"}

    @staticmethod
    def _pairs(case, obs):
        for i, (snap, cp) in enumerate(zip(snapshots(case), obs["checkpoints"])):
            got = {w: (None if cp[w] == ["none-yet"] else cp[w][0]) for w in cp}
            yield i, snap, got

    def to_coq(self, case, obs):
        if "error" in obs:
            return None
        items = []
        for _, snap, got in self._pairs(case, obs):
            f = lambda w: f"(Some {copt(fr(got[w]), cQ)})" if w in got else "None"
            for who in range(case.get("consumers", 1)):
                if f"soc@{who}" in got or f"capacity@{who}" in got or who == 0:
                    items.append(f"({c_bats(snap['bats'])}, {f(f'soc@{who}')}, {f(f'capacity@{who}')})")
        return "[" + "; ".join(items) + "]"

    def oracle(self, case, obs):
        if "error" in obs:
            return [{"what": f"crash: the pool wiring raised {obs['error']}", "finding": None}]
        out = []
        for i, snap, got in self._pairs(case, obs):
            bats = snap["bats"]
            if set(got) != set(snap["requested"]):
                out.append({"what": f"pool: step {i}: streams observed {sorted(got)} but requested {snap['requested']}", "finding": None})
            for key in sorted(got):
                what, who = key.split("@")
                tag = f"pool: after step {i} ({case['script'][i]}) consumer {who}'s"
                if what == "capacity":
                    doc = sum((fr(b["cap"]) * (fr(b["hi"]) - fr(b["lo"])) / 100 for b in bats if q_cap(b)), F(0)) if any(q_cap(b) for b in bats) else None
                    if fr(got[key]) != doc:
                        out.append({"what": f"{tag} capacity stream's latest value is {fr(got[key])}, the documented aggregate of the "
                                            f"batteries working and reporting at that time {[b['id'] for b in bats if q_cap(b)]} is {doc}",
                                    "finding": None})
                    continue
                soc = fr(got[key])
                quals = [b for b in bats if q_soc(b)]
                if not quals:
                    doc, ok = None, soc is None
                else:
                    used, total = totals(bats)
                    if abs(total) <= TOL:
                        doc, ok = F(0), soc == 0
                    elif not limits_ok(bats):
                        doc, ok = "n/a (nearly equal limits)", soc is not None
                    else:
                        doc = used / total
                        ok = soc is not None and (soc == doc or (soc == 100 and isclose_q(doc, F(100))))
                if not ok:
                    out.append({"what": f"{tag} SoC stream's latest value is {soc}, the documented aggregate of the batteries working "
                                        f"and reporting at that time {[b['id'] for b in quals]} is {doc}", "finding": None})
        return out

    def show_term(self, case, obs):
        if "error" in obs:
            return None
        return "[" + "; ".join(f"(soc_calc {c_bats(s['bats'])}, cap_calc {c_bats(s['bats'])})" for s in snapshots(case)) + "]"

    def key(self, case, obs):
        if "error" in obs or not any(cp for cp in obs["checkpoints"]):
            return None
        return json.dumps(case, sort_keys=True)

    def labels(self, case, obs):
        if "error" in obs:
            return ["impl_error"]
        flat = lambda ops: [x for o in ops for x in ([o] if o["op"] != "burst" else flat(o["ops"]))]
        nb = [o for o in case["script"] if o["op"] == "burst"]
        sc = flat(case["script"])
        out = [f"pool_size={len(case['pool'])}", f"steps={len(case['script'])}", f"status_producer={case.get('producer', 'fresh')}"]
        out.append(f"status_messages={min(sum(1 for o in sc if o['op'] == 'status'), 5)}")
        if any(o["op"] == "status" and o.get("uncertain") for o in sc):
            out.append("status_with_uncertain")
        if nb:
            out.append("status_burst")
            if any(x["op"] == "request" for o in nb for x in o["ops"]):
                out.append("burst_starts_with_request")
        first_status = next((i for i, o in enumerate(sc) if o["op"] == "status"), None)
        first_req = next((i for i, o in enumerate(sc) if o["op"] == "request"), None)
        if first_status is None:
            out.append("no_status_message")
        elif first_req is not None:
            out.append("status_before_first_request" if first_status < first_req else "request_before_first_status")
            if first_status < first_req and set(sc[first_status]["working"]) != set(case["pool"]):
                out.append("first_status_has_non_working_battery_before_request")
        out += sorted({f"op_{o['op']}" for o in sc})
        for o in sc:
            if o["op"] == "drift":
                out.append(f"drift_steps>={10 ** (len(str(o['steps'])) - 1)}")
                out.append(f"drift_rel_step<=1e{math.ceil(math.log10(abs(float(fr(o['rel'])))))}")
        if any(v is None for v in case["init"].values()):
            out.append("battery_silent_from_start")
        if any(d == "nan" for v in case["init"].values() if v for d in v.values()) or any(
                d == "nan" for o in sc if o["op"] == "data" for d in o["d"].values()):
            out.append("nan_metric")
        out.append(f"consumers={case.get('consumers', 1)}")
        tzs = case.get("tz")
        out.append("timestamps=utc_2020" if tzs is None else (f"timestamps={tzs[1]}" if tzs[0] == "zone" else
                                                              f"timestamps=offset_{'east' if tzs[1] > 0 else 'west'}"))
        reqs = [(o["what"], o.get("who", 0)) for o in sc if o["op"] == "request"]
        if any(a[0] == b[0] and a[1] != b[1] for a in reqs for b in reqs):
            out.append("same_metric_requested_by_two_consumers")
        if any(v == ["none-yet"] for cp in obs["checkpoints"] for v in cp.values()):
            out.append("nothing_emitted_yet_at_some_checkpoint")
        return out

    def shrink(self, case):
        sc = case["script"]
        for i in range(len(sc)):
            yield {**case, "script": sc[:i] + sc[i + 1:]}
        for i, o in enumerate(sc):
            if o["op"] == "drift" and o["steps"] > 10:
                yield {**case, "script": sc[:i] + [{**o, "steps": o["steps"] // 4}] + sc[i + 1:]}
            if o["op"] == "burst":
                for j in range(len(o["ops"])):
                    if len(o["ops"]) > 1:
                        yield {**case, "script": sc[:i] + [{**o, "ops": o["ops"][:j] + o["ops"][j + 1:]}] + sc[i + 1:]}
        if case.get("producer", "fresh") == "tracker":
            yield {**case, "producer": "mutate"}
        if case.get("tz") is not None and case["tz"][0] == "zone":
            yield {**case, "tz": ["offset", 120]}
        for b in case["pool"]:
            if len(case["pool"]) > 1:
                yield {**case, "pool": [x for x in case["pool"] if x != b],
                       "init": {k: v for k, v in case["init"].items() if int(k) != b},
                       "script": [({**o, "working": [x for x in o["working"] if x != b],
                                    **({"uncertain": [x for x in o["uncertain"] if x != b]} if "uncertain" in o else {})}
                                   if o["op"] == "status" else o)
                                  for o in sc if o.get("id") != b]}
