"""C19: MetricFetcher with a fallback (fetch_next / fetch_next_with_fallback /
_synchronize_and_fetch_fallback, error branches) and its use inside a FormulaEngine.

Implementation side
* `fetcher` cases: the real `MetricFetcher` over scripted receivers (a sample, a raised
  ReceiverError, or "stopped" at any point) with a scripted `FallbackMetricFetcher` subclass;
  `fetch_next()` is called in a loop by a consumer task while a schedule feeds both receivers.
* `e2e` cases: a real `FormulaEngine` for  A + B  (A has the fallback, B is a plain metric) over
  real Broadcast channels; the fallback is either the scripted fetcher or the real
  `FallbackFormulaMetricFetcher` around a stub formula generator whose `generate()` returns a
  real `FormulaEngine.from_receiver(...)` on the fallback channel.
Model side: coq/model/Fallback.v.
Values: primary sample k carries k+1, fallback sample k carries (k+1)*256, B's sample k
(k+1)*65536 -- an emitted sum tells which samples produced it."""
from __future__ import annotations

import asyncio
import collections
import json
import math
from datetime import datetime, timedelta, timezone

from lib.core import cZ, cbool
from harness.evalsync import E, TICK_US, WaitOrder

INV = {"none": 0, "nan": 1, "inf": 2, "-inf": 3}
INV_BACK = {v: k for k, v in INV.items()}


def _imports():
    import async_solipsism
    from frequenz.channels import Broadcast, Receiver, ReceiverError, ReceiverStoppedError
    from frequenz.quantities import Quantity
    from frequenz.sdk.timeseries import Sample
    from frequenz.sdk.timeseries.formula_engine._formula_steps import MetricFetcher, FallbackMetricFetcher
    from frequenz.sdk.timeseries.formula_engine._formula_engine import FormulaBuilder, FormulaEngine
    return (async_solipsism, Broadcast, Receiver, ReceiverError, ReceiverStoppedError, Quantity, Sample, MetricFetcher,
            FallbackMetricFetcher, FormulaBuilder, FormulaEngine)


def mk_sample(Sample, Quantity, tick, v):
    ts = E + timedelta(microseconds=TICK_US * tick)
    if v == "none":
        return Sample(ts, None)
    if v == "nan":
        return Sample(ts, Quantity(math.nan))
    if v == "inf":
        return Sample(ts, Quantity(math.inf))
    if v == "-inf":
        return Sample(ts, Quantity(-math.inf))
    return Sample(ts, Quantity(float(v)))


def canon_sample(s):
    """[tick, value-code] of a Sample; value-code = int | 'none' | 'nan' | 'inf' | '-inf'"""
    tick = (s.timestamp - E) // timedelta(microseconds=TICK_US)
    v = s.value
    if v is None:
        return [tick, "none"]
    b = v.base_value
    if math.isnan(b):
        return [tick, "nan"]
    if math.isinf(b):
        return [tick, "inf" if b > 0 else "-inf"]
    assert b == int(b)
    return [tick, int(b)]


_CLASSES = {}


def classes():
    """scripted receiver / fallback fetcher classes (built once: they subclass /repo's ABCs)"""
    if _CLASSES:
        return _CLASSES
    (_, _, Receiver, ReceiverError, ReceiverStoppedError, _, _, _, FallbackMetricFetcher, _, _) = _imports()

    class ScriptRx(Receiver):
        """delivers pushed items: a Sample, or "E" (consume() raises ReceiverError); stop() ends it"""

        def __init__(self, name):
            self._name = name
            self._q = collections.deque()
            self._ev = asyncio.Event()
            self._stopped = False

        def push(self, item):
            self._q.append(item)
            self._ev.set()

        def stop(self):
            self._stopped = True
            self._ev.set()

        async def ready(self):
            while not self._q:
                if self._stopped:
                    return False
                self._ev.clear()
                await self._ev.wait()
            return True

        def consume(self):
            if not self._q:
                raise ReceiverStoppedError(self)
            x = self._q.popleft()
            if isinstance(x, str):
                raise ReceiverError("scripted receiver error", self)
            return x

        def __str__(self):
            return self._name

    class ScriptFB(FallbackMetricFetcher):
        """FallbackMetricFetcher over any receiver; start() only flips is_running (and is counted)"""

        def __init__(self, rx):
            self._rx = rx
            self.starts = 0

        @property
        def name(self):
            return "fallback"

        @property
        def is_running(self):
            return self.starts > 0

        def start(self):
            self.starts += 1

        async def ready(self):
            return await self._rx.ready()

        def consume(self):
            return self._rx.consume()

    _CLASSES.update(ScriptRx=ScriptRx, ScriptFB=ScriptFB)
    return _CLASSES


class _Gen:
    """stub formula generator for the real FallbackFormulaMetricFetcher"""

    def __init__(self, chan, FormulaEngine, Quantity):
        self.namespace = "fallback-gen"
        self._chan, self._FE, self._Q = chan, FormulaEngine, Quantity
        self.generated = 0

    def generate(self):
        self.generated += 1
        return self._FE.from_receiver("fallback-engine", self._chan.new_receiver(limit=50), self._Q)


# ----------------------------------------------------------------------------- fetcher-level driver
def run_fetcher(case):
    """case: {"prim": {"items": [[tick, val] | "E", ...], "closed": bool}, "fb": {...}, "calls": N,
              "sched": [["s", 0|1] | ["y", k] | ["p"] | ["c"]]}
    Returns {"res": [["r", tick, val] | ["n"] | ["x", exc]], "starts": int}"""
    (async_solipsism, _, _, ReceiverError, _, Quantity, Sample, MetricFetcher, _, _, _) = _imports()
    C = classes()
    res = {}

    async def main():
        rx = [C["ScriptRx"]("primary"), C["ScriptRx"]("fallback-stream")]
        fbf = C["ScriptFB"](rx[1])
        mf = MetricFetcher("A", rx[0], nones_are_zeros=False, fallback=fbf)
        specs = [case["prim"], case["fb"]]
        sent = [0, 0]
        results = []
        task = None

        async def consumer():
            for _ in range(case["calls"]):
                try:
                    r = await mf.fetch_next()
                except Exception as e:  # pylint: disable=broad-except
                    results.append(["x", type(e).__name__ if not isinstance(e, ReceiverError) else "ReceiverError"])
                else:
                    results.append(["n"] if r is None else ["r"] + canon_sample(r))

        def push(g):
            spec = specs[g]
            k = sent[g]
            if k < len(spec["items"]):
                it = spec["items"][k]
                rx[g].push("E" if it == "E" else mk_sample(Sample, Quantity, it[0], it[1]))
                sent[g] += 1
            if sent[g] == len(spec["items"]) and spec["closed"]:
                rx[g].stop()

        tail = [["s", 0]] * (len(specs[0]["items"]) + 1) + [["s", 1]] * (len(specs[1]["items"]) + 1) + [["c"], ["p"]]
        for act in case["sched"] + tail:
            if act[0] == "s":
                push(act[1])
            elif act[0] == "y":
                for _ in range(act[1]):
                    await asyncio.sleep(0)
            elif act[0] == "p":
                await asyncio.sleep(1.0)
            elif act[0] == "c" and task is None:
                task = asyncio.create_task(consumer())
        res["res"] = results
        res["starts"] = fbf.starts
        task.cancel()
        await asyncio.sleep(0)

    loop = async_solipsism.EventLoop()
    try:
        loop.run_until_complete(main())
    finally:
        loop.close()
    return res


# ----------------------------------------------------------------------------- end-to-end driver
def pv(k):
    return k + 1


def fv(k):
    return (k + 1) * 256


def bv(k):
    return (k + 1) * 65536


def run_e2e(case):
    """case: {"prim": {"items": [[tick, "v"|"none"|"nan"|"inf"|"-inf"],...], "closed": bool},
              "fb": {"items": [...], "closed": bool}, "b": [tick,...], "zeros": bool, "realfb": bool,
              "sched": [["s", 0|1|2] ...], "picks": [0|1,...]}
    valid values are implied: primary sample k -> k+1, fallback k -> (k+1)*256, B k -> (k+1)*65536.
    Returns {"out": [[tick, value|None]], "starts": int}"""
    (async_solipsism, Broadcast, _, _, _, Quantity, Sample, _, _, FormulaBuilder, FormulaEngine) = _imports()
    C = classes()
    res = {}

    async def main():
        chans = [Broadcast[Sample[Quantity]](name=n) for n in ("prim", "fb", "b")]
        prx = chans[0].new_receiver(limit=50)
        brx = chans[2].new_receiver(limit=50)
        gen = None
        if case["realfb"]:
            import frequenz.sdk.microgrid  # noqa: F401  (breaks an import cycle of the package)
            from frequenz.sdk.timeseries.formula_engine._formula_generators._fallback_formula_metric_fetcher import (
                FallbackFormulaMetricFetcher)
            gen = _Gen(chans[1], FormulaEngine, Quantity)
            # the fallback channel must buffer for a not-yet-subscribed engine: hold one receiver
            # open and let generate() hand it out on first use
            first_rx = chans[1].new_receiver(limit=50)
            orig = gen.generate

            def generate():
                gen.generated += 1
                rx = first_rx if gen.generated == 1 else chans[1].new_receiver(limit=50)
                return FormulaEngine.from_receiver("fallback-engine", rx, Quantity)
            gen.generate = generate
            fbf = FallbackFormulaMetricFetcher(gen)
        else:
            fbf = C["ScriptFB"](chans[1].new_receiver(limit=50))
        snd = [c.new_sender() for c in chans]
        b = FormulaBuilder("f0", Quantity)
        b.push_metric("e0s0", prx, nones_are_zeros=case["zeros"], fallback=fbf)
        b.push_oper("+")
        b.push_metric("e0s1", brx, nones_are_zeros=False)
        eng = b.build()
        out_rx = None
        sent = [0, 0, 0]
        n_items = [len(case["prim"]["items"]), len(case["fb"]["items"]), len(case["b"])]
        closed = [case["prim"]["closed"], case["fb"]["closed"], False]
        done_close = [False, False, False]

        async def push(g):
            k = sent[g]
            if k < n_items[g]:
                if g == 0:
                    t, v = case["prim"]["items"][k]
                    s = mk_sample(Sample, Quantity, t, pv(k) if v == "v" else v)
                elif g == 1:
                    t, v = case["fb"]["items"][k]
                    s = mk_sample(Sample, Quantity, t, fv(k) if v == "v" else v)
                else:
                    s = mk_sample(Sample, Quantity, case["b"][k], bv(k))
                await snd[g].send(s)
                sent[g] += 1
            if sent[g] == n_items[g] and closed[g] and not done_close[g]:
                done_close[g] = True
                await chans[g].aclose()

        tail = [["s", g] for g in range(3) for _ in range(n_items[g] + 1)] + [["c"], ["p"]]
        for act in case["sched"] + tail:
            if act[0] == "s":
                await push(act[1])
            elif act[0] == "y":
                for _ in range(act[1]):
                    await asyncio.sleep(0)
            elif act[0] == "p":
                await asyncio.sleep(1.0)
            elif act[0] == "c" and out_rx is None:
                out_rx = eng.new_receiver(max_size=100000)
        out = []
        while len(out_rx._q):  # pylint: disable=protected-access
            m = out_rx.consume() if await out_rx.ready() else None
            us = (m.timestamp - E) // timedelta(microseconds=1)
            tick = us // TICK_US if us % TICK_US == 0 else us / TICK_US
            out.append([tick, None if m.value is None else int(m.value.base_value)])
        res["out"] = out
        res["starts"] = gen.generated if gen is not None else fbf.starts
        for t in asyncio.all_tasks():
            if t is not asyncio.current_task():
                t.cancel()
        await asyncio.sleep(0)

    loop = async_solipsism.EventLoop()
    try:
        picks = case.get("picks")
        orders = None if picks is None else {"0": [[0, 1] if p == 0 else [1, 0] for p in picks]}
        with WaitOrder(orders):
            loop.run_until_complete(main())
    finally:
        loop.close()
    return res


# ----------------------------------------------------------------------------- Coq rendering
HEADER = """From Verif Require Import model.Fallback.
Definition out_eqb (a b : Z * option Z) := (fst a =? fst b) && optZ_eqb (snd a) (snd b).
(* fetcher case: primary, fallback, number of fetch_next calls, expected results *)
Definition check (c : strm * strm * nat * list fout) : bool :=
  let '(p, f, calls, exp) := c in
  list_eqb fout_eqb (fetch_n (S (strm_len f)) calls (fetcher_init p f)) exp.
(* end-to-end case: nones_are_zeros, primary, fallback, B, picks, expected engine output *)
Definition check_e2e (c : bool * strm * strm * list smp * list nat * list (Z * option Z)) : bool :=
  let '(zeros, p, f, b, picks, exp) := c in
  let fuel := S (strm_len p + strm_len f + length b) in
  list_eqb out_eqb
    (run2 zeros fuel (fun r => nth r picks 0%nat) fuel 0%nat true
          (mkE2 (fetcher_init p f) b (0, Inv 0) (0, Inv 0))) exp.
"""


def c_val(v):
    return f"(Inv {INV[v]})" if isinstance(v, str) else f"(V {cZ(v)})"


def c_item(it):
    return "Err" if it == "E" else f"(Smp ({cZ(it[0] * TICK_US)}, {c_val(it[1])}))"


def c_strm(spec, valf=None):
    items = []
    for k, it in enumerate(spec["items"]):
        if it != "E" and valf is not None:
            it = [it[0], valf(k) if it[1] == "v" else it[1]]
        items.append(c_item(it))
    lst = f"[{'; '.join(items)}]" if items else "(@nil item)"
    return f"(mkS {lst} {cbool(spec['closed'])})"


def c_fout(r):
    if r[0] == "x":
        return "ORaise"
    if r[0] == "n":
        return "(ORet None)"
    return f"(ORet (Some ({cZ(r[1] * TICK_US)}, {c_val(r[2])})))"


def fetcher_term(case, obs):
    exp = "[" + "; ".join(c_fout(r) for r in obs["res"]) + "]" if obs["res"] else "(@nil fout)"
    return f"({c_strm(case['prim'])}, {c_strm(case['fb'])}, {case['calls']}%nat, {exp})"


def e2e_term(case, obs):
    fbspec = case["fb"]
    if case["realfb"]:
        # the real fallback is a FormulaEngine: every invalid value leaves it as None
        fbspec = {**fbspec, "items": [[t, "none" if v != "v" else v] for t, v in fbspec["items"]]}
    b = "[" + "; ".join(f"({cZ(t * TICK_US)}, V {cZ(bv(k))})" for k, t in enumerate(case["b"])) + "]"
    rounds = len(case["prim"]["items"]) + len(case["b"]) + 3
    picks = case.get("picks") or [0]
    pk = "[" + "; ".join(f"{picks[r % len(picks)]}%nat" for r in range(rounds)) + "]"
    exp = "[" + "; ".join(f"({cZ(int(o[0] * TICK_US))}, {'None' if o[1] is None else '(Some ' + cZ(o[1]) + ')'})" for o in obs["out"]) + "]"
    if not obs["out"]:
        exp = "(@nil (Z * option Z))"
    if not case["b"]:
        b = "(@nil smp)"
    return f"({cbool(case['zeros'])}, {c_strm(case['prim'], pv)}, {c_strm(fbspec, fv)}, {b}, {pk}, {exp})"


# ----------------------------------------------------------------------------- generation
VALS = ["v", "v", "v", "none", "nan", "inf", "-inf"]


def fault_word(rng, n, style):
    if style == "valid":
        return ["v"] * n
    if style == "dead":
        j = rng.randrange(0, n + 1)
        return ["v"] * j + [rng.choice(["none", "nan"])] * (n - j)
    if style == "blip":
        w = ["v"] * n
        for _ in range(rng.randint(1, 3)):
            j = rng.randrange(0, max(1, n))
            for q in range(j, min(n, j + rng.randint(1, 3))):
                w[q] = rng.choice(["none", "nan", "inf", "-inf"])
        return w
    return [rng.choice(VALS) for _ in range(n)]


def gen_sched3(rng, counts):
    """random interleaving of the sends of the streams (ids 0..len(counts)-1) + yields/pumps/consumer start"""
    left = [c + 1 for c in counts]       # +1: the push that closes the stream
    sched = []
    style = rng.choice(["lockstep", "random", "fb_first", "fb_last", "prim_first"])
    started = False
    start_at = rng.choice([0, 0, rng.randint(0, sum(left))])
    steps = 0
    sent = [0] * len(counts)
    while sum(left):
        if not started and steps >= start_at:
            sched.append(["c"])
            started = True
        cand = [i for i in range(len(counts)) if left[i]]
        if style == "lockstep":
            i = min(cand, key=lambda j: (sent[j], j))
        elif style == "fb_first" and 1 in cand and rng.random() < 0.8:
            i = 1
        elif style == "fb_last" and [j for j in cand if j != 1] and rng.random() < 0.9:
            i = rng.choice([j for j in cand if j != 1])
        elif style == "prim_first" and 0 in cand and rng.random() < 0.8:
            i = 0
        else:
            i = rng.choice(cand)
        sched.append(["s", i])
        left[i] -= 1
        sent[i] += 1
        steps += 1
        r = rng.random()
        if r < 0.3:
            sched.append(["y", rng.randint(1, 8)])
        elif r < 0.38:
            sched.append(["p"])
    return sched


def gen_fetcher_case(rng):
    d = rng.choice([1, 2])
    n = rng.randint(0, 14)
    base = rng.randrange(-20, 20)
    pw = fault_word(rng, n, rng.choice(["valid", "dead", "blip", "random", "random"]))
    prim = [[base + d * k, (k + 1) if v == "v" else v] for k, v in enumerate(pw)]
    lag = rng.randint(-3, 4)
    m = rng.randint(0, 16)
    fw = fault_word(rng, m, rng.choice(["valid", "valid", "blip", "random"]))
    fb = [[base + d * (lag + k), (k + 1) * 256 if v == "v" else v] for k, v in enumerate(fw)]
    kind = "grid"
    r = rng.random()
    if r < 0.25:          # transient receiver errors inside the streams
        kind = "transient_errors"
        for lst in (prim, fb):
            for _ in range(rng.randint(0, 2)):
                lst.insert(rng.randrange(0, len(lst) + 1), "E")
    elif r < 0.40:        # fallback off the primary's grid (gaps / jumps)
        kind = "fb_gaps"
        for _ in range(rng.randint(1, 2)):
            if len(fb) > 1:
                del fb[rng.randrange(0, len(fb))]
    elif r < 0.62:        # the primary skips k >= 1 timestamps (mostly while in fallback mode); fallback gap-free
        kind = "prim_gaps"
        first_bad = next((k for k, it in enumerate(prim) if isinstance(it[1], str)), None)
        for _ in range(rng.randint(1, 2)):
            if len(prim) > 2:
                lo = first_bad + 1 if first_bad is not None and first_bad + 1 < len(prim) and rng.random() < 0.8 else 0
                j = rng.randrange(lo, len(prim))
                del prim[j: j + rng.randint(1, 3)]
    case = {"kind": kind, "d": d,
            "prim": {"items": prim, "closed": rng.random() < 0.45},
            "fb": {"items": fb, "closed": rng.random() < 0.25},
            "calls": rng.randint(1, n + 4)}
    case["sched"] = gen_sched3(rng, [len(prim), len(fb)])
    return case


def gen_e2e_case(rng):
    d = rng.choice([1, 2])
    base = rng.randrange(-20, 20)
    n = rng.randint(1, 14)
    pw = fault_word(rng, n, rng.choice(["valid", "dead", "dead", "blip", "blip", "random"]))
    p_off = rng.choice([0, 0, 0, -2, -1, 1, 2])
    prim = [[base + d * (p_off + k), v] for k, v in enumerate(pw)]
    realfb = rng.random() < 0.4
    lag = rng.choice([0, 0, 0, 1, 1, 2, 3, -1, -2, -3])
    first_fail = next((k for k, v in enumerate(pw) if v != "v"), n)
    m = rng.randint(0, 18)
    fw = fault_word(rng, m, rng.choice(["valid", "valid", "valid", "blip", "random"]))
    # the lazily started fallback begins `lag` steps after (before) the first primary failure
    fb = [[base + d * (p_off + first_fail + lag + k), v] for k, v in enumerate(fw)]
    nb = rng.randint(1, 18)
    b = [base + d * k for k in range(nb)]
    case = {"kind": "e2e", "d": d,
            "prim": {"items": prim, "closed": rng.random() < 0.4},
            "fb": {"items": fb, "closed": (not realfb) and rng.random() < 0.2},
            "b": b, "zeros": rng.random() < 0.3, "realfb": realfb,
            "picks": None if rng.random() < 0.3 else [rng.randint(0, 1) for _ in range(rng.randint(1, 4))]}
    case["sched"] = gen_sched3(rng, [len(prim), len(fb), len(b)])
    return case


def gen_long_recovery_case(rng):
    """fail -> recover for 60-180 valid primary samples -> fail again, the fallback valid throughout;
    fed in lock-step (one tick at a time, the engine runs until it blocks) so that every backlog stays small"""
    d = rng.choice([1, 2])
    base = rng.randrange(-20, 20)
    word = (["v"] * rng.randint(1, 3) + [rng.choice(["none", "nan"])] * rng.randint(2, 3)
            + ["v"] * rng.randint(60, 180) + [rng.choice(["none", "nan", "inf"])] * rng.randint(2, 4)
            + ["v"] * rng.randint(0, 2))
    n = len(word)
    prim = [[base + d * k, v] for k, v in enumerate(word)]
    first_fail = next(k for k, v in enumerate(word) if v != "v")
    lag = rng.choice([0, 0, 1, -1])
    fb = [[base + d * k, "v"] for k in range(first_fail + lag, n)]
    b = [base + d * k for k in range(n)]
    sched = [["c"]]
    for k in range(n):
        sched.append(["s", 0])
        if k >= first_fail + lag:
            sched.append(["s", 1])
        sched.append(["s", 2])
        sched.append(["p"] if rng.random() < 0.9 else ["y", rng.randint(20, 40)])
    return {"kind": "e2e_long_recovery", "d": d, "prim": {"items": prim, "closed": False},
            "fb": {"items": fb, "closed": False}, "b": b, "zeros": rng.random() < 0.3,
            "realfb": rng.random() < 0.75, "picks": [0, 1], "sched": sched}


def shrink_case(case):
    simple = [["c"]]
    longest = max(len(case["prim"]["items"]), len(case["fb"]["items"]), len(case.get("b", [])))
    if case["sched"] != simple and longest <= 40:      # (feeding a long stream at once would overflow a receiver)
        yield {**case, "sched": simple}
    for key in ("prim", "fb"):
        it = case[key]["items"]
        for j in range(len(it)):
            yield {**case, key: {**case[key], "items": it[:j] + it[j + 1:]}} if j == len(it) - 1 else {**case, key: {**case[key], "items": it[:-1]}}
            break
        if case[key]["closed"]:
            yield {**case, key: {**case[key], "closed": False}}
    if "b" in case and len(case["b"]) > 1:
        yield {**case, "b": case["b"][:-1]}
    if case.get("picks"):
        yield {**case, "picks": [0]}
    if "calls" in case and case["calls"] > 1:
        yield {**case, "calls": case["calls"] - 1}
