"""C11, second stream (`bursts`): events are injected back to back (no quiescing in between),
report subscriptions for several priorities per group come and go at any time, and the ORDER in
which the actor's handlers actually ran is recorded (instance-level wrappers around
_calculate_target_power, _send_reports and drop_old_proposals — no source hooks) and replayed
through the model (prun2).  This covers the `schedules` part of C11's quantifier: whatever
interleaving of the select loop and the bounds-tracker task the runtime produces, each handler
must behave like one model step, every request must equal the sum of the reported targets and
lie inside the bounds in force."""
from __future__ import annotations

import asyncio
import json
from datetime import datetime, timedelta, timezone

import async_solipsism

from lib.core import Stream, cZ, copt
from harness import matryoshka as M
from harness import powermanager as P1

IDS = P1.IDS
UNIT = P1.UNIT
QUIESCE = 0.001


def _sys_of(sb):
    b = lambda x: None if x is None else [M.watts(x.lower), M.watts(x.upper)]
    return {"incl": b(sb.inclusion_bounds), "excl": b(sb.exclusion_bounds)}


async def _drive(case):
    from frequenz.channels import Broadcast
    from frequenz.client.microgrid import ComponentCategory
    from frequenz.quantities import Power
    from frequenz.sdk._internal._channels import ChannelRegistry
    from frequenz.sdk.microgrid import _power_distributing as pd
    from frequenz.sdk.microgrid._power_managing._base_classes import Proposal, ReportRequest, _Report
    from frequenz.sdk.timeseries._base_types import Bounds, SystemBounds

    base_ts = datetime.now(tz=timezone.utc)
    M.set_scale(case)
    W = lambda x: Power.from_watts(x * M.SCALE)
    loop = asyncio.get_running_loop()
    proposals, subs, reqs, results, boundsch = (Broadcast(name=n) for n in "psrxb")
    registry = ChannelRegistry(name="verif")
    req_rx = reqs.new_receiver(limit=5000)
    actor = P1._mk_actor_cls()(proposals.new_receiver(limit=5000), subs.new_receiver(limit=5000), reqs.new_sender(),
                               results.new_receiver(limit=5000), registry, component_category=ComponentCategory.BATTERY)
    actor._verif_bounds = boundsch
    hlog: list = []

    orig_drop = actor._set_power_group.drop_old_proposals

    def rec_drop(now):
        hlog.append(("tick", P1._units(now)))
        return orig_drop(now)
    actor._set_power_group.drop_old_proposals = rec_drop

    orig_calc = actor._calculate_target_power

    def calc(component_ids, proposal, must_send=False):
        r = orig_calc(component_ids, proposal, must_send)
        hlog.append(("calc", proposal, bool(must_send), M.watts(r), _sys_of(actor._system_bounds[component_ids])))
        return r
    actor._calculate_target_power = calc

    orig_rep = actor._send_reports

    async def rep(component_ids):
        await orig_rep(component_ids)
        hlog.append(("rep", list(actor._set_power_subscriptions.get(component_ids, {}).keys()),
                     list(actor._set_op_power_subscriptions.get(component_ids, {}).keys())))
    actor._send_reports = rep

    actor.start()
    rep_buf: dict = {}
    pumps = []
    req_buf: list = []

    async def pump(rx, buf):
        async for msg in rx:
            buf.append(msg)
    pumps.append(asyncio.create_task(pump(req_rx, req_buf)))
    ssend, psend, rsend, bsend = subs.new_sender(), proposals.new_sender(), results.new_sender(), boundsch.new_sender()
    o = lambda x: None if x is None else W(x)
    injected_results: list = []

    for e in case["events"]:
        if e["t"] == "sub":
            rr = ReportRequest(source_id=f"sub{e['q']}", component_ids=IDS, priority=e["q"], set_operating_point=e["op"])
            key = (e["op"], e["q"])
            if key not in rep_buf:
                rep_buf[key] = []
                rx = registry.get_or_create(_Report, rr.get_channel_name()).new_receiver(limit=5000)
                pumps.append(asyncio.create_task(pump(rx, rep_buf[key])))
            await ssend.send(rr)
        elif e["t"] == "prop":
            await psend.send(Proposal(source_id=e["src"], preferred_power=o(e["pref"]), bounds=Bounds(o(e["lo"]), o(e["hi"])),
                                      component_ids=IDS, priority=e["prio"], creation_time=loop.time(),
                                      set_operating_point=e["op"]))
        elif e["t"] == "bounds":
            sb = M.mk_sys(e["sys"])
            await bsend.send(SystemBounds(timestamp=base_ts + timedelta(seconds=e.get("ts", 0)),
                                          inclusion_bounds=sb.inclusion_bounds, exclusion_bounds=sb.exclusion_bounds))
        elif e["t"] == "result":
            req = pd.Request(power=W(e.get("power", 0)), component_ids=IDS)
            if e["k"] == 0:
                res = pd.Success(request=req, succeeded_power=req.power, succeeded_components=set(IDS), excess_power=W(0))
            elif e["k"] == 1:
                res = pd.PartialFailure(request=req, succeeded_power=W(0), succeeded_components=set(), excess_power=W(0),
                                        failed_power=req.power, failed_components=set(IDS))
            else:
                res = pd.Error(request=req, msg="verif")
            injected_results.append(e["k"])
            await rsend.send(res)
        elif e["t"] == "sleep":
            await asyncio.sleep(e["dt"] / 8.0)
        if e.get("gap", True):
            await asyncio.sleep(QUIESCE)
    await asyncio.sleep(QUIESCE * 3)
    for t in pumps:
        t.cancel()
    await actor.stop()

    # ---- reconstruct the handlers that ran, in order
    out = []
    pending = None
    res_i = 0
    ptr = {k: 0 for k in rep_buf}
    known_reg, known_op = [], []
    req_i = 0
    n_req = len(req_buf)
    problems = []
    for h in hlog:
        if h[0] == "tick":
            out.append({"kind": "tick", "now": h[1]})
        elif h[0] == "calc":
            if pending is not None:
                problems.append("two target calculations inside one handler")
            pending = h
        else:
            _, reg_keys, op_keys = h
            for q in reg_keys:
                if q not in known_reg:
                    known_reg.append(q)
                    out.append({"kind": "sub", "op": False, "q": q})
            for q in op_keys:
                if q not in known_op:
                    known_op.append(q)
                    out.append({"kind": "sub", "op": True, "q": q})
            rec = {"request": None}
            if pending is None:
                k = injected_results[res_i] if res_i < len(injected_results) else None
                res_i += 1
                rec.update({"kind": "result", "k": k})
            else:
                _, prop, must, ret, sysb = pending
                rec["request"] = ret
                if prop is not None:
                    rec.update({"kind": "prop", "p": {"op": prop.set_operating_point, "src": prop.source_id, "prio": prop.priority,
                                                      "pref": M.watts(prop.preferred_power), "lo": M.watts(prop.bounds.lower),
                                                      "hi": M.watts(prop.bounds.upper), "time": P1._units(prop.creation_time)}})
                elif must:
                    k = injected_results[res_i] if res_i < len(injected_results) else None
                    res_i += 1
                    rec.update({"kind": "result", "k": k})
                    if k != 1:
                        problems.append(f"a resend happened for a result of kind {k}")
                else:
                    rec.update({"kind": "bounds", "sys": sysb})
                if ret is not None:
                    if req_i < n_req and M.watts(req_buf[req_i].power) == ret and req_buf[req_i].adjust_power is True:
                        req_i += 1
                    else:
                        problems.append(f"target calculation returned {ret} but the next request on the channel is "
                                        f"{M.watts(req_buf[req_i].power) if req_i < n_req else None}")
            pending = None
            reps = {"reg": [], "op": []}
            for grp, keys, opflag in (("reg", reg_keys, False), ("op", op_keys, True)):
                for q in keys:
                    buf = rep_buf.get((opflag, q), [])
                    i = ptr.get((opflag, q), 0)
                    if i < len(buf):
                        r = buf[i]
                        ptr[(opflag, q)] = i + 1
                        b = None if r.bounds is None else [M.watts(r.bounds.lower), M.watts(r.bounds.upper)]
                        reps[grp].append([q, M.watts(r.target_power), b])
                    else:
                        problems.append(f"no report arrived on the channel of ({'op' if opflag else 'regular'}, priority {q})")
            rec["reports"] = reps
            out.append(rec)
    if req_i != n_req:
        problems.append(f"{n_req - req_i} requests on the channel were not produced by a recorded handler")
    for k, buf in rep_buf.items():
        if ptr[k] != len(buf):
            problems.append(f"{len(buf) - ptr[k]} extra reports on the channel of {k}")
    return {"handlers": out, "problems": problems}


def run_actor(case):
    loop = async_solipsism.EventLoop()
    try:
        return loop.run_until_complete(_drive(case))
    finally:
        import gc
        gc.collect()
        loop.close()


HEADER = """From Verif Require Import model.PowerManager.
Definition bnds_eqb (a b : option (Z * Z)) := opt_eqb (pair_eqb Z.eqb Z.eqb) a b.
Definition line_eqb (a b : rep_line) : bool :=
  let '(qa, ta, ba) := a in let '(qb, tb, bb) := b in (qa =? qb) && optZ_eqb ta tb && bnds_eqb ba bb.
Definition reps_eqb (a b : list rep_line * list rep_line) : bool :=
  list_eqb line_eqb (fst a) (fst b) && list_eqb line_eqb (snd a) (snd b).
Definition case_t := (list pevent2 * list (option Z * option (list rep_line * list rep_line)))%type.
Definition check (c : case_t) : bool :=
  let '(h, exp) := c in
  list_eqb (pair_eqb optZ_eqb (opt_eqb reps_eqb))
           (prun2 max_proposal_age_us max_proposal_age_op_us (mkSubs [] []) pm_init h) exp.
"""


def _line(l):
    q, t, b = l
    bb = "None" if b is None else f"(Some ({cZ(b[0])}, {cZ(b[1])}))"
    return f"({cZ(q)}, {copt(t)}, {bb})"


def model_terms(obs):
    hs = obs["handlers"]
    srcs = sorted({h["p"]["src"] for h in hs if h["kind"] == "prop"})
    rank = {s: i for i, s in enumerate(srcs)}
    times = [h["p"]["time"] for h in hs if h["kind"] == "prop"]
    for h in hs:  # exact expiry boundary: float subtraction not modelled
        if h["kind"] == "tick" and any(abs((h["now"] - t) - 60 * UNIT) <= 2 for t in times):
            return None, None
    evs, exp = [], []
    for i, h in enumerate(hs):
        if h["kind"] == "tick":
            if i + 1 < len(hs) and hs[i + 1]["kind"] == "tick":
                continue
            evs.append(f"(PE (PTick {cZ(h['now'])}))")
            exp.append("(None, None)")
            continue
        if h["kind"] == "sub":
            evs.append(f"(PSub {'true' if h['op'] else 'false'} {cZ(h['q'])})")
            exp.append("(None, None)")
            continue
        if h["kind"] == "prop":
            p = h["p"]
            evs.append(f"(PE (PProp {'true' if p['op'] else 'false'} (mkP {cZ(p['prio'])} {cZ(rank[p['src']])} {copt(p['pref'])} "
                       f"{copt(p['lo'])} {copt(p['hi'])} {cZ(p['time'])})))")
        elif h["kind"] == "bounds":
            evs.append(f"(PE (PBounds {M.c_sys(h['sys'])}))")
        else:
            if h["k"] is None:
                return None, None
            evs.append(f"(PE (PResult {cZ(h['k'])}))")
        r = h["reports"]
        rl = "[" + "; ".join(_line(x) for x in r["reg"]) + "]"
        ol = "[" + "; ".join(_line(x) for x in r["op"]) + "]"
        exp.append(f"({copt(h['request'])}, (Some (({rl} : list rep_line), ({ol} : list rep_line))))")
    return evs, exp


def gen_case(rng, maxlen=16):
    evs = [{"t": "sub", "op": rng.random() < 0.5, "q": rng.choice([0, 1, 2, 3])}]
    if rng.random() < 0.9:
        evs.append({"t": "bounds", "sys": M.gen_sys(rng, allow_none=False)})
    nsrc = rng.randint(1, 3)
    burst = rng.random() < 0.7
    for _ in range(rng.randint(2, maxlen)):
        r = rng.random()
        gap = not (burst and rng.random() < 0.6)
        if r < 0.4:
            p = M.gen_prop(rng, nsrc, 0)
            evs.append({"t": "prop", "op": rng.random() < 0.45, "src": p["src"], "prio": p["prio"], "pref": p["pref"],
                        "lo": p["lo"], "hi": p["hi"], "gap": gap})
        elif r < 0.65:
            evs.append({"t": "bounds", "sys": M.gen_sys(rng, allow_none=rng.random() < 0.25),
                        "ts": rng.choice([-100, -1, 0, 0, 1, 100]), "gap": gap})
        elif r < 0.77:
            evs.append({"t": "result", "k": rng.choice([0, 1, 1, 2]), "power": rng.choice([0, 10, 50]), "gap": gap})
        elif r < 0.9:
            evs.append({"t": "sub", "op": rng.random() < 0.5, "q": rng.choice([-2, 0, 1, 2, 3, 7]), "gap": gap})
        else:
            evs.append({"t": "sleep", "dt": rng.choice([1, 8, 80, 240, 400, 481, 500])})
    return M.gen_scale(rng, {"events": evs})


def boundary_cases():
    P = lambda op, src, prio, pref, gap=True: {"t": "prop", "op": op, "src": src, "prio": prio, "pref": pref, "lo": None, "hi": None, "gap": gap}
    B = lambda l, u, gap=True: {"t": "bounds", "sys": {"incl": [l, u], "excl": [0, 0]}, "gap": gap}
    S = lambda op, q, gap=True: {"t": "sub", "op": op, "q": q, "gap": gap}
    return [
        {"events": [S(False, 1), S(True, 1), B(-100, 100), P(True, "op", 1, 70, False), P(False, "r", 1, 20, False), B(-100, 60, False),
                    {"t": "result", "k": 1, "power": 60, "gap": False}, B(-100, 100)]},
        {"events": [S(False, 1), B(-100, 100, False), P(False, "r", 3, 50, False), S(False, 2, False), S(False, 3, False), S(True, 3, False),
                    P(False, "s", 2, -20, False), B(-40, 40)]},
    ]


def shrink_case(case):
    ev = case["events"]
    for i in range(1, len(ev)):
        yield {**case, "events": ev[:i] + ev[i + 1:]}
    for i, e in enumerate(ev):
        if e.get("gap") is False:
            yield {**case, "events": ev[:i] + [{**e, "gap": True}] + ev[i + 1:]}


class BurstStream(Stream):
    name = "bursts"
    coq_header = HEADER

    def gen(self, rng, tier):
        yield from boundary_cases()
        for _ in range(350 if tier == "quick" else 6000):
            yield gen_case(rng, 12 if rng.random() < 0.8 else 24)

    def run_impl(self, case):
        return run_actor(case)

    def to_coq(self, case, obs):
        evs, exp = model_terms(obs)
        if evs is None:
            return None
        return f"(([{'; '.join(evs)}], [{'; '.join(exp)}]) : case_t)"

    def show_term(self, case, obs):
        evs, _ = model_terms(obs)
        return f"prun2 max_proposal_age_us max_proposal_age_op_us (mkSubs [] []) pm_init [{'; '.join(evs)}]"

    def shrink(self, case):
        return shrink_case(case)

    def key(self, case, obs):
        if not any(h.get("request") is not None for h in obs["handlers"]):
            return None
        return json.dumps(case, sort_keys=True)

    def labels(self, case, obs):
        out = [f"events={min(len(case['events']), 25)}"]
        if case.get("scale", 1) != 1:
            out.append("fractional_or_scaled_watts")
        if any(e.get("gap") is False for e in case["events"]):
            out.append("back_to_back_injection")
        kinds = [h["kind"] for h in obs["handlers"]]
        inj = [e["t"] for e in case["events"] if e["t"] in ("prop", "bounds", "result")]
        ran = [k for k in kinds if k in ("prop", "bounds", "result")]
        if ran != inj and sorted(ran) == sorted(inj):
            out.append("handlers_ran_in_other_order_than_injected")
        nsub = sum(1 for k in kinds if k == "sub")
        out.append(f"subscriptions={min(nsub, 6)}")
        for h in obs["handlers"]:
            r = h.get("reports")
            if r and len(r["reg"]) > 1:
                out.append("several_regular_priorities_reported")
                break
        return out

    def oracle(self, case, obs):
        out = [{"what": "trace: " + p, "finding": None} for p in obs["problems"][:2]]
        cur = None
        last = None
        for i, h in enumerate(obs["handlers"]):
            if h["kind"] in ("tick", "sub"):
                continue
            if h["kind"] == "bounds":
                cur = h["sys"]
            r = h.get("request")
            if r is not None:
                last = r
            reps = h["reports"]
            if h["kind"] == "bounds" and last is not None and cur["incl"] is not None and M.wf_sys(cur):
                l, u = cur["incl"]
                if not (l <= last <= u):
                    out.append({"what": f"stale: after the bounds update to [{l}, {u}] (handler {i}) the last request sent is still {last} W", "finding": None})
            # every subscriber of a group is told the same target
            for grp in ("reg", "op"):
                ts = {x[1] for x in reps[grp]}
                if len(ts) > 1:
                    out.append({"what": f"reports: subscribers of the {grp} group are told different targets {sorted(map(str, ts))} in one round", "finding": None})
            if r is None:
                continue
            if reps["reg"] and reps["op"]:
                s = (reps["reg"][0][1] or 0) + (reps["op"][0][1] or 0)
                if r != s:
                    out.append({"what": f"sum: request {r} W (handler {i}, {h['kind']}) but the reports say regular {reps['reg'][0][1]} + operating point {reps['op'][0][1]}", "finding": None})
            if cur is not None and cur["incl"] is not None and M.wf_sys(cur):
                l, u = cur["incl"]
                if not (l <= r <= u):
                    out.append({"what": f"bounds: request {r} W (handler {i}, {h['kind']}) is outside the latest system inclusion bounds [{l}, {u}]", "finding": None})
        return out
