"""C06 — every formula sample is computed from inputs of a single timestamp."""
from __future__ import annotations

import json

from lib.core import Stream
from harness import evalsync as ES

ID = "C06"
PROPS = "props/C06.v"


class EngineStream(Stream):
    """plain FormulaEngine over 1..5 Broadcast inputs"""
    name = "engine"
    coq_header = ES.HEADER
    n_quick = 620
    n_thorough = 14000

    def gen(self, rng, tier):
        n = self.n_quick if tier == "quick" else self.n_thorough
        for i in range(n):
            r = rng.random()
            kind = ("grid_realset" if r < 0.30 else "grid_order" if r < 0.52 else "offgrid" if r < 0.78
                    else "startup_gap" if r < 0.90 else "stall" if r < 0.97 else "long")
            yield ES.gen_engine_case(rng, kind)

    def run_impl(self, case):
        return ES.run_engines(case)

    def to_coq(self, case, obs):
        return ES.case_term(case, obs)

    def show_term(self, case, obs):
        return ES.show_term(case, obs)

    def shrink(self, case):
        return ES.shrink_case(case)

    def key(self, case, obs):
        if not obs["out"]:
            return None
        return json.dumps([case["streams"], case["sched"], case.get("orders")])

    def labels(self, case, obs):
        out = [f"kind={case.get('kind')}", f"n={len(case['streams'])}",
               f"outputs={'0' if not obs['out'] else '1-5' if len(obs['out']) <= 5 else '6+'}",
               f"backlog={'<=10' if obs['max_backlog'] <= 10 else '<=30' if obs['max_backlog'] <= 30 else '<=49'}"]
        firsts = {s[0] for s in case["streams"] if s}
        out.append("first_ts_equal" if len(firsts) <= 1 else "first_ts_differ")
        out.append("grid(theorem hypothesis)" if ES.is_grid(case) else
                   "gap_in_lagging_input_at_startup" if case.get("kind") == "startup_gap" else "off_grid(outside the property)")
        for k in case.get("perturb", []):
            out.append(f"perturb={k}")
        if case.get("resampled"):
            out.append("ResampledFormulaBuilder.from_string")
        if case.get("tz_hours"):
            out.append("non_UTC_timestamps")
        if case.get("kind") == "stall":
            w = sum(a[1] for a in case["sched"] if a[0] == "w")
            out.append("stall>60s" if w > 60 else "stall<=60s")
        if case.get("nones"):
            out.append("None_input_values")
            if any(o[1] is None for o in obs["out"][:1]):
                out.append("first_output_None")
        ci = next((i for i, a in enumerate(case["sched"]) if a[0] == "c"), len(case["sched"]))
        sent_before = sum(1 for a in case["sched"][:ci] if a[0] == "s")
        out.append("consumer_first" if sent_before == 0 else "consumer_after_some_sends")
        return out

    def oracle(self, case, obs):
        if case.get("kind") == "startup_gap":
            # one lagging input has a gap around the latest first timestamp: the first synchronisation may
            # fail; every sample emitted afterwards (all inputs are on the grid again) must be single-timestamp
            outs = [(o[0], o[1]) for o in obs["out"]]
            probs = ES.judge_sum_outputs(case, case["eng"][0], outs, exact_timeline=False)
            return [{"what": p, "finding": None} for p in probs]
        if not ES.is_grid(case):
            return []          # the property is about resampled (grid) inputs
        outs = [(o[0], o[1]) for o in obs["out"]]
        probs = ES.judge_engine_outputs(case, case["eng"][0], outs)
        if obs["max_backlog"] >= 50:
            probs.append("backlog: an input receiver filled up (50) although the schedule keeps every backlog <= 40 "
                         "for an evaluator that consumes its inputs in lock-step")
        return [{"what": p, "finding": None} for p in probs]


def f10_trigger(case):
    """per-phase engines with unequal first timestamps (latest first input timestamp per phase)"""
    t0s = []
    for ids in case["eng"]:
        if not all(case["streams"][g] for g in ids):
            return False
        t0s.append(max(case["streams"][g][0] for g in ids))
    return len(set(t0s)) > 1


class ThreePhaseStream(Stream):
    """FormulaEngine3Phase over three per-phase FormulaEngines"""
    name = "three"
    coq_header = ES.HEADER
    n_quick = 240
    n_thorough = 6000

    def gen(self, rng, tier):
        n = self.n_quick if tier == "quick" else self.n_thorough
        for i in range(n):
            r = rng.random()
            yield ES.gen_three_case(rng, "three_equal_t0" if r < 0.22 else "three_gaps" if r < 0.40
                                    else "three_small_consumer" if r < 0.52 else "three_any")

    def run_impl(self, case):
        return ES.run_engines(case)

    def to_coq(self, case, obs):
        return ES.case_term(case, obs)

    def show_term(self, case, obs):
        return ES.show_term(case, obs)

    def shrink(self, case):
        return ES.shrink_case(case)

    def key(self, case, obs):
        if not obs["out"]:
            return None
        return json.dumps([case["streams"], case["eng"], case["sched"]])

    def labels(self, case, obs):
        return [f"kind={case.get('kind')}", "phase_T0_differ" if f10_trigger(case) else "phase_T0_equal",
                f"outputs={'0' if not obs['out'] else '1-5' if len(obs['out']) <= 5 else '6+'}",
                "grid" if ES.is_grid(case) else "phase_stream_with_gap"]

    def oracle(self, case, obs):
        probs = []
        d = case["d"]
        # a per-phase engine with several inputs is only promised anything on grid inputs
        for ids in case["eng"]:
            if len(ids) > 1 and not ES.is_grid({**case, "streams": [case["streams"][g] for g in ids]}):
                return []
        for o in obs["out"]:
            tick = o[0]
            for p, ids in enumerate(case["eng"]):
                v = o[1 + p]
                ks = ES.decode(v, len(ids)) if v is not None else None
                if ks is None:
                    probs.append(f"3-phase sample at tick {tick}: phase {p + 1} value {v} is not a sum of one sample per input")
                    break
                bad = [(g, k) for g, k in zip(ids, ks) if not (0 <= k < len(case["streams"][g])) or case["streams"][g][k] != tick]
                if bad:
                    g, k = bad[0]
                    ts = case["streams"][g][k] if 0 <= k < len(case["streams"][g]) else None
                    probs.append(f"single-timestamp: 3-phase sample stamped tick {tick} carries for phase {p + 1} sample #{k} of input {g} stamped {ts}")
                    break
            if probs:
                break
        ticks = [o[0] for o in obs["out"]]
        if ES.is_grid(case):
            for a, b in zip(ticks, ticks[1:]):
                if b - a != d:
                    probs.append(f"step: emitted 3-phase timestamps {a} -> {b} do not advance by one input step {d}")
                    break
            if all(s for s in case["streams"]):
                t0 = max(s[0] for s in case["streams"])
                end = min(s[-1] for s in case["streams"])
                want = list(range(t0, end + 1, d))
                if ticks != want and not probs:
                    probs.append(f"timeline: emitted 3-phase ticks {ticks[:8]}... differ from the common ticks {want[:8]}... of all inputs")
        if obs["max_backlog"] >= 50:
            probs.append("backlog: an input receiver filled up (50) although the schedule keeps every backlog <= 40")
        fid = "C06-F10-3phase-unaligned" if f10_trigger(case) else None
        return [{"what": p, "finding": fid} for p in probs]


class ComposedStream(Stream):
    """engines composed with the operator API (2 levels) from from_receiver engines; several
    simultaneous consumers of the same input engines (other composed engines and direct readers)"""
    name = "composed"
    coq_header = ES.HEADER_COMPOSED
    n_quick = 260
    n_thorough = 5000

    def gen(self, rng, tier):
        for _ in range(self.n_quick if tier == "quick" else self.n_thorough):
            yield ES.gen_composed_case(rng)

    def run_impl(self, case):
        return ES.run_composed(case)

    def to_coq(self, case, obs):
        return ES.composed_term(case, obs)

    def show_term(self, case, obs):
        tops = ES.composed_tops(case)
        return "[" + "; ".join(ES.c_tree(case, t) for t in tops) + "]"

    def shrink(self, case):
        return ES.shrink_composed(case)

    def key(self, case, obs):
        if not any(obs["outs"]):
            return None
        return json.dumps([case["streams"], case["forms"], case["direct"], case.get("shared"), case["sched"]])

    def labels(self, case, obs):
        nc = len(ES.composed_tops(case))
        depth = max([(2 if any(not isinstance(c, int) for c in t[1:]) else 1) for t in case["forms"]] + [1])
        users = {}
        for t in list(case["forms"]) + ES.shared_trees(case):
            for g in set(ES.tree_leaves(t)):
                users[g] = users.get(g, 0) + 1
        for g in case["direct"]:
            users[g] = users.get(g, 0) + 1
        lead = 0
        sent = [0] * len(case["streams"])
        for a in case["sched"]:
            if a[0] == "s":
                sent[a[1]] += 1
                lead = max(lead, max(sent) - min(sent))
        sh = case.get("shared")
        extra = []
        if sh:
            extra.append(f"shared_builder_engines={len(sh['exts'])}")
            if sum(1 for e in sh["exts"] if not e) >= 2:
                extra.append("same_builder_built_twice")
            if any(not e for e in sh["exts"]) and any(sh["exts"]):
                extra.append("builder_built_and_extended")
            if len(set(sh["nz"])) > 1:
                extra.append("nz_and_non_nz_builds")
        return extra + [f"consumers={nc}", f"levels={depth}", f"max_users_of_one_input={max(users.values())}",
                "direct_reader" if case["direct"] else "no_direct_reader",
                f"max_lead_between_inputs={'<3' if lead < 3 else '3-9' if lead < 10 else '10+'}",
                f"outputs={'0' if not any(obs['outs']) else 'some'}"]

    def oracle(self, case, obs):
        probs = []
        tops = ES.composed_tops(case)
        for i, (t, out) in enumerate(zip(tops, obs["outs"])):
            ids = sorted(set(ES.tree_leaves(t)))
            for p in ES.judge_sum_outputs(case, ids, [(o[0], o[1]) for o in out]):
                probs.append(f"consumer {i} ({'direct reader of input ' + str(t) if isinstance(t, int) else 'formula ' + json.dumps(t)}): {p}")
                break
        if obs["max_backlog"] >= 50:
            probs.append("backlog: an input receiver filled up (50) although the schedule keeps every backlog <= 40")
        return [{"what": p, "finding": None} for p in probs]


def streams():
    return [EngineStream(), ThreePhaseStream(), ComposedStream()]


ASSUMPTIONS = [
    "Broadcast delivers every sample in send order while a receiver's backlog stays below its limit (50); the generator keeps every backlog <= 40 and the oracle reports a run in which a receiver fills up",
    "asyncio task scheduling only decides WHEN the evaluator blocks (Kahn): the model is a function of stream contents; this is what the randomised schedules test, it is not proved",
    "the iteration order of the set returned by asyncio.wait is arbitrary: an input of the model, quantified over in the theorems; off-grid cases are run with asyncio.wait wrapped so that the order is the prescribed one",
]
TRUSTED = ["async_solipsism virtual-time loop", "frequenz.channels.Broadcast", "harness wrapper around asyncio.wait that fixes the iteration order of the returned done-set (off-grid and ordered cases only)"]

META = {
    "technique": "Coq proof about a Kahn-style functional model of FormulaEvaluator.apply/_synchronize_metric_timestamps, FormulaEngine._run and FormulaEngine3Phase._run (induction over rounds, invariant 'all inputs stand at the same grid point') + differential correspondence: real FormulaEngine/FormulaEngine3Phase over Broadcast channels on async_solipsism with randomised delivery schedules vs the model evaluated in Coq",
    "level_text": "Machine-checked theorems (closed under the global context): for inputs on a common grid with arbitrary per-stream first timestamps the model's k-th output is (T0+k*d, f(values of every stream at T0+k*d)), for every iteration order of the task set in every round, with the exact number of outputs (none skipped, repeated, reordered); the (repaired) 3-phase zipper only emits samples whose three phase samples carry the emitted timestamp, for ANY phase streams, and loses nothing on grid phase streams. The model is tied to the code by running the real engines over Broadcast inputs under hundreds of random interleavings (1-5 streams, first timestamps -3..+3 steps apart, backlog <= 40, consumer subscribed at a random point, off-grid streams with prescribed set order; start-ups in which a lagging input has a gap so that the first synchronisation fails and must be repeated; engines composed with the operator API over two levels from from_receiver engines, with 1-5 simultaneous consumers sharing input engines, all subscribed at once) and comparing all outputs exactly inside Coq (a composed engine is the model applied to the model outputs of its inputs); the property is also judged directly on the recorded outputs (every output value encodes which sample of every input produced it).",
    "level_note": "Partial by nature: that the running system computes the model's function of the stream contents rests on the correspondence runs and on the runtime assumptions (Broadcast order/no loss within the receiver limit, asyncio scheduling). Formula arithmetic is the sum here (C05/C13 own it). Closed input streams are outside this property.",
}
