"""C20 — each component message reaches every subscribed metric stream exactly once."""
from __future__ import annotations

from harness import datasourcing as D

ID = "C20"
PROPS = "props/C20.v"
NEEDS = ["request_recv_buffer_size", "data_sourcing_request_limit"]


def streams():
    return [D.DSStream(), D.TableStream(), D.PipelineStream()]


ASSUMPTIONS = [
    "asyncio runs ready callbacks in FIFO order, so the per-message process_msg tasks (and the send tasks of their TaskGroup) "
    "execute in creation order (model: Deliver pops the oldest in-flight task and sends its whole fan-out atomically)",
    "Broadcast.send enqueues into every receiver before its first suspension point and never blocks (frequenz-channels 1.12)",
    "the component's API receiver object survives a handler restart (comp_data_receivers caches it) and cancelling a task "
    "suspended in Receiver.ready() consumes nothing",
    "Task.cancel() of the old handler takes effect before that task runs again (it cannot take another message after add_metric returned)",
    "receiver overflow (more than the receiver limit buffered) is excluded, as in the property",
    "add_metric calls do not overlap (the DataSourcingActor awaits them one at a time)",
    "actor restart: the MicrogridApiSource (subscriptions, API receivers, handler tasks) belongs to the DataSourcingActor object and "
    "survives every re-entry of _run() after an unhandled exception (model: Restart and AddFault change nothing; the request whose "
    "handling raised is dropped); API-client failures during a handler (re)start only delay that start (HandlerFail, run_forever retry)",
    "the API client's stream-opening call (<category>_data) may stay pending for any number of loop iterations / any time (model: "
    "HOpening); assumed about the client: a cancelled opening call leaves nothing behind (the receiver is created when the call "
    "returns, as in frequenz-client-microgrid) and cancelling a handler inside the call does not affect the call its replacement makes",
    "values are opaque tokens in the model: the harness maps every delivered value to a token (integer-valued floats to the integer; "
    "NaN, +-inf, -0.0, +-denormal, +-largest double to reserved codes, recognised by isnan/copysign, never by ==; a sample WITHOUT a "
    "value to a code of its own), so `Quantity(nan)` and `None` are different observations; other float values are not generated",
    "request channel: in-domain are bursts of up to _REQUEST_RECV_BUFFER_SIZE requests issued back to back before the actor runs (the "
    "constant and the `limit=` keyword of the actor's request receiver are both re-translated on every run and proved equal; the "
    "pipeline stream also reads the capacity off the receiver the real _DataPipeline creates); larger bursts drop the oldest requests "
    "and are outside the property",
    "message timestamps may be expressed in any aware time zone; observations compare the INSTANT",
    "liveness is judged at quiescence only: after all injected delays, retries and restarts have elapsed the API sends one more message "
    "per component, which every stream subscribed by then must receive",
    "a send() on a channel its consumer closed (ChannelRegistry.close_and_remove) raises in its own send task only: all send tasks of a "
    "fan-out run their first step before the TaskGroup aborts (FIFO), so st_out logs every entered send and the reader of a closed "
    "channel holds a prefix of its sends",
]
TRUSTED = ["async_solipsism virtual-time event loop", "frequenz-channels 1.12.0 Broadcast (tapped at Receiver.consume / Sender.send)",
           "tools/harness/datasourcing.py fake API client and trace recorder"]

META = {
    "technique": "Coq proof (invariants of a labelled transition system by induction over arbitrary event sequences) + trace-refinement "
                 "correspondence: the real MicrogridApiSource / DataSourcingActor is driven on async_solipsism with a fake API client, its "
                 "boundary events are recorded and replayed through the model inside Coq (vm_compute), delivered per-channel sample "
                 "sequences compared exactly; the extraction tables are compared entry by entry",
    "level_text": "Machine-checked theorems (closed under the global context) for every event sequence of the model: conservation of "
                  "accepted API messages (buffer ++ in flight ++ delivered), per-channel exactly-once in take order, snapshot = current "
                  "subscriptions at every take, a subscribed name is in every later snapshot (its stream is a gap-free suffix of the "
                  "accepted messages), duplicates, unknown components and invalid metrics leave the state unchanged, no handler ever "
                  "crashes. The model is tied to the code by "
                  "replaying recorded traces of the real classes (all four data categories, direct and via the actor, subscriptions "
                  "before / between / back-to-back with messages; API-client faults making the real actor restart after RESTART_DELAY or a "
                  "handler start fail, with served requests repeated during/after the restart; consumers closing one of several channels "
                  "of a component at every position in subscription order; stream-opening API calls that stay pending 0-8 loop "
                  "iterations or virtual time while further requests and messages arrive, cancelling the handler inside the call) and by an independent oracle on sent-vs-received samples.",
    "level_note": "Partial by nature: FIFO task execution, non-suspending Broadcast.send, cancellation semantics and the surviving API "
                  "receiver are runtime assumptions exercised by the trace runs, not proved; receiver overflow excluded. Events are "
                  "recorded by tapping public boundaries (add_metric / _handle_data_stream wrappers, ChannelRegistry subclass, "
                  "Receiver.consume, Sender.send), no source hooks. Finding C20-invalid-metric-kills-streams (a request for a metric "
                  "the category has no data for stopped all streams of the component) was fixed in /repo (commit c7e4911); the "
                  "model is the repaired one and the witness is in corpus/C20. The metric numbering of the model follows the order "
                  "of ComponentMetricId in the installed frequenz-client-microgrid; the four extraction maps are compared entry by entry.",
}
