"""C07 / C08: the real `Resampler` driven through its public API on virtual time.

Implementation side (`run_scenario`): `Resampler(ResamplerConfig(..., resampling_function=<recorder>))`,
`add_timeseries(name, <scripted async-iterator source>, <scripted sink>)`, `remove_timeseries`,
`resample()` / `resample(one_shot=True)` run by a supervisor that mimics
`ComponentMetricsResamplingActor._run` (on ResamplingError: remove the failing sources, call
`resample()` again).  The event loop is `async_solipsism` (virtual, integer-microsecond clock);
`time_machine` pins `datetime.now()` to `start + loop clock`, so the wall clock and the loop clock
advance together.  A *hog* advances the clock synchronously (a callback that blocks the loop): that is
how late timers are produced.  Sinks sleep (latency) or raise as scripted.

Every boundary event goes to one totally ordered log; nothing is compared by wall time, only by log
order and by the recorded integer clock.

Model side: coq/model/Resampler.v evaluated inside Coq on the rendered trace.
"""
from __future__ import annotations

import asyncio
import math
import warnings
from datetime import datetime, timedelta, timezone
from fractions import Fraction

from lib.core import Stream, cZ, copt, clist, cbool

EPOCH = datetime(1970, 1, 1, tzinfo=timezone.utc)
US = timedelta(microseconds=1)


def dt(us: int, tz: str | None = None) -> datetime:
    """The UTC instant `us` microseconds after the epoch; with `tz`, the same instant expressed in that
    (DST-observing) zone.  Everything recorded is converted back with to_us(), i.e. compared as a UTC instant:
    arithmetic on an aware datetime is done on its LOCAL wall clock by Python, so code that keeps a window end
    in a zoneinfo zone and adds periods to it drifts by the DST offset across a transition."""
    t = EPOCH + timedelta(microseconds=us)
    if tz:
        from zoneinfo import ZoneInfo
        t = t.astimezone(ZoneInfo(tz))
    return t


def to_us(t: datetime) -> int:
    return (t - EPOCH) // US


def td_us(d: timedelta | None):
    return None if d is None else d // US


# ----------------------------------------------------------------------------- implementation driver
class _ScriptedSource:
    """A `Source` (async iterator of Sample) that hands out scripted samples at scripted clock offsets."""

    def __init__(self, sid, script, env):
        self.sid, self.script, self.env, self.i = sid, script, env, 0
        self.stop_after = None
        self.tz = None

    def __aiter__(self):
        return self

    async def __anext__(self):
        from frequenz.quantities import Quantity
        from frequenz.sdk.timeseries import Sample
        env = self.env
        if self.i >= len(self.script):
            if self.stop_after is not None:
                await env.sleep_until(self.stop_after)
                env.log.append(["srcstop", self.sid, env.clk()])
                raise StopAsyncIteration
            await asyncio.Event().wait()  # silent for ever
        arrival, ts, kind, ident = self.script[self.i]
        self.i += 1
        await env.sleep_until(arrival)
        # kinds: 0 = a number (its identity), 1 = None, 2 = NaN, 3 = +inf, 4 = -inf, 5 = 1e308 (sums overflow)
        if kind == 0:
            q = Quantity(float(ident))
        elif kind == 1:
            q = None
        elif kind == 2:
            q = Quantity(float("nan"))
        else:
            q = Quantity({3: float("inf"), 4: float("-inf"), 5: 1e308}[kind])
            ident = -kind
        env.log.append(["recv", self.sid, ts, kind, ident])
        return Sample(dt(ts, self.tz), q)

    def __repr__(self):
        return f"src{self.sid}"


class _Env:
    def __init__(self, loop):
        self.loop = loop
        self.clock = loop._selector.clock  # async_solipsism's integer-tick clock (1 tick = 1 us)
        self.log = []
        self.base = 0

    def clk(self) -> int:
        return self.clock._ticks - self.base

    async def sleep_until(self, off: int):
        while self.clk() < off:
            await asyncio.sleep((off - self.clk()) / 1e6)


def vcode(v):
    """JSON-able code of a Quantity|None: None, "nan", "inf", "-inf", an int, or repr of a float."""
    if v is None:
        return None
    x = v.base_value
    if x != x:
        return "nan"
    if x in (float("inf"), float("-inf")):
        return "inf" if x > 0 else "-inf"
    return int(x) if x == int(x) and abs(x) < 2**53 else repr(x)


def _sample_rec(s):
    v = s.value
    if v is None:
        return [to_us(s.timestamp), -1, 1]
    if not v.isnan() and abs(v.base_value) >= 1e300:
        x = v.base_value
        k = 3 if x == float("inf") else 4 if x == float("-inf") else 5
        return [to_us(s.timestamp), -k, k]
    if v.isnan():
        return [to_us(s.timestamp), -2, 2]
    return [to_us(s.timestamp), int(v.base_value), 0]


async def _shutdown():
    """Cancel every other task, a bounded number of rounds.  (frequenz.channels' Timer.ready() swallows a
    CancelledError that arrives while it cleans up its helper tasks, so `await task` after one cancel() can
    wait for ever; nothing is recorded after the "end" entry anyway.)"""
    me = asyncio.current_task()
    for _ in range(200):
        rest = [t for t in asyncio.all_tasks() if t is not me and not t.done()]
        if not rest:
            break
        for t in rest:
            t.cancel()
        await asyncio.sleep(0)


async def _scenario(case, loop):
    import time_machine
    from frequenz.sdk.timeseries._resampling import Resampler, ResamplerConfig, ResamplingError
    from frequenz.sdk.timeseries._resampling import average as _average

    env = _Env(loop)
    log = env.log
    clock = env.clock
    clock._ticks += case["loop_t0"]
    env.base = clock._ticks
    start = case["start"]
    age = case["age"][0] / case["age"][1]
    assert Fraction(age) == Fraction(*case["age"])

    with time_machine.travel(dt(start), tick=False) as ft:
        orig_advance = clock.advance

        def sync_wall():
            ft.move_to(dt(start + env.clk()))

        def advance(delta):
            orig_advance(delta)
            sync_wall()
        clock.advance = advance

        ncalls = [0]

        def rec_fn(samples, config, props):
            k = ncalls[0]
            ncalls[0] += 1
            log.append(["fn", k, [_sample_rec(s) for s in samples], td_us(props.sampling_period),
                        props.received_samples,
                        None if props.sampling_start is None else to_us(props.sampling_start)])
            mode = case.get("fn", "index")
            if mode == "average":          # the real default function (inf + -inf -> NaN, 1e308 + 1e308 -> inf)
                return _average(samples, config, props)
            if mode == "spread":           # a custom function: max - min (inf - inf -> NaN)
                vals = [x.value.base_value for x in samples]
                return max(vals) - min(vals)
            if mode == "script":           # unusual but valid results, whatever the input
                return [float(k), float("nan"), float("inf"), None, float("-inf"), 1e308][k % 6]
            return float(k)

        cfg = ResamplerConfig(
            resampling_period=timedelta(microseconds=case["period"]),
            max_data_age_in_periods=age,
            resampling_function=rec_fn,
            initial_buffer_len=case["init_len"], warn_buffer_len=case["warn_len"], max_buffer_len=case["max_len"],
            align_to=None if case["align"] is None else dt(case["align"], case.get("align_tz")),
        )
        rs = Resampler(cfg)
        sources = {}
        calls = {}

        sink_gen = {}

        def mk_sink(sid, spec):
            lat = {int(k): v for k, v in spec.get("lat", {}).items()}
            gen = sink_gen[sid] = sink_gen.get(sid, 0) + 1

            async def sink(sample, sid=sid):
                if sink_gen[sid] != gen:
                    sid = -(sid + 1)      # a sink of a registration that was removed is still being driven
                    log.append(["sink", sid, to_us(sample.timestamp), vcode(sample.value), None, None, env.clk()])
                    log.append(["exit", sid, env.clk(), "ok"])
                    return
                k = calls.get(sid, 0)
                calls[sid] = k + 1
                src = sources[sid]
                props = rs.get_source_properties(src) if src in rs._resamplers else None
                # private peek, read-only: the current buffer capacity (oracle input of the model)
                maxlen = rs._resamplers[src]._helper._buffer.maxlen if src in rs._resamplers else None
                v = sample.value
                log.append(["sink", sid, to_us(sample.timestamp), vcode(v),
                            None if props is None else td_us(props.sampling_period), maxlen, env.clk()])
                try:
                    if lat.get(k, 0) > 0:
                        await env.sleep_until(env.clk() + lat[k])
                    if spec.get("fail_at") == k:
                        raise RuntimeError(f"sink {sid} fails")
                except asyncio.CancelledError:
                    log.append(["exit", sid, env.clk(), "cancel"])
                    raise
                except BaseException:
                    log.append(["exit", sid, env.clk(), "raise"])
                    raise
                log.append(["exit", sid, env.clk(), "ok"])
            return sink

        names = {}

        def add(sid):
            spec = case["series"][sid]
            src = _ScriptedSource(sid, spec.get("samples", []), env)
            src.stop_after = spec.get("stop_at")
            src.tz = case.get("sample_tz")
            sources[sid] = src
            names[id(src)] = sid
            log.append(["add", sid, env.clk()])
            ok = rs.add_timeseries(f"s{sid}", src, mk_sink(sid, spec))
            assert ok

        def remove(sid):
            log.append(["remove", sid, env.clk()])
            rs.remove_timeseries(sources[sid])

        async def supervisor():
            # mimics ComponentMetricsResamplingActor._run / _log_resampling_task_error
            while True:
                try:
                    await rs.resample(one_shot=case["one_shot"])
                    log.append(["tickend", env.clk()])
                except ResamplingError as err:
                    bad = [names[id(s)] for s in err.exceptions]
                    log.append(["raised", bad, env.clk()])
                    for s in err.exceptions:
                        sid = names[id(s)]
                        log.append(["remove", sid, env.clk()])
                        rs.remove_timeseries(s)
                        if case["series"][sid].get("readd") and not any(e[0] == "srcstop" and e[1] == sid for e in log):
                            # the documented recovery: "remove (and re-add if desired) the faulty timeseries before
                            # calling this method again" -- same source object, a new (healthy) sink
                            log.append(["add", sid, env.clk()])
                            assert rs.add_timeseries(f"s{sid}", s, mk_sink(sid, {}))
                except asyncio.CancelledError:
                    raise
                except Exception as exc:  # "unexpected error, restarting..."
                    log.append(["crash", type(exc).__name__, env.clk()])

        actions = []
        for sid, spec in enumerate(case["series"]):
            actions.append((spec["add_at"], 0, "add", sid))
            if spec.get("remove_at") is not None:
                actions.append((spec["remove_at"], 1, "remove", sid))
        for at, dur in case.get("hogs", []):
            actions.append((at, 2, "hog", dur))
        actions.sort()
        started = False
        task = None
        for at, _, kind, arg in actions:
            if at > 0 and not started:
                task = asyncio.create_task(supervisor())
                started = True
            await env.sleep_until(at)
            if kind == "add":
                add(arg)
            elif kind == "remove":
                if arg in sources and sources[arg] in rs._resamplers:
                    remove(arg)
            else:
                a = env.clk()
                clock._ticks += arg  # the loop is blocked for `arg` microseconds
                sync_wall()
                log.append(["hog", a, env.clk()])
        if not started:
            task = asyncio.create_task(supervisor())
        await env.sleep_until(case["duration"])
        log.append(["end", env.clk()])
        await _shutdown()
        clock.advance = orig_advance
    return {"log": log}


def run_scenario(case):
    import async_solipsism
    warnings.filterwarnings("ignore", category=async_solipsism.exceptions.ResolutionWarning)
    loop = async_solipsism.EventLoop()
    asyncio.set_event_loop(loop)
    try:
        return loop.run_until_complete(_scenario(case, loop))
    finally:
        loop.close()
        asyncio.set_event_loop(None)


# ----------------------------------------------------------------------------- log -> boundary trace
def build_trace(case, log):
    """Totally ordered boundary trace: ("add", s, clk) | ("remove", s, clk) | ("tick", dict).

    A tick groups the consecutive sink entries of one gather (a driver action or a repeated series
    closes the group).  In one_shot mode every tick is closed by a marker (tickend / raised / crash),
    so ticks without any sink call are observed too."""
    trace = []
    cur = None            # group still accepting sink entries
    last = None           # most recent tick (for exits / markers)
    dead = []
    open_exit = {}        # sid -> tick whose sink call has not returned yet

    def new_tick(clk):
        t = {"outs": [], "fire": clk, "exits": {}, "fail": [], "dead": list(dead), "marker": None, "mclk": None,
             "vals": {}, "sp": {}, "maxlen": {}, "fn": {}, "during": []}
        trace.append(("tick", t))
        return t
    prev = None
    for e in log:
        k = e[0]
        if k == "end":
            break
        if k in ("add", "remove"):
            cur = None
            if open_exit:
                # the series dictionary changes while a gather is in flight: resample() will pair the results
                # with the keys as they are afterwards (or die with IndexError); the change belongs to that tick
                t = next(iter(open_exit.values()))
                t["during"].append((k, e[1], e[2]))
            else:
                trace.append((k, e[1], e[2]))
        elif k == "hog":
            cur = None
        elif k == "srcstop":
            dead.append(e[1])
        elif k == "sink":
            sid = e[1]
            if cur is None or any(s == sid for s, _ in cur["outs"]) or cur["marker"] is not None:
                cur = new_tick(e[6])
                last = cur
            cur["outs"].append((sid, e[2]))
            cur["vals"][sid], cur["sp"][sid], cur["maxlen"][sid] = e[3], e[4], e[5]
            if prev is not None and prev[0] == "fn":
                cur["fn"][sid] = prev
            open_exit[sid] = cur
        elif k == "exit":
            t = open_exit.pop(e[1], None)
            if t is not None:
                t["exits"][e[1]] = (e[2], e[3])
                if e[3] == "raise":
                    t["fail"].append(e[1])
        elif k in ("tickend", "raised", "crash"):
            if last is not None and last["marker"] is None and (case["one_shot"] or k != "tickend"):
                t = last
            else:
                t = new_tick(e[-1])   # a tick without any sink call
                last = t
            t["marker"], t["mclk"] = k, e[-1]
            if k == "raised":
                t["raised"] = list(e[1])          # in the order of ResamplingError.exceptions
            if k == "crash":
                t["crash"] = e[1]
            cur = None
        prev = e
    # a tick whose gather (or whose few loop iterations after it) had not finished when the run ended:
    # how resample() left it is not observed
    ticks = [it[1] for it in trace if it[0] == "tick"]
    for i, t in enumerate(ticks):
        # without a marker a tick is known to have ended normally only because a later tick was seen
        if len(t["exits"]) < len(t["outs"]) or (t["marker"] is None and (case["one_shot"] or i == len(ticks) - 1)):
            t["incomplete"] = True
    return trace


def hog_list(log):
    return [(e[1], e[2]) for e in log if e[0] == "hog"]


def ambiguous(case, log):
    """Driver add/remove at (nearly) the same clock reading as a tick, a sink return or the end of a hog:
    asyncio gives no order between callbacks that are due together; such runs are not judged."""
    marks = set()
    for e in log:
        if e[0] == "sink":
            marks.add(e[6])
        elif e[0] in ("exit",):
            marks.add(e[2])
        elif e[0] in ("tickend", "raised", "crash"):
            marks.add(e[-1])
        elif e[0] == "hog":
            marks.add(e[2])
    # (the supervisor's own remove / re-add right after a ResamplingError happen between two resample() calls)
    drv = [e[2] for i, e in enumerate(log) if e[0] == "add"
           and not (i > 0 and log[i - 1][0] == "remove" and log[i - 1][1] == e[1] and log[i - 1][2] == e[2])]
    for i, e in enumerate(log):
        if e[0] == "remove" and not (i > 0 and log[i - 1][0] in ("raised", "remove") and log[i - 1][-1] == e[2]):
            drv.append(e[2])
    for t in drv:
        if t == 0:
            continue
        if any(abs(t - m) <= 2 for m in marks):
            return True
    return False


# ----------------------------------------------------------------------------- C07: Coq rendering
def c_pairs(ps):
    return "[" + "; ".join(f"({cZ(a)}, {cZ(b)})" for a, b in ps) + "]"


C07_HEADER = """From Verif Require Import model.Resampler.
(* recorded boundary trace: model event + what the implementation did at it; CSilent w = the ticks
   whose window ends before wall-clock instant w fired while no series was registered (the timer
   delivers the tick for window end T at T: runtime assumption, see C07 ASSUMPTIONS).
   Timestamps in a case are written relative to its creation instant [now] (parsing 16-digit literals
   is slow); [mk07] adds [now] back, the model runs on absolute microseconds. *)
Inductive cevent :=
| CE (e : revent) (exp : list (Z * Z) * outcome)
| CEo (e : revent) (exp : list (Z * Z))      (* how this tick ended was not observed (the run ended first) *)
| CSilent (wall : Z).
Definition sh_outs (b : Z) (o : list (Z * Z)) := map (fun p => (fst p, b + snd p)) o.
Definition sh_cev (b : Z) (e : cevent) : cevent :=
  match e with
  | CE e o => CE e (sh_outs b (fst o), snd o)
  | CEo e o => CEo e (sh_outs b o)
  | CSilent w => CSilent (b + w)
  end.
Fixpoint ccheck (period : Z) (st : rstate) (es : list cevent) : bool :=
  match es with
  | [] => true
  | CE e exp :: es' => let '(st', o) := rstep period st e in outs_eqb o exp && ccheck period st' es'
  | CEo e exp :: es' => let '(st', o) := rstep period st e in outs_eqb (fst o, OOk) (exp, OOk) && ccheck period st' es'
  | CSilent wall :: es' =>
    let n := if wall <=? r_wend st then 0 else (wall - r_wend st + period - 1) / period in
    ccheck period (Nat.iter (Z.to_nat n) (fun s => fst (rstep period s (Tick 0 [] [] []))) st) es'
  end.
Definition mk07 (now period : Z) (align ff : option Z) (es : list cevent)
  : Z * Z * option Z * option Z * list cevent :=
  (now, period, align, match ff with Some f => Some (now + f) | None => None end, map (sh_cev now) es).
Definition check (c : Z * Z * option Z * option Z * list cevent) : bool :=
  let '(now, period, align, ff, es) := c in
  let we := window_end now period align in
  opt_eqb Z.eqb (match ff with Some _ => Some (first_tick_at now period we) | None => None end) ff &&
  ccheck period (rinit now period align we) es.
"""


def c07_parts(case, log):
    """(first_fire or None, list of rendered cevents, ticks)"""
    trace = build_trace(case, log)
    hogs = hog_list(log)
    start = case["start"]
    evs = []
    ticks = []
    seen_tick = False
    first_fire = None
    for it in trace:
        if it[0] == "add":
            if not seen_tick and not case["one_shot"] and it[2] > 0 and not any(x.startswith("(CSilent") for x in evs):
                evs.append(f"(CSilent {cZ(it[2])})")
                seen_tick = True   # later ticks are not "tick 0"
            evs.append(f"(CE (Add {cZ(it[1])}) ([], OOk))")
        elif it[0] == "remove":
            evs.append(f"(CE (Remove {cZ(it[1])}) ([], OOk))")
        else:
            t = it[1]
            if not seen_tick:
                seen_tick = True
                if not any(h0 <= t["fire"] + 2 for h0, _ in hogs):
                    first_fire = t["fire"]
            T = t["outs"][0][1] if t["outs"] else None
            late = 0 if T is None else t["fire"] - (T - start)
            if t["marker"] == "raised":
                how = f"(ORaised {clist(t['raised'])})"
            elif t["marker"] == "crash" and t.get("crash") == "IndexError":
                how = "OCrash"
            elif t["marker"] == "crash":
                how = "(ORaised [-1])"        # an exception the model does not know: shows up as a disagreement
            else:
                how = "OOk"
            during = "[" + "; ".join(f"({'CAdd' if k == 'add' else 'CRemove'} {cZ(sid)})" for k, sid, _ in t["during"]) + "]"
            tick = f"(Tick {cZ(late)} {clist(sorted(t['fail']))} {clist(sorted(t['dead']))} {during})"
            outs = [(sid, T_ - start) for sid, T_ in t["outs"]]
            if t.get("incomplete"):
                evs.append(f"(CEo {tick} {c_pairs(outs)})")
            else:
                evs.append(f"(CE {tick} ({c_pairs(outs)}, {how}))")
            ticks.append(t)
    return first_fire, evs, ticks


def c07_term(case, obs):
    ff, evs, _ = c07_parts(case, obs["log"])
    return f"(mk07 {cZ(case['start'])} {cZ(case['period'])} {copt(case['align'])} {copt(ff)} [{'; '.join(evs)}])"


# ----------------------------------------------------------------------------- C08: Coq rendering
C08_HEADER = """From Verif Require Import model.Resampler.
(* Timestamps in a case are written relative to a per-case base (parsing 16-digit literals is slow);
   [mk08] adds the base back, the model runs on absolute microseconds. *)
Definition sh_item (b : Z) (x : item) : item := mkI (b + i_ts x) (i_id x) (i_kind x).
Definition R (ts id kind : Z) : hevent * option hexp := (Recv (mkI ts id kind), None).
Definition K (T osp olen : Z) (p : list item) (v : bool) (sp : option Z) (ml : Z) : hevent * option hexp :=
  (HTick T osp olen, Some (p, v, sp, ml)).
Definition sh_ev (b : Z) (e : hevent * option hexp) : hevent * option hexp :=
  match e with
  | (Recv x, _) => (Recv (sh_item b x), None)
  | (HTick T osp olen, Some (p, v, sp, ml)) => (HTick (b + T) osp olen, Some (map (sh_item b) p, v, sp, ml))
  | (HTick T osp olen, None) => (HTick (b + T) osp olen, None)
  end.
Definition mk08 (b : Z) (c : hconf) (es : list (hevent * option hexp)) : hconf * list (hevent * option hexp) :=
  (c, map (sh_ev b) es).
Definition check1 (c : hconf * list (hevent * option hexp)) : bool := hcheck (fst c) (hinit (fst c)) (snd c).
Definition check (cs : list (hconf * list (hevent * option hexp))) : bool := forallb check1 cs.
"""


def c_item(x):
    return f"(mkI {cZ(x[0])} {cZ(x[1])} {cZ(x[2])})"


def series_history(case, log, sid):
    """Per-source event list [("recv", [ts,id,kind]) | ("tick", T, passed, value, sp, maxlen)] up to its last tick."""
    out = []
    prev = None
    for e in log:
        if e[0] == "recv" and e[1] == sid:
            out.append(("recv", [e[2], e[4], e[3]]))
        elif e[0] == "sink" and e[1] == sid:
            passed = []
            called = False
            if prev is not None and prev[0] == "fn":
                passed, called = prev[2], True
            # the value handed to the sink must be the function's result for that very call
            linked = (e[3] is None and not called) or (called and e[3] == prev[1]) or case.get("fn", "index") != "index"
            out.append(("tick", e[2], passed, e[3], e[4], e[5], linked))
        prev = e
    while out and out[-1][0] != "tick":
        out.pop()
    return out


def actor_series_history(case, log, sid):
    """series_history() for the actor path: the sample handed to the output channel is read by a consumer task a few
    loop iterations after the function was called, so a tick is linked to its call by the call index the recording
    function returned (the emitted value), not by adjacency in the log."""
    calls = {e[1]: e for e in log if e[0] == "fn"}
    out = []
    for e in log:
        if e[0] == "recv" and e[1] == sid:
            out.append(("recv", [e[2], e[4], e[3]]))
        elif e[0] == "sink" and e[1] == sid:
            call = calls.get(e[3]) if isinstance(e[3], int) else None
            passed = call[2] if call else []
            linked = (e[3] is None) or call is not None
            out.append(("tick", e[2], passed, e[3], e[4], e[5], linked))
    while out and out[-1][0] != "tick":
        out.pop()
    return out


def c08_term(case, obs, history=None):
    history = history or series_history
    parts = []
    b = case["start"]
    item = lambda x: f"(mkI {cZ(x[0] - b)} {cZ(x[1])} {cZ(x[2])})"
    for sid in range(len(case.get("series") or case["metrics"])):
        h = history(case, obs["log"], sid)
        if not h:
            continue
        evs = []
        for ev in h:
            if ev[0] == "recv":
                x = ev[1]
                evs.append(f"R {cZ(x[0] - b)} {cZ(x[1])} {cZ(x[2])}")
            else:
                _, T, passed, val, sp, maxlen, _ = ev
                evs.append(f"K {cZ(T - b)} {cZ(sp or 0)} {cZ(maxlen)} {clist(passed, item)} "
                           f"{cbool(val is not None)} {copt(sp)} {cZ(maxlen)}")
        conf = (f"(mkC {cZ(case['period'])} {cZ(case['age'][0])} {cZ(case['age'][1])} {cZ(case['init_len'])} "
                f"{cZ(case['max_len'])})")
        parts.append(f"(mk08 {cZ(b)} {conf} [{'; '.join(evs)}])")
    if not parts:
        return None
    return "[" + "; ".join(parts) + "]"


# ----------------------------------------------------------------------------- generators
PERIODS = [200_000, 1_000_000, 3_000_000, 7_000_000]
BASE = 1_700_000_000_000_000
AGES = [[1, 1], [3, 2], [3, 1]]


def float_guard_ok(period, age):
    """The one float comparison of the update guard (`received < period_s * age`) must decide like the
    exact rational comparison of the model for every integer `received`."""
    f = (period / 1e6) * (age[0] / age[1])
    exact = Fraction(period, 10**6) * Fraction(*age)
    return math.ceil(f) == math.ceil(exact) and (exact.denominator != 1 or f == exact)


def gen_timing(rng, tier):
    """period, align, start (every phase class), loop_t0."""
    p = rng.choice(PERIODS)
    if tier != "quick" and rng.random() < 0.2:
        p = rng.choice([250_000, 333_333, 1_500_000, 999_999, 10_000_000, 60_000_000])
    phase = rng.choice([0, 0, 1, p - 1, p // 2, p // 2 + 1, p // 2 - 1, rng.randrange(p), rng.randrange(p)])
    kind = rng.choice(["epoch", "past", "future", "none", "epoch", "past"])
    if kind == "epoch":
        align = 0
        start = (BASE // p + rng.randrange(10**6)) * p + phase
    elif kind == "none":
        align = None
        start = BASE + rng.randrange(10**12)
    else:
        start = BASE + rng.randrange(10**12)
        m = rng.choice([0, 1, 2, 17, rng.randrange(10**6)])
        if kind == "past":
            align = start - phase - m * p
        else:
            align = start - phase + (m + 1) * p
    loop_t0 = rng.choice([0, 0, 1, 999_999, 123_456_789, rng.randrange(10**10)])
    return p, align, start, loop_t0, kind, phase


# DST transitions (UTC instants, microseconds) of the zones used for align_to / sample stamps
DST_ZONES = {
    "Europe/Berlin": [1698541200_000000, 1711846800_000000],        # 2023-10-29 01:00Z (back), 2024-03-31 01:00Z (forward)
    "America/New_York": [1699164000_000000, 1710054000_000000],     # 2023-11-05 06:00Z (back), 2024-03-10 07:00Z (forward)
}


def dst_shift(rng, p, start, nticks):
    """(zone, delta): delta is a multiple of p that moves `start` a few ticks before a DST transition of `zone`
    (so the run crosses it), or into the summer before it (creation in the other regime than an epoch/winter align_to)."""
    zone = rng.choice(sorted(DST_ZONES))
    x = rng.choice(DST_ZONES[zone])
    r = rng.random()
    if r < 0.7:
        target = x - rng.randint(1, max(1, nticks - 2)) * p          # the run crosses the transition
    elif r < 0.85:
        target = x - rng.randrange(10**12, 6 * 10**12)               # weeks before it
    else:
        target = x + rng.randrange(10**9, 10**12)                    # shortly after it
    return zone, ((target - start) // p) * p


def tick_phase(p, align, start):
    """offset (mod p) from creation at which grid points occur"""
    return 0 if align is None else (align - start) % p


def gen_c07_case(rng, tier):
    p, align, start, loop_t0, kind, phase = gen_timing(rng, tier)
    one_shot = rng.random() < 0.3
    nticks = rng.randint(5, 12)
    align_tz = None
    if align is not None and rng.random() < 0.3:
        align_tz, delta = dst_shift(rng, p, start, nticks)
        start += delta
        if kind != "epoch":
            align += delta
    duration = nticks * p + 500_000 + rng.randrange(1000)
    ph = tick_phase(p, align, start)
    res = [r for r in (137, 389, 641, 883) if min((r - ph) % 1000, (ph - r) % 1000) > 5]
    r_add, r_hog = res[0], res[1]
    nser = rng.choice([1, 2, 2, 3, 4])
    series = []
    # what the resampling function returns: a number / the real `average` and a custom max-min over streams that
    # contain +-inf pairs and huge values (-> NaN, inf) / a script of NaN, inf, None, 1e308 whatever the input
    fn_mode = rng.choice(["index", "index", "average", "spread", "script", "script"])
    silent_start = rng.random() < 0.25
    t_first = 0 if not silent_start else rng.choice([p // 2, p, 2 * p, 3 * p, 4 * p + p // 2]) // 1000 * 1000 + r_add
    lat_choices = [p // 4, p // 2, p - 1000, p, p + 1000, 3 * p // 2, 2 * p, 3 * p, 7 * p // 2]
    for i in range(nser):
        s = {"add_at": t_first, "samples": []}
        immortal = (i == 0 and not one_shot)
        if i > 0 and rng.random() < 0.6:
            s["add_at"] = max(t_first, rng.randrange(0, max(1, int(duration * 0.7))) // 1000 * 1000 + r_add)
        if rng.random() < 0.5:
            s["lat"] = {str(rng.randrange(0, 8)): rng.choice(lat_choices) // 1000 * 1000 for _ in range(rng.randint(1, 2))}
        if not immortal:
            r = rng.random()
            if r < 0.3:
                s["fail_at"] = rng.randrange(0, 5)
                s["readd"] = rng.random() < 0.5
            elif r < 0.45:
                s["remove_at"] = s["add_at"] + rng.randrange(p, 5 * p) // 1000 * 1000 + (0 if s["add_at"] else r_add)
            elif r < 0.55:
                s["stop_at"] = s["add_at"] + rng.randrange(p, 4 * p)
        if rng.random() < 0.5:
            ip = rng.choice([p // 3, p // 2, p, 2 * p])
            n = min(60, duration // ip)
            kinds = [0] * 6 + ([1, 2, 3, 4, 3, 4, 5] if fn_mode != "index" else [1, 2])
            s["samples"] = [[s["add_at"] + 1000 + j * ip + 77, start + s["add_at"] + j * ip, rng.choice(kinds), i * 100000 + j]
                            for j in range(n)]
        series.append(s)
    hogs = []
    for _ in range(rng.choice([0, 0, 1, 1, 2])):
        k = rng.randrange(0, nticks)
        how = rng.random()
        if how < 0.5:       # released exactly at a later tick instant: lateness of exactly m periods
            delta = rng.choice([1, 1000, p // 3])
            at = ph + (k + 1) * p - delta
            dur = delta + rng.choice([0, 1, 1, 2, 3]) * p
        else:
            at = rng.randrange(0, nticks * p) // 1000 * 1000 + r_hog
            dur = rng.choice([p // 3, p - 1, p, p + 1, 5 * p // 2, 3 * p])
        if at > 0 and dur > 0:
            hogs.append([at, dur])
    hogs.sort()
    # hogs must not overlap each other
    hogs = [h for i, h in enumerate(hogs) if i == 0 or h[0] > hogs[i - 1][0] + hogs[i - 1][1]]
    # a driver action that falls into a blocked interval would run together with the ticks released at its end
    for s in series:
        for fld in ("add_at", "remove_at"):
            for h0, d in hogs:
                if s.get(fld) and h0 - 3 <= s[fld] <= h0 + d + 3 and rng.random() < 0.9:
                    s[fld] = (h0 + d) // 1000 * 1000 + 2000 + r_add
    return {"period": p, "align": align, "start": start, "loop_t0": loop_t0, "age": [3, 1], "init_len": 16,
            "warn_len": 128, "max_len": 1024, "one_shot": one_shot, "duration": duration, "series": series, "hogs": hogs,
            "align_tz": align_tz, "fn": fn_mode,
            "tag": {"align": kind, "phase": ("0" if phase == 0 else "+1" if phase == 1 else "-1" if phase == p - 1 else
                                              "half" if abs(phase - p // 2) <= 1 else "other")}}


def c07_boundary_cases():
    """Hand-written: the classes named in the property (exact alignment, +-1 us, lateness of exactly one
    period, latency of several periods, failing sink, series added while the loop is behind)."""
    out = []
    P = 1_000_000
    for p in (200_000, P):
        for phase in (0, 1, p - 1, p // 2):
            for align_kind in ("epoch", "none", "future"):
                start = (BASE // p) * p + phase
                align = 0 if align_kind == "epoch" else None if align_kind == "none" else start - phase + 5 * p
                ph = tick_phase(p, align, start)
                out.append({"period": p, "align": align, "start": start, "loop_t0": 123_456_789, "age": [3, 1], "init_len": 16,
                            "warn_len": 128, "max_len": 1024, "one_shot": False, "duration": 9 * p + 500_000,
                            "series": [{"add_at": 0, "samples": [], "lat": {"1": p, "3": 3 * p}},
                                       {"add_at": 2 * p + 389 if ph != 389 else 2 * p + 641, "samples": [], "fail_at": 2},
                                       {"add_at": 0, "samples": [], "fail_at": 1, "readd": True}],
                            "hogs": [[ph + 6 * p - 1000, 1000 + p]],
                            "tag": {"align": align_kind, "phase": str(phase)}})
    # align_to given in a DST-observing zone: runs that cross a transition, creation in the other regime
    for zone, xs in sorted(DST_ZONES.items()):
        for x in xs:
            for p in (P, 7 * P):
                for phase in (0, p // 2):
                    for align in (0, x + 3600 * P + 5 * p, x - 40 * 86400 * P):
                        start = x - 3 * p + phase - (x - align) % p
                        out.append({"period": p, "align": align, "align_tz": zone, "start": start, "loop_t0": 0, "age": [3, 1],
                                    "init_len": 16, "warn_len": 128, "max_len": 1024, "one_shot": False, "duration": 8 * p + 500_000,
                                    "series": [{"add_at": 0, "samples": []}, {"add_at": 0, "samples": [], "fail_at": 3}],
                                    "hogs": [], "tag": {"align": "dst:" + zone, "phase": str(phase)}})
    return out


def gen_c08_case(rng, tier):
    if rng.random() < 0.08:
        return gen_equal_period_case(rng)
    p, align, start, loop_t0, kind, phase = gen_timing(rng, tier)
    ages = AGES + ([[11, 10], [9, 4], [2, 1]] if tier != "quick" else [])
    while True:
        age_q = rng.choice(ages)
        f = age_q[0] / age_q[1]
        age = list(Fraction(f).as_integer_ratio())      # the float's exact value
        if float_guard_ok(p, age):
            break
    init_len = rng.choice([1, 2, 3, 4, 8, 16, 32])
    if rng.random() < 0.2:
        warn_len, max_len = rng.choice([(1, 2), (2, 5), (4, 9)])
        init_len = min(init_len, max_len)
    else:
        warn_len, max_len = 128, 1024
    nticks = rng.randint(6, 16)
    duration = nticks * p + 500_000
    zone = None
    if rng.random() < 0.2:
        zone, delta = dst_shift(rng, p, start, nticks)
        start += delta
        if align is not None and kind != "epoch":
            align += delta
    ph = tick_phase(p, align, start)
    # wall-clock instants of the grid points after creation (property-level knowledge)
    grid = [start + ph + k * p for k in range(0, nticks + 3)]
    R = _div_round_he(p * age[0], age[1])
    nser = rng.choice([1, 1, 2])
    series = []
    # the real default `average` / a custom max-min over streams that contain +-inf and huge values
    fn_mode = rng.choice(["index"] * 5 + ["average", "spread"])
    for i in range(nser):
        ratio = rng.choice([Fraction(1, 7), Fraction(1, 3), Fraction(1, 2), Fraction(1), Fraction(2), Fraction(3),
                            Fraction(7), Fraction(3, 2), Fraction(2, 3)])
        ip = max(1, int(p * ratio))
        pattern = rng.choice(["regular", "regular", "jitter", "burst", "silence", "future", "late_burst"])
        special = fn_mode != "index"
        ts_list = []
        t = start - rng.randrange(0, 2 * ip + 1)
        end = start + duration
        if pattern == "late_burst":
            # the source's very first samples are a burst stamped within microseconds before a tick: enough of them
            # to fill the buffer and to trigger the input-period estimate at that tick
            g = grid[rng.randint(1, 3)]
            n = max(init_len, math.ceil(p / 1e6 * age[0] / age[1])) + rng.randint(0, 2)
            t = g - rng.choice([1, 1, 2, 3, 10, 1000, p // 10])
            for _ in range(n):
                ts_list.append(t)
                t = min(g, t + rng.choice([0, 0, 0, 1]))
            t = g + rng.choice([1, ip])
        while t < end and len(ts_list) < 400:
            ts_list.append(t)
            if pattern == "jitter":
                t += rng.randrange(1, 2 * ip)
            elif pattern == "burst" and rng.random() < 0.3:
                t += rng.choice([0, 0, 1, 2])
            elif pattern == "silence" and rng.random() < 0.08:
                t += R + rng.randrange(0, 3 * p)
            else:
                t += ip
        # boundary stamps: exactly T, T +- 1, exactly T - max_age*period, +- 1
        for g in rng.sample(grid, min(len(grid), rng.randint(1, 4))):
            ts_list += rng.sample([g, g, g - 1, g + 1, g - R, g - R, g - R - 1, g - R + 1, g - p, g + p // 2], rng.randint(1, 4))
        ts_list = sorted(x for x in ts_list)
        out_of_order = rng.random() < 0.08
        if out_of_order:
            for _ in range(rng.randint(1, 3)):
                a, b = rng.randrange(len(ts_list)), rng.randrange(len(ts_list))
                ts_list[a], ts_list[b] = ts_list[b], ts_list[a]
        samples = []
        arr_prev = 0
        for j, ts in enumerate(ts_list):
            if pattern == "future":
                delay = -rng.choice([0, 1, p // 2, p, 2 * p])      # arrives before its own timestamp
            else:
                delay = rng.choice([0, 1, 1000, ip // 3, ip // 3, p // 2, p + 1])
            arr = max(arr_prev, ts - start + delay, 0)
            arr_prev = arr
            r = rng.random()
            kindv = 0 if r < 0.85 else (1 if r < 0.93 else 2)
            if special and rng.random() < 0.25:
                kindv = rng.choice([3, 4, 3, 4, 5])          # +inf / -inf / 1e308: valid values
            samples.append([arr, ts, kindv, i * 100000 + j])
        s = {"add_at": 0 if rng.random() < 0.8 else rng.randrange(0, 3 * p) // 1000 * 1000 + 137, "samples": samples}
        if rng.random() < 0.35:
            s["lat"] = {str(rng.randrange(0, 10)): rng.choice([p // 2, p, 3 * p // 2, 5 * p // 2]) // 1000 * 1000}
        series.append(s)
    case = {"period": p, "align": align, "start": start, "loop_t0": loop_t0, "age": age, "init_len": init_len,
            "warn_len": warn_len, "max_len": max_len, "one_shot": rng.random() < 0.15, "duration": duration,
            "series": series, "hogs": [],
            "sample_tz": zone, "align_tz": zone if (zone and align is not None and rng.random() < 0.5) else None,
            "fn": fn_mode,
            "tag": {"ordered": all(is_time_ordered(s["samples"]) for s in series)}}
    if rng.random() < 0.5:
        _add_input_period_boundaries(rng, case)
    return case


def _add_input_period_boundaries(rng, case):
    """Second pass for up-sampling sources: once the implementation has estimated the input period sp (> period),
    stamp samples exactly at T - max_age*sp (and +-1 us) for later ticks T.  Best effort: the labels count hits."""
    p, start = case["period"], case["start"]
    an, ad = case["age"]
    try:
        log = run_scenario(case)["log"]
    except Exception:
        return
    for sid, s in enumerate(case["series"]):
        if not is_time_ordered(s["samples"]):
            continue
        ticks = [(e[2], e[4], e[6]) for e in log if e[0] == "sink" and e[1] == sid]
        first = next(((T, sp, clk) for T, sp, clk in ticks if sp is not None), None)
        if first is None or first[1] <= p:
            continue
        Tu, sp, clk_u = first
        Rr = _div_round_he(sp * an, ad)
        later = [T for T, _, _ in ticks if T - Rr - 1 > Tu]
        if not later:
            continue
        new_ts = []
        for T in rng.sample(later, min(len(later), 2)):
            new_ts += [T - Rr - 1, T - Rr, T - Rr + 1]
        nid = max([x[3] for x in s["samples"]] + [sid * 100000]) + 1
        merged = sorted(s["samples"] + [[None, ts, 0, nid + j] for j, ts in enumerate(sorted(set(new_ts)))],
                        key=lambda x: (x[1], x[0] is None))
        prev = 0
        for x in merged:
            if x[0] is None:
                x[0] = max(prev, clk_u + 1000)
            x[0] = max(x[0], prev)
            prev = x[0]
        s["samples"] = merged


def gen_equal_period_case(rng, p=None, age=None, init_len=None):
    """A source whose measured input period is EXACTLY the resampling period (one sample per grid point, each
    delivered just after the tick it is stamped with), for periods other than 1 s too: the boundary between the
    up- and the down-sampling formula of the buffer length (documented capacity there: ceil(max_age)).
    After the period has been learned a burst of sub-period samples shows a buffer that is too big."""
    while True:
        pp = p or rng.choice([200_000, 250_000, 500_000, 2_000_000, 3_000_000, 7_000_000, 1_000_000])
        aq = age or rng.choice([[1, 1], [3, 2], [2, 1], [3, 1], [4, 1]])
        aq = list(Fraction(aq[0] / aq[1]).as_integer_ratio())
        if float_guard_ok(pp, aq):
            break
    n0 = init_len or rng.choice([1, 2, 3, 4])
    start = (BASE // pp + rng.randrange(1000)) * pp + rng.choice([0, pp // 2, 1])
    ph = tick_phase(pp, 0, start)
    nticks = rng.randint(12, 18)
    first = start + ph + pp * rng.choice([0, 1])           # a grid point
    samples = []
    j = 0
    burst_at = rng.randint(8, 11)
    for k in range(nticks):
        ts = first + k * pp
        samples.append([ts - start + 1000, ts, 0, j])       # delivered 1 ms after the tick it is stamped with
        j += 1
        if k == burst_at:
            for q in (1, 2, 3):                              # three more samples inside the next period
                t2 = ts + q * pp // 4
                samples.append([t2 - start + 1000, t2, 0, j])
                j += 1
    samples.sort(key=lambda x: (x[1], x[0]))
    arr = 0
    for x in samples:
        x[0] = arr = max(arr, x[0])
    return {"period": pp, "align": 0, "start": start, "loop_t0": 0, "age": aq, "init_len": n0, "warn_len": 128,
            "max_len": 1024, "one_shot": False, "duration": (nticks + 2) * pp + 500_000,
            "series": [{"add_at": 0, "samples": samples}], "hogs": [], "tag": {"ordered": True, "family": "equal_period"}}


def _div_round_he(a, b):
    q, r = divmod(a, b)
    if 2 * r > b or (2 * r == b and q % 2 == 1):
        q += 1
    return q


def documented_capacity(case, sp):
    """The buffer the documentation configures once the input period `sp` (us) is known:
    ceil(sp_seconds * max_age) when up-sampling (sp strictly greater than the resampling period), otherwise
    ceil(period / sp * max_age); at least 1, at most max_buffer_len.  Exact rationals.  Returns (capacity,
    set of capacities a float ceil may legitimately produce: the neighbour only if the exact quotient is within
    1e-9 (relative) of an integer)."""
    p, (an, ad) = case["period"], case["age"]
    a, b = (sp * an, 10**6 * ad) if sp > p else (p * an, sp * ad)
    fl, fr = divmod(a, b)
    clamp = lambda n: min(max(1, n), case["max_len"])
    raw = fl if fr == 0 else fl + 1
    ok = {clamp(raw)}
    if fr * 10**9 <= a:
        ok.add(clamp(fl + 1 if fr == 0 else fl))
    if (b - fr) * 10**9 <= a:
        ok.add(clamp(fl + 2))
    return clamp(raw), ok


def is_time_ordered(samples):
    """valid samples are handed over in non-decreasing timestamp order"""
    ts = [s[1] for s in samples if s[2] not in (1, 2)]
    return all(a <= b for a, b in zip(ts, ts[1:]))


def shrink_scenario(case):
    ser = case["series"]
    if case.get("hogs"):
        for i in range(len(case["hogs"])):
            yield {**case, "hogs": case["hogs"][:i] + case["hogs"][i + 1:]}
    for i in range(len(ser) - 1, 0, -1):
        yield {**case, "series": ser[:i] + ser[i + 1:]}
    for i, s in enumerate(ser):
        for fld in ("lat", "fail_at", "remove_at", "stop_at"):
            if s.get(fld) is not None:
                s2 = {k: v for k, v in s.items() if k != fld}
                yield {**case, "series": ser[:i] + [s2] + ser[i + 1:]}
        n = len(s.get("samples", []))
        if n:
            for a, b in ((0, n // 2), (n // 2, n)):
                yield {**case, "series": ser[:i] + [{**s, "samples": s["samples"][:a] + s["samples"][b:]}] + ser[i + 1:]}
            if n <= 12:
                for j in range(n):
                    yield {**case, "series": ser[:i] + [{**s, "samples": s["samples"][:j] + s["samples"][j + 1:]}] + ser[i + 1:]}
    if case["duration"] > 3 * case["period"]:
        yield {**case, "duration": case["duration"] - 2 * case["period"]}
    if case["loop_t0"]:
        yield {**case, "loop_t0": 0}


class ScenarioStream(Stream):
    def run_impl(self, case):
        return run_scenario(case)

    def shrink(self, case):
        return shrink_scenario(case)


def c08_boundary_cases():
    """Hand-written: samples stamped exactly T, T+1 (arriving before the tick), exactly T - max_age*period and
    its neighbours, None/NaN in between, capacity 1 .. 32, one-and-a-half periods of age, a silence."""
    out = []
    for p in (200_000, 1_000_000, 3_000_000):
        for age in ([1, 1], [3, 2], [3, 1]):
            for init_len in (1, 3, 32):
                start = (BASE // p) * p + p // 2           # ticks at start + p/2 + k*p
                g = [start + p // 2 + k * p for k in range(1, 12)]
                Rr = _div_round_he(p * age[0], age[1])
                stamps = []
                for k in (1, 2, 3, 4, 6):
                    stamps += [g[k] - Rr - 1, g[k] - Rr, g[k] - Rr + 1, g[k] - 1, g[k], g[k] + 1]
                stamps = sorted(set(stamps))
                samples = []
                prev = 0
                for j, ts in enumerate(stamps):
                    # everything arrives early enough to be buffered at the tick it is a boundary of
                    arr = max(prev, ts - start - (Rr if j % 2 else 0) - 1000, 0)
                    arr = min(arr, max(prev, ts - start))
                    prev = arr
                    samples.append([arr, ts, 0 if j % 7 != 5 else (1 if j % 2 else 2), j])
                out.append({"period": p, "align": 0, "start": start, "loop_t0": 0, "age": age, "init_len": init_len,
                            "warn_len": 128, "max_len": 1024, "one_shot": False, "duration": 9 * p,
                            "series": [{"add_at": 0, "samples": samples}], "hogs": [], "tag": {"ordered": True}})
    import random
    r = random.Random(7)
    for p in (250_000, 500_000, 2_000_000, 3_000_000):
        for age in ([1, 1], [3, 2], [4, 1]):
            for init_len in (1, 4):
                out.append(gen_equal_period_case(r, p, age, init_len))
    return out


# ----------------------------------------------------------------------------- the real actor (C07, oracle only)
async def _actor_scenario(case, loop):
    """ComponentMetricsResamplingActor with real channels: requests arrive over the request channel, sources
    are registry channels (closing one makes its series fail with SourceStoppedError -> ResamplingError ->
    the actor removes it and calls resample() again), outputs are read from the registry's output channels."""
    import time_machine
    from frequenz.channels import Broadcast
    from frequenz.client.microgrid import ComponentMetricId
    from frequenz.quantities import Quantity
    from frequenz.sdk._internal._channels import ChannelRegistry
    from frequenz.sdk.microgrid._data_sourcing import ComponentMetricRequest
    from frequenz.sdk.microgrid._resampling import ComponentMetricsResamplingActor
    from frequenz.sdk.timeseries import Sample
    from frequenz.sdk.timeseries._resampling import ResamplerConfig
    import dataclasses

    env = _Env(loop)
    log = env.log
    clock = env.clock
    clock._ticks += case["loop_t0"]
    env.base = clock._ticks
    start = case["start"]
    with time_machine.travel(dt(start), tick=False) as ft:
        orig_advance = clock.advance

        def sync_wall():
            ft.move_to(dt(start + env.clk()))

        def advance(delta):
            orig_advance(delta)
            sync_wall()
        clock.advance = advance
        registry = ChannelRegistry(name="verif")
        ds_chan = Broadcast[ComponentMetricRequest](name="ds")
        ds_recv = ds_chan.new_receiver(limit=1000)  # keeps the data-sourcing request channel consumed
        assert ds_recv is not None
        req_chan = Broadcast[ComponentMetricRequest](name="req")
        ncalls = [0]

        def rec_fn(samples, config, props):
            k = ncalls[0]
            ncalls[0] += 1
            log.append(["fn", k, [_sample_rec(x) for x in samples], td_us(props.sampling_period),
                        props.received_samples,
                        None if props.sampling_start is None else to_us(props.sampling_start)])
            return float(k)

        kw = {}
        if case.get("record_fn"):
            age = case["age"][0] / case["age"][1]
            kw = {"max_data_age_in_periods": age, "resampling_function": rec_fn, "initial_buffer_len": case["init_len"],
                  "warn_buffer_len": case["warn_len"], "max_buffer_len": case["max_len"]}
        cfg = ResamplerConfig(resampling_period=timedelta(microseconds=case["period"]),
                              align_to=None if case["align"] is None else dt(case["align"], case.get("align_tz")), **kw)

        class ProbedActor(ComponentMetricsResamplingActor):
            """The real actor; `_run` is only bracketed (log when it is entered / left) and can be made to raise an
            Exception on demand after the real `_run` has been cancelled and has run its `finally` -- the way an
            unhandled error leaves it -- so that the Actor base class re-enters it after RESTART_DELAY."""
            fault = None

            async def _run(self):
                log.append(["up", env.clk()])
                self.fault = asyncio.Event()
                run = asyncio.ensure_future(ComponentMetricsResamplingActor._run(self))
                flt = asyncio.ensure_future(self.fault.wait())
                try:
                    done, _ = await asyncio.wait([run, flt], return_when=asyncio.FIRST_COMPLETED)
                except asyncio.CancelledError:
                    run.cancel()
                    flt.cancel()
                    await asyncio.gather(run, flt, return_exceptions=True)
                    log.append(["down", env.clk()])
                    raise
                flt.cancel()
                if run in done:
                    log.append(["down", env.clk()])
                    return run.result()
                run.cancel()
                await asyncio.gather(run, return_exceptions=True)
                log.append(["down", env.clk()])
                raise RuntimeError("injected fault")

        actor = ProbedActor(channel_registry=registry, data_sourcing_request_sender=ds_chan.new_sender(),
                            resampling_request_receiver=req_chan.new_receiver(limit=1000), config=cfg)
        actor.start()
        req_sender = req_chan.new_sender()
        tasks = []
        src_chans = {}
        senders = {}

        def helper_of(sid):
            rs = getattr(actor, "_resampler", None)          # read-only peek (capacity / period for the C08 oracle)
            if rs is None:
                return None
            for sh in rs._resamplers.values():
                if f"component_id={sid}," in sh._helper._name:
                    return sh._helper
            return None

        async def consume(sid, recv):
            async for smp in recv:
                log.append(["out", sid, to_us(smp.timestamp), env.clk()])
                if case.get("record_fn"):
                    h = helper_of(sid)
                    log.append(["sink", sid, to_us(smp.timestamp), vcode(smp.value),
                                None if h is None else td_us(h.source_properties.sampling_period),
                                None if h is None else h._buffer.maxlen, env.clk()])

        actions = []
        for sid, m in enumerate(case["metrics"]):
            actions.append((m["req_at"], 0, "req", sid))
            if m.get("close_at") is not None:
                actions.append((m["close_at"], 1, "close", sid))
            for k in range(m.get("nsamples", 0)):
                actions.append((m["req_at"] + 1000 + k * m["ip"], 3, "send", (sid, None)))
            for j, x in enumerate(m.get("samples", [])):       # scripted [at, ts, kind, id]; equal `at` = back to back
                actions.append((x[0], 3, "send", (sid, x)))
        for at, dur in case.get("hogs", []):
            actions.append((at, 2, "hog", dur))
        for r in case.get("restarts", []):
            actions.append((r["at"], 4, r["how"], r.get("gap", 0)))
        actions.sort(key=lambda x: (x[0], x[1]))
        hung = False
        for at, _, kind, arg in actions:
            await env.sleep_until(at)
            if kind == "req":
                req = ComponentMetricRequest("verif", arg, ComponentMetricId.ACTIVE_POWER, None)
                out = registry.get_or_create(Sample[Quantity], req.get_channel_name()).new_receiver(limit=1000)
                tasks.append(asyncio.create_task(consume(arg, out)))
                src_name = dataclasses.replace(req, namespace=req.namespace + ":Source").get_channel_name()
                src_chans[arg] = registry.get_or_create(Sample[Quantity], src_name)
                senders[arg] = src_chans[arg].new_sender()
                for _ in range(case["metrics"][arg].get("yields", 0)):   # same instant, a few loop iterations later
                    await asyncio.sleep(0)
                log.append(["req", arg, env.clk()])
                await req_sender.send(req)
            elif kind == "close":
                if arg in src_chans:
                    log.append(["close", arg, env.clk()])
                    await src_chans[arg].close()
            elif kind == "send":
                sid, x = arg
                if sid in src_chans and not src_chans[sid].is_closed:
                    if x is None:
                        await senders[sid].send(Sample(dt(start + env.clk()), Quantity(1.0)))
                    else:
                        _, ts, k, ident = x
                        q = (Quantity(float(ident)) if k == 0 else None if k == 1 else
                             Quantity({2: float("nan"), 3: float("inf"), 4: float("-inf"), 5: 1e308}[k]))
                        log.append(["recv", sid, ts, k, ident if k < 3 else -k])
                        await senders[sid].send(Sample(dt(ts, case.get("sample_tz")), q))
            elif kind == "stop":
                # actor.stop(); (gap) actor.start(): one Resampler lives across it
                log.append(["stop", env.clk()])
                try:
                    await asyncio.wait_for(actor.stop(), timeout=30 * case["period"] / 1e6)
                except asyncio.TimeoutError:
                    # frequenz.channels' Timer swallowed the cancellation (see _shutdown): stop() never returns
                    log.append(["stop_hung", env.clk()])
                    hung = True
                    break
                except BaseException:   # stop() re-raises what the tasks raised
                    pass
                await env.sleep_until(env.clk() + arg)
                log.append(["start", env.clk()])
                actor.start()
            elif kind == "fault":
                log.append(["fault", env.clk()])
                if actor.fault is not None:
                    actor.fault.set()
            else:
                a = env.clk()
                clock._ticks += arg
                sync_wall()
                log.append(["hog", a, env.clk()])
        if not hung:
            await env.sleep_until(case["duration"])
        log.append(["end", env.clk()])
        actor.cancel()
        await _shutdown()
        clock.advance = orig_advance
    return {"log": log}


def run_actor_scenario(case):
    import async_solipsism
    warnings.filterwarnings("ignore", category=async_solipsism.exceptions.ResolutionWarning)
    loop = async_solipsism.EventLoop()
    asyncio.set_event_loop(loop)
    try:
        return loop.run_until_complete(_actor_scenario(case, loop))
    finally:
        loop.close()
        asyncio.set_event_loop(None)


def gen_actor_case(rng, tier):
    p, align, start, loop_t0, kind, phase = gen_timing(rng, tier)
    nticks = rng.randint(5, 10)
    align_tz = None
    if align is not None and rng.random() < 0.3:
        align_tz, delta = dst_shift(rng, p, start, nticks)
        start += delta
        if kind != "epoch":
            align += delta
    ph = tick_phase(p, align, start)
    res = [r for r in (137, 389, 641, 883) if min((r - ph) % 1000, (ph - r) % 1000) > 5]
    metrics = []
    for i in range(rng.choice([1, 2, 3])):
        at = 0 if (i == 0 or rng.random() < 0.5) else rng.randrange(0, (nticks - 2) * p) // 1000 * 1000 + res[0]
        m = {"req_at": at}
        if i > 0 and rng.random() < 0.5:
            m["close_at"] = at + rng.randrange(p, 4 * p) // 1000 * 1000 + res[2]
        if rng.random() < 0.5:
            m["nsamples"], m["ip"] = rng.randint(1, 20), rng.choice([p // 2, p, 2 * p])
        if i > 0 and rng.random() < 0.3:
            # the request reaches the actor at a tick instant, a few loop iterations into it: add_timeseries can then
            # run while the tick's gather is in flight (resample() dies with IndexError and is called again)
            m["req_at"] = (ph if ph else p) + rng.randrange(0, nticks - 2) * p
            m["yields"] = rng.randrange(0, 14)
            m.pop("close_at", None)
        metrics.append(m)
    hogs = []
    for _ in range(rng.choice([0, 1, 1, 2])):
        k = rng.randrange(0, nticks)
        delta = rng.choice([1, 1000, p // 3])
        hogs.append([ph + (k + 1) * p - delta, delta + rng.choice([0, 1, 1, 2, 3]) * p] if rng.random() < 0.5 else
                    [rng.randrange(0, nticks * p) // 1000 * 1000 + res[1], rng.choice([p // 3, p, 5 * p // 2])])
    hogs.sort()
    hogs = [h for i, h in enumerate(hogs) if h[0] > 0 and (i == 0 or h[0] > hogs[i - 1][0] + hogs[i - 1][1])]
    restarts = []
    duration = nticks * p + 500_000
    if rng.random() < 0.45:
        # the actor is stopped and started again / its _run dies with an exception and the Actor base re-enters it
        # (after RESTART_DELAY = 2 s) while metrics are subscribed: one timeline must span the restart
        how = rng.choice(["stop", "stop", "fault"])
        at = rng.randrange(2 * p, max(2 * p + 1, (nticks - 2) * p)) // 1000 * 1000 + res[3 % len(res)]
        gap = rng.choice([0, p // 2, p, 2 * p + 1000, 5 * p]) // 1000 * 1000
        restarts.append({"at": at, "how": how, "gap": gap})
        down = gap if how == "stop" else 2_000_000
        duration = max(duration, at + down + 4 * p + 500_000)
        hogs = [h for h in hogs if h[0] + h[1] < at - p or h[0] > at + down + p]
        for m in metrics:
            if at - 3 <= m["req_at"] <= at + down + 3:
                m["req_at"] = at + down + p // 2 // 1000 * 1000 + res[0]
                m.pop("yields", None)
            if m.get("close_at") is not None and (at - 3 <= m["close_at"] <= at + down + 3 or m["close_at"] <= m["req_at"] + p):
                m.pop("close_at")
    return {"period": p, "align": align, "start": start, "loop_t0": loop_t0, "duration": duration,
            "metrics": metrics, "hogs": hogs, "restarts": restarts, "align_tz": align_tz, "tag": {"align": kind}}


# ----------------------------------------------------------------------------- MovingWindow(resampler_config=...) (C07)
async def _mw_scenario(case, loop):
    """Second construction path of a Resampler: `MovingWindow(..., resampler_config=cfg)` builds its own Resampler
    and registers one series whose sink writes into the window's ring buffer.  The module-level name `Resampler`
    used by _moving_window is replaced by a subclass that only wraps the sink passed to add_timeseries() in a
    recorder (the ring buffer re-normalises timestamps, so they are taken before it); the log has the format of
    run_scenario(), so the same trace builder, Coq model and oracle judge it."""
    import time_machine
    from frequenz.channels import Broadcast
    from frequenz.quantities import Quantity
    import frequenz.sdk.timeseries._moving_window as mwmod
    from frequenz.sdk.timeseries import MovingWindow, ResamplerConfig, Sample

    env = _Env(loop)
    log = env.log
    clock = env.clock
    clock._ticks += case["loop_t0"]
    env.base = clock._ticks
    start = case["start"]
    orig_cls = mwmod.Resampler

    class RecordingResampler(orig_cls):
        def add_timeseries(self, name, source, sink):
            async def rsink(sample):
                log.append(["sink", 0, to_us(sample.timestamp), vcode(sample.value), None, None, env.clk()])
                try:
                    await sink(sample)
                except asyncio.CancelledError:
                    log.append(["exit", 0, env.clk(), "cancel"])
                    raise
                except BaseException:
                    log.append(["exit", 0, env.clk(), "raise"])
                    raise
                log.append(["exit", 0, env.clk(), "ok"])
            log.append(["add", 0, env.clk()])
            return super().add_timeseries(name, source, rsink)

    with time_machine.travel(dt(start), tick=False) as ft:
        orig_advance = clock.advance

        def sync_wall():
            ft.move_to(dt(start + env.clk()))

        def advance(delta):
            orig_advance(delta)
            sync_wall()
        clock.advance = advance
        mwmod.Resampler = RecordingResampler
        try:
            kw = {}
            if case.get("fn") == "spread":
                kw["resampling_function"] = lambda ss, c, p: max(x.value.base_value for x in ss) - min(x.value.base_value for x in ss)
            cfg = ResamplerConfig(resampling_period=timedelta(microseconds=case["period"]),
                                  align_to=None if case["align"] is None else dt(case["align"], case.get("align_tz")), **kw)
            chan = Broadcast[Sample[Quantity]](name="mw-input")
            mw = MovingWindow(size=timedelta(microseconds=case["size"]), resampled_data_recv=chan.new_receiver(limit=1000),
                              input_sampling_period=timedelta(microseconds=case["input_period"]), resampler_config=cfg)
            mw.start()
            sender = chan.new_sender()
            actions = [(a, 0, "send", (ts, kind, ident)) for a, ts, kind, ident in case["samples"]]
            actions += [(at, 1, "hog", dur) for at, dur in case.get("hogs", [])]
            actions.sort(key=lambda x: (x[0], x[1]))
            for at, _, kind, arg in actions:
                await env.sleep_until(at)
                if kind == "send":
                    ts, k, ident = arg
                    q = (Quantity(float(ident)) if k == 0 else None if k == 1 else
                         Quantity({2: float("nan"), 3: float("inf"), 4: float("-inf"), 5: 1e308}[k]))
                    await sender.send(Sample(dt(ts), q))
                else:
                    a = env.clk()
                    clock._ticks += arg
                    sync_wall()
                    log.append(["hog", a, env.clk()])
            await env.sleep_until(case["duration"])
            log.append(["end", env.clk()])
            mw.cancel()
            await _shutdown()
        finally:
            mwmod.Resampler = orig_cls
            clock.advance = orig_advance
    return {"log": log}


def run_mw_scenario(case):
    import async_solipsism
    warnings.filterwarnings("ignore", category=async_solipsism.exceptions.ResolutionWarning)
    loop = async_solipsism.EventLoop()
    asyncio.set_event_loop(loop)
    try:
        return loop.run_until_complete(_mw_scenario(case, loop))
    finally:
        loop.close()
        asyncio.set_event_loop(None)


def gen_mw_case(rng, tier):
    p, align, start, loop_t0, kind, phase = gen_timing(rng, tier)
    nticks = rng.randint(5, 12)
    align_tz = None
    if align is not None and rng.random() < 0.3:
        align_tz, delta = dst_shift(rng, p, start, nticks)
        start += delta
        if kind != "epoch":
            align += delta
    ph = tick_phase(p, align, start)
    ip = rng.choice([p // 4, p // 2, p, p, 2 * p, 333_333])
    fn = rng.choice(["average", "average", "spread"])
    kinds = [0] * 6 + [1, 2, 3, 4, 3, 4, 5]
    n = min(80, (nticks * p) // ip)
    samples = [[1000 + j * ip + 77, start + j * ip, rng.choice(kinds), j] for j in range(n)] if rng.random() < 0.85 else []
    hogs = []
    if rng.random() < 0.4:
        k = rng.randrange(0, nticks)
        delta = rng.choice([1, 1000, p // 3])
        hogs.append([ph + (k + 1) * p - delta, delta + rng.choice([0, 1, 2, 3]) * p])
    hogs = [h for h in hogs if h[0] > 0]
    return {"period": p, "align": align, "align_tz": align_tz, "start": start, "loop_t0": loop_t0, "one_shot": False,
            "duration": nticks * p + 500_000, "size": rng.choice([2, 5, 10]) * p, "input_period": ip, "samples": samples,
            "hogs": hogs, "fn": fn, "series": [{"add_at": 0}], "tag": {"align": kind}}


def mw_boundary_cases():
    out = []
    P = 1_000_000
    for p in (200_000, P, 3 * P):
        for align_kind in ("none", "unaligned", "epoch", "berlin"):
            start = (BASE // p) * p + p // 3
            align = None if align_kind == "none" else 0 if align_kind == "epoch" else start - 17 * p - 123_457
            out.append({"period": p, "align": align, "align_tz": "Europe/Berlin" if align_kind == "berlin" else None, "start": start,
                        "loop_t0": 0, "one_shot": False, "duration": 8 * p + 500_000, "size": 5 * p, "input_period": p // 2,
                        "samples": [[1000 + j * (p // 2), start + j * (p // 2), [0, 0, 3, 4, 0, 2][j % 6], j] for j in range(14)],
                        "hogs": [], "fn": "average", "series": [{"add_at": 0}], "tag": {"align": align_kind}})
    return out


def gen_actor_burst_case(rng, tier):
    """C08 on the production path: ComponentMetricsResamplingActor with a recording resampling function and a small
    initial_buffer_len.  A fast source makes the buffer grow once the input period is learned; later more than
    initial_buffer_len (at most 50, the channel's default queue) samples are sent back to back, without yielding to
    the loop: every one of them must be in the window the function is handed at the next tick."""
    p = rng.choice([1_000_000, 1_000_000, 3_000_000, 200_000, 7_000_000])
    age = rng.choice([[1, 1], [3, 1], [2, 1]])
    init_len = rng.choice([1, 2, 3, 4, 6])
    start = (BASE // p + rng.randrange(1000)) * p + rng.choice([0, p // 2, p // 3])
    ph = tick_phase(p, 0, start)
    nticks = rng.randint(8, 12)
    k = rng.choice([4, 5, 8, 10, 16])                 # input samples per period while learning
    ip = p // k
    samples = []
    j = 0
    t = 1000
    learn_until = (ph if ph else p) + 3 * p
    while t < learn_until:
        samples.append([t + 77, start + t, 0, j])
        j += 1
        t += ip
    cap = min(1024, max(1, math.ceil(k * age[0] / age[1])))
    # bursts: n samples at one instant, stamped 1 us apart just before the send, between two ticks
    for b in range(rng.randint(1, 3)):
        tick = (ph if ph else p) + (4 + 2 * b) * p
        if tick + p > nticks * p:
            break
        at = tick + rng.choice([p // 4, p // 2, p - 2000]) // 1000 * 1000 + 77
        n = rng.randint(init_len + 1, 50)
        for q in range(n):
            samples.append([at, start + at - n + q, 0 if rng.random() < 0.95 else rng.choice([1, 2]), j])
            j += 1
    samples.sort(key=lambda x: (x[0], x[1]))
    return {"period": p, "align": 0, "start": start, "loop_t0": 0, "duration": nticks * p + 500_000,
            "age": age, "init_len": init_len, "warn_len": 128, "max_len": 1024, "record_fn": True, "one_shot": False,
            "metrics": [{"req_at": 0, "samples": samples}], "hogs": [], "restarts": [], "align_tz": None,
            "tag": {"family": "actor_burst", "learned_capacity": cap}}
