"""C05 / C13: formula engine -- generator, implementation driver, independent oracle, Coq renderer.

Implementation side (REAL code from /repo):
  * string path:  ResampledFormulaBuilder.from_string (Tokenizer + push_component_metric + push_oper
    + build) on a real ChannelRegistry (no microgrid needed), samples fed through the registry's
    Broadcast channels, results read from FormulaEngine.new_receiver();
  * operator path: FormulaEngine.from_receiver engines combined with + - * / max min consumption
    production and constants, HigherOrderFormulaBuilder.build(nones_are_zeros=...);
  * raw path: FormulaBuilder.push_oper / push_metric(nones_are_zeros per stream) / push_constant /
    push_clipper call sequences, also ill-formed ones.
Every case is run twice: on `XF` values (a float subclass carrying an exact Fraction, so that the
engine's arithmetic is exact and can be compared with the Q model bit for bit) and on ordinary
floats (judged by the oracle up to rounding).  Everything runs on async_solipsism's loop.

Model side: coq/model/Formula.v, evaluated inside Coq.
Oracle: independent evaluation of the AST with ordinary precedence in Fractions."""
from __future__ import annotations

import asyncio
import json
import math
from datetime import datetime, timedelta, timezone
from fractions import Fraction as F

from lib.core import Stream, cbool
from lib.core import cQ as _cQ


def cQ(x):
    """rational -> Coq term; binary64 magnitudes (huge numerator or power-of-two denominator) are written
    as  fq m e  =  m * 2^e  so that Coq does not have to parse 300-digit decimal literals"""
    fr = F(x)
    n, d = fr.numerator, fr.denominator
    if (abs(n) >= 1 << 64 or d >= 1 << 64) and d & (d - 1) == 0:
        e = -(d.bit_length() - 1)
        while n and n % 2 == 0:
            n //= 2
            e += 1
        return f"(fq ({n}) ({e}))"
    return _cQ(fr)

E0 = datetime(2023, 1, 1, tzinfo=timezone.utc)
MISSING = ("none", "nan", "inf", "-inf")
BOPS = ("+", "-", "*", "/")
WS = ["", " ", "  ", "\t", "\n", "\r\n", " \t ", "\r"]


# ----------------------------------------------------------------------------- exact floats
class XF(float):
    """A float that carries its exact rational value; arithmetic between XFs (and finite floats/ints)
    is exact, anything involving nan/inf falls back to float semantics.  Being a float subclass it
    passes the isinstance checks of the builder API."""
    __slots__ = ("q",)

    def __new__(cls, q):
        q = F(q)
        self = float.__new__(cls, float(q))
        self.q = q
        return self

    @staticmethod
    def _c(o):
        if isinstance(o, XF):
            return o.q
        if isinstance(o, (int, F)):
            return F(o)
        if isinstance(o, float) and math.isfinite(o):
            return F(o)
        return None

    def _bin(self, o, f, g):
        c = XF._c(o)
        if c is None:
            return g(float(self), float(o)) if isinstance(o, float) else NotImplemented
        return XF(f(self.q, c))

    def _rbin(self, o, f, g):
        c = XF._c(o)
        if c is None:
            return g(float(o), float(self)) if isinstance(o, float) else NotImplemented
        return XF(f(c, self.q))

    def __add__(s, o): return s._bin(o, lambda a, b: a + b, lambda a, b: a + b)
    def __radd__(s, o): return s._rbin(o, lambda a, b: a + b, lambda a, b: a + b)
    def __sub__(s, o): return s._bin(o, lambda a, b: a - b, lambda a, b: a - b)
    def __rsub__(s, o): return s._rbin(o, lambda a, b: a - b, lambda a, b: a - b)
    def __mul__(s, o): return s._bin(o, lambda a, b: a * b, lambda a, b: a * b)
    def __rmul__(s, o): return s._rbin(o, lambda a, b: a * b, lambda a, b: a * b)

    def __truediv__(s, o):
        c = XF._c(o)
        if c is None:
            return float(s) / float(o)
        if c == 0:
            raise ZeroDivisionError("XF division by zero")
        return XF(s.q / c)

    def __rtruediv__(s, o):
        c = XF._c(o)
        if s.q == 0:
            raise ZeroDivisionError("XF division by zero")
        if c is None:
            return float(o) / float(s)
        return XF(c / s.q)

    def __neg__(s): return XF(-s.q)
    def __pos__(s): return s
    def __abs__(s): return XF(abs(s.q))

    def _cmp(s, o, f, g):
        c = XF._c(o)
        if c is None:
            return g(float(s), float(o))
        return f(s.q, c)

    def __eq__(s, o): return s._cmp(o, lambda a, b: a == b, lambda a, b: a == b)
    def __ne__(s, o): return s._cmp(o, lambda a, b: a != b, lambda a, b: a != b)
    def __lt__(s, o): return s._cmp(o, lambda a, b: a < b, lambda a, b: a < b)
    def __le__(s, o): return s._cmp(o, lambda a, b: a <= b, lambda a, b: a <= b)
    def __gt__(s, o): return s._cmp(o, lambda a, b: a > b, lambda a, b: a > b)
    def __ge__(s, o): return s._cmp(o, lambda a, b: a >= b, lambda a, b: a >= b)
    def __hash__(s): return hash(s.q)
    def __repr__(s): return f"XF({s.q})"
    __str__ = __repr__


# ----------------------------------------------------------------------------- value encoding
def dec(v):
    """JSON value -> Fraction | 'none' | 'nan' | 'inf' | '-inf'."""
    if isinstance(v, str):
        return v
    if isinstance(v, list):
        if v and v[0] == "x":
            return float.fromhex(v[1])      # a binary64 value given exactly (float-boundary stream)
        return F(v[0], v[1])
    return F(v)


def enc(fr):
    if isinstance(fr, str) or fr is None:
        return fr
    fr = F(fr)
    return fr.numerator if fr.denominator == 1 else [fr.numerator, fr.denominator]


def as_number(v, exact):
    """decoded value -> the number object handed to the implementation (None for 'none')."""
    if v == "none":
        return None
    if v == "nan":
        return math.nan
    if v == "inf":
        return math.inf
    if v == "-inf":
        return -math.inf
    if isinstance(v, float):
        return v
    return XF(v) if exact else float(v)


def out_enc(x, exact=False):
    """a base_value coming out of the engine -> JSON.  In the exact run every finite number is exact
    (an XF, or a float literal such as the 0.0 pushed for a missing value)."""
    if x is None:
        return None
    if exact and isinstance(x, float) and not isinstance(x, XF) and math.isfinite(x):
        x = F(x)
    if isinstance(x, XF):
        return [x.q.numerator, x.q.denominator]
    if isinstance(x, (int, F)):
        x = F(x)
        return [x.numerator, x.denominator]
    return ["float", repr(float(x))]


# ----------------------------------------------------------------------------- implementation driver
def _imports():
    import logging
    logging.disable(logging.CRITICAL)
    import warnings
    warnings.simplefilter("ignore")
    from frequenz.channels import Broadcast
    from frequenz.quantities import Quantity
    from frequenz.client.microgrid import ComponentMetricId
    from frequenz.sdk.timeseries import Sample
    from frequenz.sdk._internal._channels import ChannelRegistry
    from frequenz.sdk.microgrid._data_sourcing import ComponentMetricRequest
    from frequenz.sdk.timeseries.formula_engine import _formula_engine as fe
    from frequenz.sdk.timeseries.formula_engine import _formula_steps as fs
    from frequenz.sdk.timeseries.formula_engine._resampled_formula_builder import ResampledFormulaBuilder
    return dict(Broadcast=Broadcast, Quantity=Quantity, MID=ComponentMetricId.ACTIVE_POWER, Sample=Sample,
                ChannelRegistry=ChannelRegistry, CMR=ComponentMetricRequest, fe=fe, fs=fs, RFB=ResampledFormulaBuilder)


_IMP = None


def imp():
    global _IMP
    if _IMP is None:
        _IMP = _imports()
    return _IMP


def mk(v):
    """create_method: a Quantity whose base value is exactly the number handed in."""
    Q = imp()["Quantity"]
    q = Q.__new__(Q)
    q._base_value = v  # pylint: disable=protected-access
    return q


def describe_steps(steps):
    fs = imp()["fs"]
    out = []
    for s in steps:
        if isinstance(s, fs.ConstantValue):
            out.append(["const", out_enc(s.value) if not (isinstance(s.value, float) and not isinstance(s.value, XF) and not math.isfinite(s.value)) else ["float", repr(s.value)]])
        elif isinstance(s, fs.Clipper):
            out.append(["clip", None if s.min_value is None else out_enc(s.min_value), None if s.max_value is None else out_enc(s.max_value)])
        elif isinstance(s, fs.MetricFetcher):
            out.append(["fetch", repr(s)])
        else:
            out.append(["op", repr(s)])
    return out


def tz_of(spec):
    """"utc" | ["off", minutes] | ["zi", "Europe/Berlin"] -> tzinfo"""
    if spec == "utc":
        return timezone.utc
    if spec[0] == "off":
        return timezone(timedelta(minutes=spec[1]))
    import zoneinfo
    return zoneinfo.ZoneInfo(spec[1])


ZONES = ["utc", "utc", ["off", 330], ["off", -480], ["off", 60], ["zi", "Europe/Berlin"], ["zi", "America/New_York"], ["zi", "Asia/Kolkata"]]


def describe_by_identity(eng, tokens, ident):
    """steps / fetchers of a composed engine with every fetch step named after the IDENTITY of the operand
    engine it stands for (the i-th fetch step belongs to the i-th engine token of the builder), not after
    the name the implementation gave the fetcher"""
    fe, fs = imp()["fe"], imp()["fs"]
    operands = [v for t, v in tokens if t.name == "COMPONENT_METRIC"]
    steps = describe_steps(eng._builder._steps)  # pylint: disable=protected-access
    owner, i = {}, 0
    for st, d in zip(eng._builder._steps, steps):  # pylint: disable=protected-access
        if isinstance(st, fs.MetricFetcher):
            who = f"e{ident(operands[i])}" if i < len(operands) else "e999999"
            owner.setdefault(id(st), who)
            d[1] = who
            i += 1
    fetch = [[owner.get(id(f), "e999999"), bool(f._nones_are_zeros)] for f in eng._builder._metric_fetchers.values()]  # pylint: disable=protected-access
    return steps, fetch


async def _pump(rx, senders, names, rows, exact, pre_rows=None, needs=None, stall=None, three=False, zones=None, on_row=None):
    """send one sample per stream per row (lock-step, same timestamp), collect what the engine(s) emit.

    rx: one receiver or a list of receivers (then a list of outputs is returned).
    pre_rows: samples BEFORE row 0 (timestamps -len(pre_rows) .. -1) that only SOME streams deliver:
    the streams do not start aligned, the evaluator has to discard them while synchronising.
    stall = [name, k0, n]: rows are 10 s of (virtual) time apart; stream `name` delivers nothing for rows
    k0 .. k0+n-1 (n * 10 s > 60 s) and then everything it owes, with the original timestamps, at once;
    the other streams keep delivering (n < 50 samples, within the receiver buffers)."""
    Sample = imp()["Sample"]
    backlog = []
    rxs = rx if isinstance(rx, list) else [rx]
    gots = [{} for _ in rxs]
    pre_rows = pre_rows or []
    sched = [(k - len(pre_rows), row, sorted(row)) for k, row in enumerate(pre_rows)] + \
            [(k, row, names) for k, row in enumerate(rows)]
    for k, row, who in sched:
        ts = E0 + timedelta(seconds=k)
        if on_row is not None and k >= 0:
            await on_row(k)
        if stall and backlog and not stall[1] <= k < stall[1] + stall[2]:
            for bts, bv in backlog:
                await senders[stall[0]].send(Sample(bts, None if bv is None else mk(bv)))
            backlog = []
        for name in who:
            if name not in senders:
                continue
            v = as_number(dec(row[name]), exact)
            if stall and name == stall[0] and stall[1] <= k < stall[1] + stall[2]:
                backlog.append((ts, v))
                continue
            # the same instant, written in the stream's own time zone
            await senders[name].send(Sample(ts.astimezone(tz_of((zones or {}).get(name, "utc"))), None if v is None else mk(v)))
        last = k == sched[-1][0]
        if stall and last and backlog:
            await asyncio.sleep(10)
            for bts, bv in backlog:
                await senders[stall[0]].send(Sample(bts, None if bv is None else mk(bv)))
            backlog = []
        for _ in range(12 if not (stall and last) else 12 * (len(rows) + 2)):
            await asyncio.sleep(0)
        if stall:
            await asyncio.sleep(10)
            for _ in range(12):
                await asyncio.sleep(0)
        for r, got in zip(rxs, gots):
            while r._q:  # pylint: disable=protected-access
                m = r.consume()
                idx = int((m.timestamp - E0).total_seconds())
                if three:
                    got.setdefault(idx, []).append([None if v is None else v.base_value for v in (m.value_p1, m.value_p2, m.value_p3)])
                else:
                    got.setdefault(idx, []).append(None if m.value is None else m.value.base_value)
    outs = []
    for got in gots:
        out = []
        for k in range(len(rows)):
            g = got.get(k, [])
            if len(g) == 0:
                out.append("dropped")
            elif len(g) > 1:
                out.append(["dup", len(g)])
            elif three:
                out.append({"p": [out_enc(v, exact) for v in g[0]]})
            else:
                out.append(out_enc(g[0], exact))
        # before row 0 an engine may (and then must) emit only for timestamps all ITS inputs have
        need = (needs[len(outs)] if needs else None) or set(names)
        due = {k - len(pre_rows) for k, row in enumerate(pre_rows) if need <= set(row)}
        extra = sorted(k for k in got if k >= len(rows) or (k < 0 and k not in due))
        lost = sorted(k for k in due if k not in got)
        if extra:
            out.append(["extra", extra])
        if lost:
            out.append(["extra", ["lost-before-row-0"] + lost])
        outs.append(out)
    return outs if isinstance(rx, list) else outs[0]


async def _cleanup(engines):
    for e in engines:
        try:
            await e._stop()  # pylint: disable=protected-access
        except BaseException:  # noqa
            pass
    for t in asyncio.all_tasks():
        if t is not asyncio.current_task():
            t.cancel()
    await asyncio.sleep(0)


async def _run_str(case, exact):
    I = imp()
    reg = I["ChannelRegistry"](name="verif")
    req = I["Broadcast"](name="req")
    b = I["RFB"]("ns", "f", reg, req.new_sender(), I["MID"], mk)
    formula = render(case["ast"], case["ws"]) if "ast" in case else case["formula"]
    try:
        eng = b.from_string(formula, nones_are_zeros=case["nz"])
    except ValueError:
        return {"error": "ValueError"}
    steps = describe_steps(eng._builder._steps)  # pylint: disable=protected-access
    fetch = [[k, bool(f._nones_are_zeros)] for k, f in eng._builder._metric_fetchers.items()]  # pylint: disable=protected-access
    if not fetch:
        return {"steps": steps, "fetchers": fetch, "out": [], "no_inputs": True}
    rx = eng.new_receiver()
    names = sorted({k for r in case["rows"] for k in r})
    senders = {}
    for nme in names:
        chan = reg.get_or_create(I["Sample"][I["Quantity"]], I["CMR"]("ns", int(nme), I["MID"], None).get_channel_name())
        senders[nme] = chan.new_sender()
    ends = case.get("ends")
    chan_of = {nme: reg.get_or_create(I["Sample"][I["Quantity"]], I["CMR"]("ns", int(nme), I["MID"], None).get_channel_name()) for nme in names}

    async def on_row(k):
        if ends and k == ends[1] and ends[0] in senders:
            senders.pop(ends[0])            # this input delivers nothing from now on ...
            await chan_of[ends[0]].close()  # ... its stream has ended
        if case.get("lost") and k == 0:
            senders["__lost"] = senders.pop(case["lost"])     # the sample of row 0 is lost on this stream
        if case.get("lost") and k == 1:
            senders[case["lost"]] = senders.pop("__lost")

    out = await _pump(rx, senders, names, case["rows"], exact, case.get("pre_rows"), [{k.lstrip("#") for k, _ in fetch}], case.get("stall"),
                      False, None, on_row if (ends or case.get("lost")) else None)
    await _cleanup([eng])
    obs = {"steps": steps, "fetchers": fetch, "out": out}
    if ends and 0 < ends[1] < len(case["rows"]) and ends[0] in {k.lstrip("#") for k, _ in fetch}:
        obs.update({"ended_at": ends[1], "out": out[:ends[1]], "tail": out[ends[1]:len(case["rows"])]})
    return obs


def _const(op, v, exact):
    x = as_number(dec(v), exact)
    return mk(x) if op in ("+", "-", "max", "min") else x


def build_hb(t, engines, exact, memo=None, perturb=False, pre=None, built=None, hocls=None):
    """JSON builder tree -> the real builder object, through the public operator/method API.

    memo (dict): equal sub-trees are built ONCE and the same Python builder object is used at every
    occurrence (`b = e0 + e1; b * b`).  perturb: after a builder has been made, further formulas are
    derived from it and thrown away (`b * 2.0`, `b.consumption()`, `b + b`); a builder is a value and
    must not be changed by that."""
    fe = imp()["fe"]
    key = json.dumps(t)
    if memo is not None and key in memo:
        return memo[key]
    k = t[0]
    rec = lambda x: build_hb(x, engines, exact, memo, perturb, pre, built, hocls)
    if k == "s":
        res = (hocls or fe.HigherOrderFormulaBuilder)(engines[t[1]], mk)
    elif k == "u":
        base = engines[t[1][1]] if t[1][0] == "s" else rec(t[1])
        res = base.consumption() if t[2] == "consumption" else base.production()
    else:
        base = engines[t[1][1]] if t[1][0] == "s" else rec(t[1])   # engine operator API
        op = t[2]
        if k == "e":
            other = engines[t[3]]
        elif k == "c":
            other = _const(op, t[3], exact)
        else:
            other = rec(t[3])
        if op == "+":
            res = base + other
        elif op == "-":
            res = base - other
        elif op == "*":
            res = base * other
        elif op == "/":
            res = base / other
        elif op == "max":
            res = base.max(other)
        elif op == "min":
            res = base.min(other)
        else:
            raise ValueError(op)
    if perturb:
        _ = res * 2.0
        _ = res.consumption()
        _ = res + res
    for name, nz in (pre or {}).get(key, []):
        # an engine is built from this builder NOW; the builder is used further afterwards
        built.append((t, bool(nz), res.build(name, nones_are_zeros=bool(nz)), list(res._steps)))  # pylint: disable=protected-access
    if memo is not None:
        memo[key] = res
    return res


def hb_subtrees(t):
    out = [t]
    if t[0] != "s":
        out += hb_subtrees(t[1])
        if t[0] == "b":
            out += hb_subtrees(t[3])
    return out


def gen_pre_rows(rng, names):
    """Staggered start: every stream begins at its own timestamp (-3 .. 0, at least one at 0) and is
    gap-free from then on, as resampled streams are.  Row 0 is the first timestamp all streams have;
    the earlier samples (values / missing at random) must be discarded by the evaluator."""
    if len(names) < 2:
        return []
    start = {str(n): rng.randint(-3, 0) for n in names}
    start[str(rng.choice(names))] = 0
    first = min(start.values())
    return [{n: gen_value(rng, 0.5) for n in sorted(start) if start[n] <= k} for k in range(first, 0)]


def hb_names(t):
    k = t[0]
    if k == "s":
        return {t[1]}
    out = hb_names(t[1])
    if k == "e":
        out |= {t[3]}
    if k == "b":
        out |= hb_names(t[3])
    return out


async def _run_ho(case, exact):
    """Builds the tree through the operator API.  Besides the main engine (name "f", case["nz"], built
    LAST) further engines are built: from sub-builders right after they were made (case["pre"]: the
    builder is then extended / combined / built again) and from the final builder (case["finals"]:
    same or other name, same or other flag).  Every engine must compute ITS expression.
    case["names"]: names given to the operand engines (different engines may get EQUAL names);
    case["zones"]: the time zone each input stream writes its (identical) instants in;
    case["stop"] = [[i, k], ...]: engine #i is stopped (and dropped, builders garbage-collected) before
    row k; the other engines, which share its input engines, are judged to the end."""
    import gc
    I = imp()
    fe = I["fe"]
    names = sorted({k for r in case["rows"] for k in r} | {str(n) for n in hb_names(case["tree"])})
    chans = {n: I["Broadcast"](name=f"c{n}") for n in names}
    labels = case.get("names", {})
    engines = {int(n): fe.FormulaEngine.from_receiver(labels.get(n, f"e{n}"), chans[n].new_receiver(), mk,
                                                      nones_are_zeros=bool(case.get("src_nz", {}).get(n, False)))
               for n in names}
    ident = lambda obj: next((n for n, e in engines.items() if e is obj), 999999)
    pre = {}
    for node, name, nz in case.get("pre", []):
        pre.setdefault(json.dumps(node), []).append([name, nz])
    built = []
    memo = {} if (case.get("share") or pre) else None
    builder = build_hb(case["tree"], engines, exact, memo, bool(case.get("perturb")), pre, built)
    tokens = [[t.name, (f"e{ident(v)}" if isinstance(v, fe.FormulaEngine) else (v if isinstance(v, str) else out_enc(v.base_value if hasattr(v, "base_value") else v)))]
              for t, v in builder._steps]  # pylint: disable=protected-access
    for name, nz in case.get("finals", []):
        built.append((case["tree"], bool(nz), builder.build(name, nones_are_zeros=bool(nz)), list(builder._steps)))  # pylint: disable=protected-access
    built.append((case["tree"], bool(case["nz"]), builder.build("f", nones_are_zeros=case["nz"]), list(builder._steps)))  # pylint: disable=protected-access
    descr = []
    for tree, nz, eng, toks in built:
        steps, fetch = describe_by_identity(eng, toks, ident)
        descr.append({"tree": tree, "nz": nz, "steps": steps, "fetchers": fetch})
    del builder
    if memo is not None:
        memo.clear()
    live = [eng for _, _, eng, _ in built]
    built = None
    rxs = [eng.new_receiver() for eng in live]
    senders = {n: chans[n].new_sender() for n in names}
    await asyncio.sleep(0)
    needs = [{k.lstrip("e") for k, _ in d["fetchers"]} for d in descr]
    stops = {}
    for i, k in case.get("stop", []):
        # (not together with a stalled input: an engine waiting for the stalled input has not yet emitted
        #  the rows before the stop, so "judged up to the stop" would be wrong)
        if 0 <= i < len(live) - 1 and 0 < k < len(case["rows"]) and not case.get("stall"):
            stops.setdefault(k, []).append(i)
    stopped = []

    ends = case.get("ends") if not (case.get("stall") or stops) else None

    async def on_row(k):
        if ends and k == ends[1] and ends[0] in senders:
            senders.pop(ends[0])
            await chans[ends[0]].close()
        for i in stops.get(k, []):
            if live[i] is not None:
                await live[i]._stop()  # pylint: disable=protected-access
                stopped.append(live[i])
                live[i] = None
                descr[i]["stopped_at"] = k
        if k in stops:
            stopped.clear()
            gc.collect()

    outs = await _pump(rxs, senders, names, case["rows"], exact, case.get("pre_rows"), needs, case.get("stall"),
                       False, case.get("zones"), on_row if (stops or ends) else None)
    for d, o, need in zip(descr, outs, needs):
        d["out"] = o[:d["stopped_at"]] if "stopped_at" in d else o
        if ends and 0 < ends[1] < len(case["rows"]) and ends[0] in need:
            d.update({"ended_at": ends[1], "out": o[:ends[1]], "tail": o[ends[1]:len(case["rows"])]})
    await _cleanup([e for e in live if e is not None] + list(engines.values()))
    main = descr[-1]
    return {"steps": main["steps"], "fetchers": main["fetchers"], "out": main["out"], "tokens": tokens, "builds": descr}


async def _run_ho3(case, exact):
    """3-phase composition: every operand is a FormulaEngine3Phase made of three per-phase from_receiver
    engines; the tree is built through the FormulaEngine3Phase / HigherOrderFormulaBuilder3Phase operator
    API (engines and builders only: that API takes no constants) and build(name, nones_are_zeros=...).
    Streams are named "<engine>:<phase 0..2>"; phase p of the result must be the tree on the phase-p inputs."""
    I = imp()
    fe = I["fe"]
    ids = sorted(hb_names(case["tree"]))
    names = [f"{n}:{ph}" for n in ids for ph in range(3)]
    chans = {nm: I["Broadcast"](name=f"c{nm}") for nm in names}
    src = case.get("src_nz", {})
    singles = {nm: fe.FormulaEngine.from_receiver(f"e{nm.split(':')[0]}-{int(nm.split(':')[1]) + 1}", chans[nm].new_receiver(), mk,
                                                  nones_are_zeros=bool(src.get(nm.split(":")[0], False))) for nm in names}
    engines = {n: fe.FormulaEngine3Phase(f"e{n}", mk, tuple(singles[f"{n}:{ph}"] for ph in range(3))) for n in ids}
    builder = build_hb(case["tree"], engines, exact, {} if case.get("share") else None, False, None, None, fe.HigherOrderFormulaBuilder3Phase)
    eng = builder.build("f", nones_are_zeros=case["nz"])
    phases = []
    for ph in range(3):
        sub = eng._streams[ph]  # pylint: disable=protected-access
        steps = describe_steps(sub._builder._steps)  # pylint: disable=protected-access
        for st in steps:
            if st[0] == "fetch":
                st[1] = st[1].rsplit("-", 1)[0]
        fetch = [[k.rsplit("-", 1)[0], bool(f._nones_are_zeros)] for k, f in sub._builder._metric_fetchers.items()]  # pylint: disable=protected-access
        phases.append({"steps": steps, "fetchers": fetch})
    rx = eng.new_receiver()
    senders = {nm: chans[nm].new_sender() for nm in names}
    await asyncio.sleep(0)
    out = await _pump(rx, senders, names, case["rows"], exact, case.get("pre_rows"), None, None, True)
    for ph in range(3):
        phases[ph]["out"] = [(o["p"][ph] if isinstance(o, dict) else o) for o in out]
    await _cleanup([eng] + list(eng._streams) + list(singles.values()))  # pylint: disable=protected-access
    return {"phases": phases}


def phase_row(row, ph):
    return {k.split(":")[0]: v for k, v in row.items() if k.split(":")[1] == str(ph)}


def term_ho3(case, obs):
    srcl = "[" + "; ".join(f"({c_N(k)}, {cbool(z)})" for k, z in sorted(case.get("src_nz", {}).items(), key=lambda kv: int(kv[0]))) + "]"
    out = []
    for ph, d in enumerate(obs["phases"]):
        rows = c_rows({"rows": [phase_row(r, ph) for r in case["rows"]]}, d)
        if rows is None:
            out.append(f"({c_hb(case['tree'])}, {cbool(case['nz'])}, {srcl}, ([SOpen; SOpen; SOpen], []), [])")
        else:
            out.append(f"({c_hb(case['tree'])}, {cbool(case['nz'])}, {srcl}, {c_prog(d)}, {rows})")
    return "[" + "; ".join(out) + "]"


PHASE_OFFSETS = [(a, b, c) for a in range(3) for b in range(3) for c in range(3) if min(a, b, c) == 0]


def phase_pre_rows(rng, names, offs):
    """the inputs of phase p start offs[p] samples before row 0 (gap-free): the per-phase engines emit
    their first samples at different timestamps and the 3-phase engine has to align them"""
    return [{n: gen_value(rng, 0.3) for n in names if offs[int(n.split(":")[1])] >= -k} for k in range(-max(offs), 0)]


def gen_ho3_case(rng):
    ids = rng.sample([0, 1, 2, 3], rng.randint(1, 3))

    def tree(d):
        if d == 0:
            return ["s", rng.choice(ids)]
        base = tree(d - 1 if rng.random() < 0.7 else 0)
        r = rng.random()
        if r < 0.15:
            return ["u", base, rng.choice(["consumption", "production"])]
        op = rng.choice(HOPS)
        if r < 0.6:
            return ["e", base, op, rng.choice(ids)]
        return ["b", base, op, tree(rng.randint(0, d - 1))]
    t = tree(rng.randint(1, 3))
    names = [f"{n}:{ph}" for n in sorted(hb_names(t)) for ph in range(3)]
    case = {"kind": "ho3", "tree": t, "nz": rng.random() < 0.5, "share": rng.random() < 0.3,
            "src_nz": {str(n): rng.random() < 0.2 for n in sorted(hb_names(t))},
            "rows": gen_rows(rng, names, rng.randint(2, 3), rng.choice([0.0, 0.2, 0.4]))}
    if rng.random() < 0.5:
        case["pre_rows"] = phase_pre_rows(rng, names, rng.choice(PHASE_OFFSETS))
    return case


async def _run_raw(case, exact):
    I = imp()
    fe = I["fe"]
    names = sorted({k for r in case["rows"] for k in r} | {str(c[1]) for c in case["calls"] if c[0] == "m"})
    chans = {n: I["Broadcast"](name=f"c{n}") for n in names}
    b = fe.FormulaBuilder("f", mk)
    first_rx = {}
    for c in case["calls"]:
        if c[0] == "o":
            b.push_oper(c[1])
        elif c[0] == "m":
            if len(c) > 3 and c[3] and c[1] in first_rx:
                rxm = first_rx[c[1]]                       # the SAME receiver object as the first push of this name
            else:
                rxm = chans[str(c[1])].new_receiver()      # a fresh receiver of the same channel
            first_rx.setdefault(c[1], rxm)
            b.push_metric(f"e{c[1]}", rxm, nones_are_zeros=bool(c[2]))
        elif c[0] == "k":
            b.push_constant(as_number(dec(c[1]), exact))
        elif c[0] == "clip":
            b.push_clipper(None if c[1] is None else as_number(dec(c[1]), exact), None if c[2] is None else as_number(dec(c[2]), exact))
    eng = b.build()
    steps = describe_steps(eng._builder._steps)  # pylint: disable=protected-access
    fetch = [[k, bool(f._nones_are_zeros)] for k, f in eng._builder._metric_fetchers.items()]  # pylint: disable=protected-access
    if not fetch:
        return {"steps": steps, "fetchers": fetch, "out": [], "no_inputs": True}
    rx = eng.new_receiver()
    senders = {n: chans[n].new_sender() for n in names}
    await asyncio.sleep(0)
    out = await _pump(rx, senders, names, case["rows"], exact)
    await _cleanup([eng])
    return {"steps": steps, "fetchers": fetch, "out": out}


async def _run_signed(case, exact):
    """the formula generators' call sequence on the real ResampledFormulaBuilder:
    push_component_metric(first), then push_oper("+"/"-") + push_component_metric, then build()"""
    I = imp()
    reg = I["ChannelRegistry"](name="verif")
    req = I["Broadcast"](name="req")
    b = I["RFB"]("ns", "f", reg, req.new_sender(), I["MID"], mk)
    n0, z0 = case["first"]
    b.push_component_metric(n0, nones_are_zeros=bool(z0))
    for plus, n, z in case["terms"]:
        b.push_oper("+" if plus else "-")
        b.push_component_metric(n, nones_are_zeros=bool(z))
    eng = b.build()
    steps = describe_steps(eng._builder._steps)  # pylint: disable=protected-access
    fetch = [[k, bool(f._nones_are_zeros)] for k, f in eng._builder._metric_fetchers.items()]  # pylint: disable=protected-access
    rx = eng.new_receiver()
    names = sorted({k for r in case["rows"] for k in r})
    senders = {}
    for nme in names:
        chan = reg.get_or_create(I["Sample"][I["Quantity"]], I["CMR"]("ns", int(nme), I["MID"], None).get_channel_name())
        senders[nme] = chan.new_sender()
    out = await _pump(rx, senders, names, case["rows"], exact)
    await _cleanup([eng])
    return {"steps": steps, "fetchers": fetch, "out": out}


def signed_ref(case, row):
    """sum of sign * value; a missing value is 0 on a zero-configured id (flag of its FIRST occurrence), else None"""
    flags = {}
    for n, z in [case["first"]] + [[t[1], t[2]] for t in case["terms"]]:
        flags.setdefault(n, bool(z))
    total = F(0)
    for plus, n in [[True, case["first"][0]]] + [[t[0], t[1]] for t in case["terms"]]:
        v = fetch_ref(row[str(n)], flags[n])
        if v is None:
            return None
        total = total + v if plus else total - v
    return total


def term_signed(case, obs):
    rows = c_rows(case, obs)
    rest = "[" + "; ".join(f"({cbool(p)}, {c_N(n)}, {cbool(z)})" for p, n, z in case["terms"]) + "]"
    head = f"{c_N(case['first'][0])}, {cbool(case['first'][1])}, {rest}"
    if rows is None:
        return f"({head}, ([SOpen; SOpen; SOpen], []), [])"
    return f"({head}, {c_prog(obs)}, {rows})"


def gen_signed_case(rng):
    ids = rng.sample([1, 2, 3, 4, 5, 7, 12, 30, 100000], rng.randint(1, 6))
    n = rng.choice([0, 0, 1, 2, 3, 5, 8])
    first = [rng.choice(ids), rng.random() < 0.5]
    terms = [[rng.random() < 0.6, rng.choice(ids), rng.random() < 0.5] for _ in range(n)]
    names = sorted({first[0]} | {t[1] for t in terms})
    return {"kind": "signed", "first": first, "terms": terms,
            "rows": gen_rows(rng, names, rng.randint(2, 4), rng.choice([0.0, 0.2, 0.4]))}


POOL_METRICS = ["ACTIVE_POWER", "REACTIVE_POWER", "CURRENT_PHASE_1", "ACTIVE_POWER_PHASE_1"]


async def _run_pool(case, exact):
    """Several requests on ONE FormulaEnginePool.from_string (what LogicalMeter.start_formula calls).
    Streams are named "<metric index>:<component id>"; every request is judged on the streams of ITS metric."""
    I = imp()
    from frequenz.client.microgrid import ComponentMetricId
    from frequenz.sdk.timeseries.formula_engine._formula_engine_pool import FormulaEnginePool
    reg = I["ChannelRegistry"](name="verif")
    req = I["Broadcast"](name="req")
    pool = FormulaEnginePool("ns", reg, req.new_sender())
    engines, descr = [], []
    for ast_, m, nz in case["requests"]:
        metric = getattr(ComponentMetricId, POOL_METRICS[m])
        try:
            eng = pool.from_string(render(ast_, [1]), metric, nones_are_zeros=bool(nz))
        except ValueError:
            return {"error": "ValueError"}
        first = next((i for i, e in enumerate(engines) if e is eng), len(engines))
        engines.append(eng)
        descr.append({"same_as": first, "steps": describe_steps(eng._builder._steps),  # pylint: disable=protected-access
                      "fetchers": [[k, bool(f._nones_are_zeros)] for k, f in eng._builder._metric_fetchers.items()],  # pylint: disable=protected-access
                      "metric_of_engine": eng._builder._metric_id.name})  # pylint: disable=protected-access
    # formulas composed from the engines the pool handed out: [i, op, j] = request i <op> request j
    first_of = lambda obj: next((i for i, e in enumerate(engines) if e is obj), 999999)
    comp_engines, comp_descr = [], []
    for i, op, j in case.get("compose", []):
        a, b = engines[i], engines[j]
        bld = a + b if op == "+" else a - b if op == "-" else a * b if op == "*" else a / b if op == "/" else a.max(b) if op == "max" else a.min(b)
        ce = bld.build(f"composed{len(comp_engines)}")
        steps, fetch = describe_by_identity(ce, list(bld._steps), first_of)  # pylint: disable=protected-access
        comp_engines.append(ce)
        comp_descr.append({"i": first_of(a), "op": op, "j": first_of(b), "steps": steps, "fetchers": fetch})
    rxs = [e.new_receiver() for e in engines] + [e.new_receiver() for e in comp_engines]
    names = sorted({k for r in case["rows"] for k in r})
    senders = {}
    for nme in names:
        m, cid = nme.split(":")
        metric = getattr(ComponentMetricId, POOL_METRICS[int(m)])
        chan = reg.get_or_create(I["Sample"][I["Quantity"]], I["CMR"]("ns", int(cid), metric, None).get_channel_name())
        senders[nme] = chan.new_sender()
    needs = [{f"{POOL_METRICS.index(d['metric_of_engine']) if d['metric_of_engine'] in POOL_METRICS else 99}:{k.lstrip('#')}" for k, _ in d["fetchers"]} for d in descr]
    for cd in comp_descr:
        needs.append(needs[cd["i"]] | needs[cd["j"]])
    outs = await _pump(rxs, senders, names, case["rows"], exact, None, needs)
    for d, o in zip(descr + comp_descr, outs):
        d["out"] = o
    distinct = list(comp_engines)
    for e in engines:
        if not any(e is x for x in distinct):
            distinct.append(e)
    await _cleanup(distinct)
    return {"requests": descr, "composed": comp_descr}


def pool_first_flag(case, i):
    """nones_are_zeros in force for request i: the flag of the FIRST request with the same formula and
    metric (FormulaEnginePool reuses the engine that already exists for a key)"""
    a, m, _ = case["requests"][i]
    for b, mb, nzb in case["requests"]:
        if b == a and mb == m:
            return bool(nzb)
    return bool(case["requests"][i][2])


def pool_row(row, m):
    return {k.split(":")[1]: v for k, v in row.items() if k.split(":")[0] == str(m)}


def term_pool(case, obs):
    if "error" in obs:
        return None
    reqs = []
    for (ast_, m, nz), d in zip(case["requests"], obs["requests"]):
        formula = render(ast_, [1])
        cs = "[" + "; ".join(c_N(ord(ch)) for ch in formula) + "]"
        name = "[" + "; ".join(c_N(ord(ch)) for ch in POOL_METRICS[m].lower()) + "]"
        sub = {"rows": [pool_row(r, m) for r in case["rows"]]}
        rows = c_rows(sub, d)
        if rows is None:
            rows, prog = "[]", "([SOpen; SOpen; SOpen], [])"
        else:
            prog = c_prog(d)
        reqs.append(f"({cs}, {name}, {cbool(nz)}, {prog}, {rows})")
    comps = []
    for cd in obs.get("composed", []):
        # the composed engine reads what the request engines emitted
        tree = ["e", ["s", cd["i"]], cd["op"], cd["j"]]
        sub_rows = []
        ok = True
        for k in range(len(case["rows"])):
            row = {}
            for n in {cd["i"], cd["j"]}:
                o = obs["requests"][n]["out"][k] if k < len(obs["requests"][n]["out"]) else "dropped"
                if o is None:
                    row[str(n)] = "none"
                elif isinstance(o, list) and len(o) == 2 and isinstance(o[0], int):
                    row[str(n)] = o
                else:
                    ok = False
            sub_rows.append(row)
        rows = c_rows({"rows": sub_rows}, cd) if ok else None
        if rows is None:
            comps.append(f"({c_hb(tree)}, false, [], ([SOpen; SOpen; SOpen], []), [])")
        else:
            comps.append(f"({c_hb(tree)}, false, [], {c_prog(cd)}, {rows})")
    return "([" + "; ".join(reqs) + "], [" + "; ".join(comps) + "])"


def gen_pool_case(rng):
    ids = [1, 2, 3]
    forms = []
    for _ in range(rng.randint(1, 3)):
        forms.append(gen_chain(rng, ids, rng.randint(1, 4)) if rng.random() < 0.6 else gen_ast(rng, rng.randint(1, 3), ids, 0.1))
    metrics = rng.sample(range(len(POOL_METRICS)), rng.randint(1, 3))
    reqs = []
    for _ in range(rng.randint(2, 6)):
        r = rng.random()
        if reqs and r < 0.35:          # same string, another (or the same) metric
            a, m, nz = rng.choice(reqs)
            reqs.append([a, rng.choice(metrics), nz if rng.random() < 0.7 else not nz])
        elif reqs and r < 0.5:         # identical request again
            reqs.append(list(rng.choice(reqs)))
        else:
            reqs.append([rng.choice(forms), rng.choice(metrics), rng.random() < 0.4])
    names = sorted({f"{m}:{i}" for a, m, _ in reqs for i in ast_vars(a)})
    rows = []
    for _ in range(rng.randint(2, 4)):
        pm = rng.choice([0.0, 0.0, 0.2])
        rows.append({n: gen_value(rng, pm) if rng.random() < 0.5 else rng.randint(-50, 50) * (int(n.split(":")[0]) + 2) + int(n.split(":")[1]) for n in names})
    case = {"kind": "pool", "requests": reqs, "rows": rows}
    if rng.random() < 0.5 and len(reqs) > 1:
        case["compose"] = [[rng.randrange(len(reqs)), rng.choice(HOPS), rng.randrange(len(reqs))] for _ in range(rng.randint(1, 3))]
    return case


def gen_pool_long_case(rng):
    """LONG formula strings (> 40 characters) with a long common prefix, started on one pool and composed"""
    ids = [1, 2, 3]
    prefix = gen_chain(rng, ids, rng.randint(9, 12))
    forms = [["b", rng.choice(["+", "-"]), prefix, ["v", i]] for i in rng.sample(ids, 2)] + [["b", "*", ["p", prefix], ["v", rng.choice(ids)]]]
    metrics = rng.sample(range(len(POOL_METRICS)), 2)
    reqs = [[forms[0], metrics[0], False], [forms[1], metrics[0], False], [forms[0], metrics[1], False], [forms[2], metrics[0], rng.random() < 0.5]]
    names = sorted({f"{m}:{i}" for a, m, _ in reqs for i in ast_vars(a)})
    rows = [{n: rng.randint(-9, 9) * (int(n.split(":")[0]) + 2) + int(n.split(":")[1]) for n in names} for _ in range(2)]
    return {"kind": "pool", "requests": reqs, "rows": rows,
            "compose": [[0, "-", 1], [0, rng.choice(HOPS), 2], [rng.randrange(4), rng.choice(HOPS), rng.randrange(4)]]}


def gen_stall(rng, names, nrows):
    """[stream, first stalled row, number of stalled rows]: 7..9 rows of 10 s = 70..90 s without a sample"""
    n = rng.choice([7, 7, 8, 9])
    k0 = rng.randint(1, max(1, nrows - n))
    return [str(rng.choice(names)), k0, n]


def run_case(case, exact=True):
    import async_solipsism
    fn = {"str": _run_str, "ho": _run_ho, "raw": _run_raw, "signed": _run_signed, "pool": _run_pool, "ho3": _run_ho3}[case["kind"]]
    loop = async_solipsism.EventLoop()
    try:
        return loop.run_until_complete(fn(case, exact))
    finally:
        loop.close()


def run_both(case):
    obs = run_case(case, exact=True)
    if "error" not in obs:
        fl = run_case(case, exact=False)
        obs["float_out"] = fl.get("out")
        if "tail" in fl:
            obs["float_tail"] = fl["tail"]
        for b, fb in zip(obs.get("builds", []), fl.get("builds", [])):
            b["float_out"] = fb.get("out")
            if "tail" in fb:
                b["float_tail"] = fb["tail"]
        for b, fb in zip(obs.get("requests", []), fl.get("requests", [])):
            b["float_out"] = fb.get("out")
        for b, fb in zip(obs.get("composed", []), fl.get("composed", [])):
            b["float_out"] = fb.get("out")
        for b, fb in zip(obs.get("phases", []), fl.get("phases", [])):
            b["float_out"] = fb.get("out")
        obs["float_steps_same_shape"] = "steps" not in obs or [s[:1] + ([s[1]] if s[0] in ("op", "fetch") else []) for s in fl.get("steps", [])] == \
                                        [s[:1] + ([s[1]] if s[0] in ("op", "fetch") else []) for s in obs["steps"]]
    return obs


# ----------------------------------------------------------------------------- string ASTs
# ["v", id] | ["b", op, lhs, rhs] | ["p", e]
def lvl(op):
    return 0 if op in "+-" else 1


def pp_tokens(e, level=0):
    """standard printer: minimal parentheses by precedence climbing, plus explicit ["p", e] nodes"""
    if e[0] == "v":
        return [f"#{e[1]}"]
    if e[0] == "p":
        return ["("] + pp_tokens(e[1], 0) + [")"]
    _, op, a, b = e
    body = pp_tokens(a, lvl(op)) + [op] + pp_tokens(b, lvl(op) + 1)
    return body if level <= lvl(op) else ["("] + body + [")"]


def render(ast, ws):
    toks = pp_tokens(ast)
    out = []
    for i, t in enumerate(toks):
        out.append(WS[ws[i % len(ws)] % len(WS)] if ws else "")
        out.append(t)
    out.append(WS[ws[len(toks) % len(ws)] % len(WS)] if ws else "")
    return "".join(out)


def std_parse(s):
    """Independent reference parser: ordinary precedence, left-associative, parentheses.
    Returns the AST without paren nodes."""
    toks = []
    i = 0
    while i < len(s):
        c = s[i]
        if c in " \t\r\n":
            i += 1
        elif c in "+-*/()":
            toks.append(c)
            i += 1
        elif c == "#":
            j = i + 1
            while j < len(s) and s[j] in "0123456789":
                j += 1
            if j == i + 1:
                raise ValueError("digits expected")
            toks.append(("v", int(s[i + 1:j])))
            i = j
        else:
            raise ValueError(f"bad char {c!r}")
    pos = [0]

    def peek():
        return toks[pos[0]] if pos[0] < len(toks) else None

    def atom():
        t = peek()
        if t == "(":
            pos[0] += 1
            e = summ()
            if peek() != ")":
                raise ValueError("expected )")
            pos[0] += 1
            return e
        if isinstance(t, tuple):
            pos[0] += 1
            return ["v", t[1]]
        raise ValueError("operand expected")

    def term():
        e = atom()
        while peek() in ("*", "/"):
            op = peek()
            pos[0] += 1
            e = ["b", op, e, atom()]
        return e

    def summ():
        e = term()
        while peek() in ("+", "-"):
            op = peek()
            pos[0] += 1
            e = ["b", op, e, term()]
        return e

    e = summ()
    if pos[0] != len(toks):
        raise ValueError("trailing tokens")
    return e


def strip_parens(e):
    if e[0] == "p":
        return strip_parens(e[1])
    if e[0] == "b":
        return ["b", e[1], strip_parens(e[2]), strip_parens(e[3])]
    return e


def ast_vars(e):
    if e[0] == "v":
        return {e[1]}
    if e[0] == "p":
        return ast_vars(e[1])
    return ast_vars(e[2]) | ast_vars(e[3])


def ast_depth(e):
    if e[0] == "v":
        return 0
    if e[0] == "p":
        return ast_depth(e[1])
    return 1 + max(ast_depth(e[2]), ast_depth(e[3]))


# ----------------------------------------------------------------------------- independent evaluation
def fetch_ref(v, nz):
    """value of an input as the property describes it: a number, or None (= missing)."""
    v = dec(v)
    if isinstance(v, str):
        return F(0) if nz else None
    return v


def binop_ref(op, a, b):
    """ordinary arithmetic on Fractions / +-inf; None = undefined"""
    if a is None or b is None:
        return None
    try:
        if op == "+":
            r = a + b
        elif op == "-":
            r = a - b
        elif op == "*":
            r = a * b
        elif op == "/":
            if b == 0:
                return None
            r = a / b
        elif op == "max":
            r = a if a >= b else b
        elif op == "min":
            r = a if a <= b else b
        else:
            raise ValueError(op)
    except ZeroDivisionError:
        return None
    if isinstance(r, float) and math.isnan(r):
        return None
    if isinstance(r, float) and math.isfinite(r):
        r = F(r)        # finite / inf = (signed) zero: keep the evaluation exact afterwards
    return r


def eval_ast(e, row, nz):
    if e[0] == "v":
        return fetch_ref(row[str(e[1])], nz)
    if e[0] == "p":
        return eval_ast(e[1], row, nz)
    return binop_ref(e[1], eval_ast(e[2], row, nz), eval_ast(e[3], row, nz))


def const_ref(v):
    v = dec(v)
    if v == "nan" or v == "none":
        return None
    if v == "inf":
        return math.inf
    if v == "-inf":
        return -math.inf
    return v


def eval_hb(t, row, nzf):
    """nzf(name) -> does a missing value of that stream count as zero"""
    k = t[0]
    if k == "s":
        return fetch_ref(row[str(t[1])], nzf(t[1]))
    a = eval_hb(t[1], row, nzf)
    if k == "u":
        if a is None:
            return None
        if t[2] == "consumption":
            return a if a > 0 else F(0)
        return -a if a < 0 else F(0)
    if k == "e":
        b = fetch_ref(row[str(t[3])], nzf(t[3]))
    elif k == "c":
        b = const_ref(t[3])
    else:
        b = eval_hb(t[3], row, nzf)
    return binop_ref(t[2], a, b)


def finite_or_none(r):
    if r is None:
        return None
    if isinstance(r, float):
        if not math.isfinite(r):
            return None
        return F(r)
    return r


def cut_case(case, b):
    """rows an engine is judged on: all, or those before it was stopped / before one of its inputs ended"""
    n = b.get("stopped_at", b.get("ended_at"))
    return case if n is None else {**case, "rows": case["rows"][:n]}


def tail_violations(b, who=""):
    """after one of its inputs has ended an engine must not emit anything: a sample for a timestamp for
    which some input delivered nothing would be computed from a stale value"""
    out = []
    for k, g in enumerate(b.get("tail", [])):
        for tag, x in (("exact", g), ("float", (b.get("float_tail") or [])[k] if k < len(b.get("float_tail") or []) else "dropped")):
            if x != "dropped":
                out.append({"what": f"sample-after-input-ended: {who}a sample {x} was emitted for timestamp {b['ended_at'] + k} although an input stream had ended before it ({tag} run)", "finding": None})
                return out
    return out


def judge_rows(case, obs, ref_fn, out):
    """C05 + C13 on implementation-observable values.  ref_fn(row) -> Fraction | None."""
    for tag, o in (("exact", obs.get("out") or []), ("float", obs.get("float_out") or [])):
        for g in o[len(case["rows"]):]:
            out.append({"what": f"sample-count: samples at unexpected timestamps {g} ({tag} run)", "finding": None})
    for k, row in enumerate(case["rows"]):
        want = finite_or_none(ref_fn(row))
        got = obs["out"][k] if k < len(obs["out"]) else "dropped"
        gotf = obs["float_out"][k] if obs.get("float_out") and k < len(obs["float_out"]) else "dropped"
        # the exact run is the reference run; the float run is supporting evidence.  Rounding can turn a divisor
        # that is exactly zero into a tiny non-zero one (5/3 + 5 - 5 - 5/3) and vice versa, so a None-vs-value
        # difference of the float run is not judged when the exact run of the same case is right at this timestamp
        exact_right = (got is None and want is None) or (
            isinstance(got, list) and len(got) == 2 and got[0] not in ("dup", "extra", "float") and want is not None
            and F(got[0], got[1]) == want)
        for tag, g in (("exact", got), ("float", gotf)):
            if g == "dropped":
                out.append({"what": f"no-sample: nothing emitted for timestamp {k} ({tag} run); expected {'None' if want is None else want}", "finding": None})
                continue
            if isinstance(g, list) and g and g[0] in ("dup", "extra"):
                out.append({"what": f"sample-count: {g} at timestamp {k} ({tag} run)", "finding": None})
                continue
            if tag == "float" and exact_right and (want is None) != (g is None):
                continue
            if want is None:
                if g is not None:
                    out.append({"what": f"none-expected: timestamp {k} has a missing needed input or an undefined result but {g} was emitted ({tag} run)", "finding": None})
                continue
            if g is None:
                out.append({"what": f"value-expected: timestamp {k} should be {want} but None was emitted ({tag} run)", "finding": None})
                continue
            if g[0] == "float":
                x = float(g[1])
                if not math.isclose(x, float(want), rel_tol=1e-9, abs_tol=1e-9):
                    out.append({"what": f"value: timestamp {k} should be {want} but {x} was emitted (float run)", "finding": None})
            else:
                if F(g[0], g[1]) != want:
                    out.append({"what": f"value: timestamp {k} should be {want} but {F(g[0], g[1])} was emitted ({tag} run)", "finding": None})
        if out:
            break


# ----------------------------------------------------------------------------- Coq rendering
def c_N(n):
    return f"{int(n)}%N"


def c_val(v):
    v = dec(v) if not isinstance(v, F) else v
    if v == "nan" or v == "none":
        return "NaN"
    if v == "inf":
        return "PInf"
    if v == "-inf":
        return "NInf"
    return f"(Num {cQ(v)})"


def c_val_out(x):
    """encoded step constant (out_enc format) -> val"""
    if x is None:
        return "NaN"
    if x[0] == "float":
        f = float(x[1])
        if math.isnan(f):
            return "NaN"
        if math.isinf(f):
            return "PInf" if f > 0 else "NInf"
        return f"(Num {cQ(F(f))})"
    return f"(Num {cQ(F(x[0], x[1]))})"


def c_inp(v):
    v = dec(v)
    if isinstance(v, str):
        return {"none": "INone", "nan": "INaN", "inf": "IPInf", "-inf": "INInf"}[v]
    return f"(IVal {cQ(v)})"


OPSTEP = {"+": "SAdd", "-": "SSub", "*": "SMul", "/": "SDiv", "max": "SMax", "min": "SMin",
          "consumption": "SCons", "production": "SProd", "(": "SOpen"}
OPER = {"+": "OAdd", "-": "OSub", "*": "OMul", "/": "ODiv", "max": "OMax", "min": "OMin",
        "consumption": "OCons", "production": "OProd", "(": "OLp", ")": "ORp"}


def name_num(name):
    return int(name.lstrip("#e"))


def c_step(s):
    if s[0] == "op":
        return OPSTEP.get(s[1], "SOpen (* unknown %s *)" % s[1])
    if s[0] == "fetch":
        return f"(SFetch {c_N(name_num(s[1]))})"
    if s[0] == "const":
        return f"(SConst {c_val_out(s[1])})"
    lo = "None" if s[1] is None else f"(Some {c_val_out(s[1])})"
    hi = "None" if s[2] is None else f"(Some {c_val_out(s[2])})"
    return f"(SClip {lo} {hi})"


def c_prog(obs):
    steps = "[" + "; ".join(c_step(s) for s in obs["steps"]) + "]"
    fetch = "[" + "; ".join(f"({c_N(name_num(k))}, {cbool(z)})" for k, z in obs["fetchers"]) + "]"
    return f"({steps}, {fetch})"


def c_outcome(o):
    if o == "dropped":
        return "Dropped"
    if o is None:
        return "(Emit None)"
    if isinstance(o, list) and o and isinstance(o[0], int) and len(o) == 2:
        return f"(Emit (Some {cQ(F(o[0], o[1]))}))"
    return None


def c_rows(case, obs):
    rows = []
    if obs.get("no_inputs"):
        return "[]"     # a formula without input streams is never run (its engine would spin, see harness note)
    for row, o in zip(case["rows"], obs["out"]):
        co = c_outcome(o)
        if co is None:
            return None
        env = "[" + "; ".join(f"({c_N(k)}, {c_inp(v)})" for k, v in sorted(row.items(), key=lambda kv: int(kv[0]))) + "]"
        rows.append(f"({env}, {co})")
    if len(obs["out"]) != len(case["rows"]):
        return None
    return "[" + "; ".join(rows) + "]"


def c_hb(t):
    k = t[0]
    if k == "s":
        return f"(HStart {c_N(t[1])})"
    if k == "u":
        return f"(HUn {c_hb(t[1])} {'UCons' if t[2] == 'consumption' else 'UProd'})"
    op = {"+": "(HB Add)", "-": "(HB Sub)", "*": "(HB Mul)", "/": "(HB Div)", "max": "HMax", "min": "HMin"}[t[2]]
    if k == "e":
        return f"(HPushE {c_hb(t[1])} {op} {c_N(t[3])})"
    if k == "c":
        return f"(HPushC {c_hb(t[1])} {op} {c_val(t[3])})"
    return f"(HPushB {c_hb(t[1])} {op} {c_hb(t[3])})"


def c_expr(e):
    if e[0] == "v":
        return f"(EVar {c_N(e[1])})"
    if e[0] == "p":
        return f"(EParen {c_expr(e[1])})"
    op = {"+": "Add", "-": "Sub", "*": "Mul", "/": "Div"}[e[1]]
    return f"(EBin {op} {c_expr(e[2])} {c_expr(e[3])})"


HEADER = """From Coq Require Import NArith QArith Qabs.
From Verif Require Import model.Common model.Formula.
Open Scope Q_scope.
Definition fq (m e : Z) : Q := if (0 <=? e)%Z then ((m * 2 ^ e)%Z # 1) else (m # Z.to_pos (2 ^ (- e))%Z).
Definition rows_ok (p : list step * list (N * bool)) (rows : list (list (N * inp) * outcome)) : bool :=
  forallb (fun r => outcome_eqb (run_round Num p (env_of (fst r))) (snd r)) rows.
(* string path: code points of the formula, nones_are_zeros, the AST it was printed from,
   the implementation's (steps, fetchers) or None for ValueError, rounds *)
Definition tokens_eqb (a b : list tok) : bool :=
  list_eqb (fun x y => match x, y with
                       | TMetric n, TMetric m => N.eqb n m
                       | TOper o, TOper o' => step_eqb (step_of o) (step_of o') && Bool.eqb (is_rp o) (is_rp o')
                                              && Bool.eqb (is_lp o) (is_lp o')
                       | TConst v, TConst w => val_eqb v w
                       | _, _ => false end) a b.
Definition check_str (c : list N * bool * option expr * option (list step * list (N * bool))
                          * list (list (N * inp) * outcome)) : bool :=
  let '(cs, nz, oe, eprog, rows) := c in
  match compile_string nz cs, eprog with
  | None, None => true
  | Some p, Some ep =>
      prog_eqb p ep && rows_ok p rows &&
      match oe with
      | Some e => opt_eqb tokens_eqb (tokenize cs) (Some (pp 0 e))     (* the model's printer = the string *)
      | None => true
      end
  | _, _ => false
  end.
(* operator path.  Every operand engine is itself a FormulaEngine.from_receiver(name, rx, nones_are_zeros=z)
   whose output feeds the composed formula: [via_engine]. *)
Definition via_engine (z : bool) (i : inp) : inp :=
  match run_round Num (compile z [TMetric 0%N]) (fun _ => i) with
  | Emit (Some q) => IVal q
  | _ => INone
  end.
Definition check_ho (c : hb * bool * list (N * bool) * (list step * list (N * bool))
                         * list (list (N * inp) * outcome)) : bool :=
  let '(t, nz, src, ep, rows) := c in
  let p := compile_hb nz t in
  prog_eqb p ep &&
  forallb (fun r => outcome_eqb (run_round Num p (fun n => via_engine (nz_flag src n) (env_of (fst r) n))) (snd r)) rows.
Definition check_ho_multi (cs : list (hb * bool * list (N * bool) * (list step * list (N * bool))
                                       * list (list (N * inp) * outcome))) : bool := forallb check_ho cs.
(* the formula generators' call sequence (C12 <-> C05) *)
Definition check_signed (c : N * bool * list sterm * (list step * list (N * bool))
                             * list (list (N * inp) * outcome)) : bool :=
  let '(n0, z0, rest, ep, rows) := c in
  let p := compile_signed n0 z0 rest in prog_eqb p ep && rows_ok p rows.
(* FormulaEnginePool.from_string: requests (formula, metric name, nones_are_zeros) on one pool; for every request
   the implementation's program of the engine it got and the rounds on the streams of the request's metric *)
Fixpoint forall2b {A B} (f : A -> B -> bool) (a : list A) (b : list B) : bool :=
  match a, b with
  | [], [] => true
  | x :: xs, y :: ys => f x y && forall2b f xs ys
  | _, _ => false
  end.
Definition check_pool (cc : list (list N * list N * bool * (list step * list (N * bool))
                                  * list (list (N * inp) * outcome))
                            * list (hb * bool * list (N * bool) * (list step * list (N * bool))
                                    * list (list (N * inp) * outcome))) : bool :=
  let c := fst cc in
  forallb check_ho (snd cc) &&
  let engines := pool_requests (map (fun r => let '(f, m, nz, _, _) := r in (f, m, nz)) c) in
  forall2b (fun r e => let '(_, m, _, ep, rows) := r in
              list_eqb N.eqb (pe_metric e) m &&
              match pe_prog e with
              | Some p => prog_eqb p ep && rows_ok p rows
              | None => false
              end) c engines.
(* raw FormulaBuilder calls *)
Inductive bcall := COper (o : oper) | CMetric (n : N) (nz : bool) | CConst (v : val) | CClip (lo hi : option val).
Definition do_call (b : builder) (c : bcall) : builder :=
  match c with
  | COper o => push_oper o b
  | CMetric n nz => push_metric n nz b
  | CConst v => push_constant v b
  | CClip lo hi => push_clipper lo hi b
  end.
Definition check_raw (c : list bcall * (list step * list (N * bool)) * list (list (N * inp) * outcome)) : bool :=
  let '(calls, ep, rows) := c in
  let p := finalize (fold_left do_call calls empty_builder) in prog_eqb p ep && rows_ok p rows.
"""


def term_str(case, obs):
    formula = render(case["ast"], case["ws"]) if "ast" in case else case["formula"]
    if any(ord(ch) > 127 for ch in formula):
        return None     # the model's tokenizer covers ASCII input only
    cs = "[" + "; ".join(c_N(ord(ch)) for ch in formula) + "]"
    oe = f"(Some {c_expr(case['ast'])})" if "ast" in case else "None"
    if "error" in obs:
        return f"({cs}, {cbool(case['nz'])}, {oe}, None, [])"
    if case.get("lost"):       # the start-up rounds of a stream that lost its first common sample are not judged
        rows = c_rows({"rows": case["rows"][2:]}, {**obs, "out": obs["out"][2:]})
    else:
        rows = c_rows(cut_case(case, obs), obs)
    if rows is None:
        return f"({cs}, {cbool(case['nz'])}, {oe}, Some ([SOpen; SOpen; SOpen], []), [])"   # malformed observation: force a mismatch
    return f"({cs}, {cbool(case['nz'])}, {oe}, Some {c_prog(obs)}, {rows})"


def term_ho(case, obs):
    """one check_ho tuple per engine that was built (main engine last)"""
    src = "[" + "; ".join(f"({c_N(k)}, {cbool(z)})" for k, z in sorted(case.get("src_nz", {}).items(), key=lambda kv: int(kv[0]))) + "]"
    out = []
    for b in obs.get("builds") or [{"tree": case["tree"], "nz": case["nz"], **obs}]:
        rows = c_rows(cut_case(case, b), b)
        if rows is None:
            out.append(f"({c_hb(b['tree'])}, {cbool(b['nz'])}, {src}, ([SOpen; SOpen; SOpen], []), [])")
        else:
            out.append(f"({c_hb(b['tree'])}, {cbool(b['nz'])}, {src}, {c_prog(b)}, {rows})")
    return "[" + "; ".join(out) + "]"


def c_call(c):
    if c[0] == "o":
        return f"(COper {OPER[c[1]]})"
    if c[0] == "m":
        return f"(CMetric {c_N(c[1])} {cbool(c[2])})"
    if c[0] == "k":
        return f"(CConst {c_val(c[1])})"
    lo = "None" if c[1] is None else f"(Some {c_val(c[1])})"
    hi = "None" if c[2] is None else f"(Some {c_val(c[2])})"
    return f"(CClip {lo} {hi})"


def term_raw(case, obs):
    rows = c_rows(case, obs)
    calls = "[" + "; ".join(c_call(c) for c in case["calls"]) + "]"
    if rows is None:
        return f"({calls}, ([SOpen; SOpen; SOpen], []), [])"
    return f"({calls}, {c_prog(obs)}, {rows})"


# ----------------------------------------------------------------------------- generation
VALS = [0, 0, 0, 1, 1, 2, 3, 4, 5, 6, -1, -2, -3, -5, 7, 10, [1, 2], [-3, 2], [5, 3], 12, 100]


def gen_value(rng, p_missing):
    if rng.random() < p_missing:
        return rng.choice(MISSING)
    return rng.choice(VALS)


def gen_rows(rng, names, n, p_missing):
    rows = []
    for _ in range(n):
        pm = rng.choice([0.0, 0.0, p_missing, p_missing, 0.5])
        rows.append({str(k): gen_value(rng, pm) for k in names})
    return rows


def gen_ast(rng, depth, ids, p_paren=0.15):
    if depth == 0 or rng.random() < 0.18:
        e = ["v", rng.choice(ids)]
    else:
        op = rng.choice(BOPS)
        d1, d2 = depth - 1, depth - 1
        if rng.random() < 0.5:   # skew: chains
            if rng.random() < 0.5:
                d2 = rng.randint(0, d2)
            else:
                d1 = rng.randint(0, d1)
        e = ["b", op, gen_ast(rng, d1, ids, p_paren), gen_ast(rng, d2, ids, p_paren)]
    while rng.random() < p_paren:
        e = ["p", e]
    return e


def gen_chain(rng, ids, n):
    """flat chain a o b o c ... (left-nested AST): the shape the precedence table decides"""
    e = ["v", rng.choice(ids)]
    for _ in range(n):
        op = rng.choice(BOPS)
        r = ["v", rng.choice(ids)]
        if lvl(op) == 1 and e[0] == "b" and lvl(e[1]) == 0:
            # a + b * c : attach to the right-most term to stay paren-free
            e = ["b", e[1], e[2], ["b", op, e[3], r]]
        else:
            e = ["b", op, e, r]
    return e


def gen_str_case(rng):
    ids = rng.sample([1, 2, 3, 4, 5, 7, 12, 30], rng.randint(1, 5))
    r = rng.random()
    if r < 0.3:
        ast = gen_chain(rng, ids, rng.randint(1, 8))
    else:
        ast = gen_ast(rng, rng.randint(1, 6), ids, rng.choice([0.0, 0.1, 0.3]))
    ws = [rng.randrange(len(WS)) for _ in range(rng.randint(1, 7))] if rng.random() < 0.7 else [1]
    names = sorted(ast_vars(ast))
    return {"kind": "str", "ast": ast, "ws": ws, "nz": rng.random() < 0.4,
            "rows": gen_rows(rng, names, rng.randint(2, 4), rng.choice([0.0, 0.15, 0.3]))}


HOPS = ("+", "-", "*", "/", "max", "min")


def gen_hb(rng, depth, ids, pool=None):
    """pool (list): sub-trees generated so far; with it, operands are sometimes a copy of an earlier
    sub-tree, so that the tree has repeated sub-expressions (built as ONE shared object, see build_hb)."""
    if depth == 0:
        return ["s", rng.choice(ids)]
    r = rng.random()
    if pool and rng.random() < 0.3:
        base = json.loads(json.dumps(rng.choice(pool)))
    else:
        base = gen_hb(rng, depth - 1 if rng.random() < 0.7 else rng.randint(0, depth - 1), ids, pool)
    if r < 0.14:
        res = ["u", base, rng.choice(["consumption", "production"])]
    else:
        op = rng.choice(HOPS)
        r = rng.random()
        if r < 0.35:
            res = ["e", base, op, rng.choice(ids)]
        elif r < 0.5:
            c = rng.choice(VALS + ([["inf", "-inf", "nan"][rng.randrange(3)]] if rng.random() < 0.15 else []))
            res = ["c", base, op, c]
        elif pool and rng.random() < 0.5:
            res = ["b", base, op, json.loads(json.dumps(rng.choice(pool + [base])))]
        else:
            res = ["b", base, op, gen_hb(rng, rng.randint(0, depth - 1), ids, pool)]
    if pool is not None and res[0] != "s":
        pool.append(res)
    return res


def gen_ho_case(rng):
    ids = rng.sample([0, 1, 2, 3, 4, 5], rng.randint(1, 4))
    share = rng.random() < 0.3
    tree = gen_hb(rng, rng.randint(1, 6 if not share else 4), ids, [] if share else None)
    names = sorted(hb_names(tree))
    nz = rng.random() < 0.4
    extra = {}
    if rng.random() < 0.35:
        subs = [x for x in hb_subtrees(tree) if x[0] != "s"]
        pick = lambda: [rng.choice(["f", "f", "g"]), nz if rng.random() < 0.6 else not nz]
        extra["pre"] = [[json.loads(json.dumps(rng.choice(subs)))] + pick() for _ in range(rng.randint(0, 2))]
        extra["finals"] = [pick() for _ in range(rng.randint(0 if extra["pre"] else 1, 2))]
    if rng.random() < 0.15 and len(names) > 1:      # different operand engines with EQUAL names
        lab = rng.choice(["power", "e0"])
        group = rng.sample(names, rng.randint(2, len(names)))
        extra["names"] = {str(n): lab for n in group}
        rest = [n for n in names if n not in group]
        if rest and rng.random() < 0.6:     # another engine LITERALLY named like a disambiguated duplicate
            extra["names"][str(rng.choice(rest))] = f"{lab} [{rng.choice([2, 2, 3])}]"
        elif len(group) > 2 and rng.random() < 0.5:
            extra["names"][str(group[-1])] = f"{lab} [2]"
    if rng.random() < 0.2:                          # the same instants written in different time zones
        extra["zones"] = {str(n): rng.choice(ZONES) for n in names}
    if rng.random() < 0.15:                         # several engines sharing the input engines, some stopped mid-run
        extra.setdefault("finals", []).append(["g", nz])
        extra["stop"] = [[rng.randint(0, 2), rng.randint(1, 2)] for _ in range(rng.randint(1, 2))]
    return {"kind": "ho", "tree": tree, "nz": nz, "share": share, "perturb": rng.random() < 0.3, **extra,
            "rows": gen_rows(rng, names, rng.randint(2, 4), rng.choice([0.0, 0.15, 0.3]))}


def gen_raw_case(rng):
    ids = [0, 1, 2, 3]
    calls = []
    wellformed = rng.random() < 0.6
    if wellformed:
        # infix sequence with per-stream flags, optional clippers after operands
        def operand(d):
            r = rng.random()
            if d > 0 and r < 0.25:
                calls.append(["o", "("])
                seq(d - 1)
                calls.append(["o", ")"])
            elif r < 0.4:
                calls.append(["k", rng.choice(VALS + ["inf", "-inf"]) if rng.random() < 0.3 else rng.choice(VALS)])
            else:
                calls.append(["m", rng.choice(ids), rng.random() < 0.5])
            if rng.random() < 0.15:
                lo = rng.choice([None, -2, 0, 1])
                hi = rng.choice([None, 0, 3, 5])
                calls.append(["clip", lo, hi])

        def seq(d):
            operand(d)
            for _ in range(rng.randint(0, 4)):
                calls.append(["o", rng.choice(BOPS)])
                operand(d)
        seq(3)
    else:
        for _ in range(rng.randint(1, 10)):
            r = rng.random()
            if r < 0.45:
                calls.append(["o", rng.choice(["+", "-", "*", "/", "(", ")", "max", "min", "consumption", "production"])])
            elif r < 0.85:
                calls.append(["m", rng.choice(ids), rng.random() < 0.5])
            elif r < 0.95:
                calls.append(["k", rng.choice(VALS)])
            else:
                calls.append(["clip", rng.choice([None, 0]), rng.choice([None, 3])])
    seen = set()
    for c in calls:       # a repeated push of a name re-uses the receiver object of its first push half of the time
        if c[0] == "m":
            if c[1] in seen and rng.random() < 0.5:
                c.append(True)
            seen.add(c[1])
    names = sorted({c[1] for c in calls if c[0] == "m"})
    return {"kind": "raw", "calls": calls, "wellformed": wellformed,
            "rows": gen_rows(rng, names, rng.randint(1, 3), rng.choice([0.0, 0.3]))}


def raw_ref(case, row):
    """independent evaluation of a WELL-FORMED push_* sequence: operand := metric | constant | ( seq ),
    each followed by any number of clippers; seq := operand (op operand)* with ordinary precedence.
    A missing metric is 0 on a zero-configured name (flag of its first push), else None."""
    calls = case["calls"]
    flags = {}
    for c in calls:
        if c[0] == "m":
            flags.setdefault(c[1], bool(c[2]))
    pos = [0]

    def peek():
        return calls[pos[0]] if pos[0] < len(calls) else None

    def operand():
        c = peek()
        pos[0] += 1
        if c[0] == "o" and c[1] == "(":
            v = seq()
            assert peek() == ["o", ")"]
            pos[0] += 1
        elif c[0] == "k":
            v = const_ref(c[1])
        elif c[0] == "m":
            v = fetch_ref(row[str(c[1])], flags[c[1]])
        else:
            raise ValueError("operand expected")
        while peek() is not None and peek()[0] == "clip":
            _, lo, hi = peek()
            pos[0] += 1
            if v is not None:
                if lo is not None:
                    v = max(v, dec(lo))
                if hi is not None:
                    v = min(v, dec(hi))
        return v

    def term():
        v = operand()
        while peek() is not None and peek()[0] == "o" and peek()[1] in ("*", "/"):
            op = peek()[1]
            pos[0] += 1
            v = binop_ref(op, v, operand())
        return v

    def seq():
        v = term()
        while peek() is not None and peek()[0] == "o" and peek()[1] in ("+", "-"):
            op = peek()[1]
            pos[0] += 1
            v = binop_ref(op, v, term())
        return v

    v = seq()
    assert pos[0] == len(calls)
    return v


def all_asts(depth, ids):
    if depth == 0:
        return [["v", i] for i in ids]
    sub = all_asts(depth - 1, ids)
    return sub + [["b", op, a, b] for op in BOPS for a in sub for b in sub]


# ----------------------------------------------------------------------------- shrinking
def shrink_ast(e):
    if e[0] == "p":
        yield e[1]
        for s in shrink_ast(e[1]):
            yield ["p", s]
    elif e[0] == "b":
        yield e[2]
        yield e[3]
        for s in shrink_ast(e[2]):
            yield ["b", e[1], s, e[3]]
        for s in shrink_ast(e[3]):
            yield ["b", e[1], e[2], s]


def shrink_hb(t):
    k = t[0]
    if k == "s":
        return
    if t[1][0] != "s" or k == "b":
        yield t[1] if t[1][0] != "s" else t[3]
    if k == "b":
        yield t[3]
        yield ["e", t[1], t[2], sorted(hb_names(t[3]))[0]]
        for s in shrink_hb(t[3]):
            yield ["b", t[1], t[2], s]
    for s in shrink_hb(t[1]):
        yield [k, s] + t[2:]


def shrink_rows(case):
    rows = case["rows"]
    if len(rows) > 1:
        for i in range(len(rows)):
            yield {**case, "rows": [rows[i]]}
    for i, row in enumerate(rows):
        for k, v in row.items():
            for simpler in (1, 0):
                if v != simpler and not (isinstance(v, str)):
                    yield {**case, "rows": rows[:i] + [{**row, k: simpler}] + rows[i + 1:]}
            if isinstance(v, str) and v != "none":
                yield {**case, "rows": rows[:i] + [{**row, k: "none"}] + rows[i + 1:]}


def fix_rows(case, names):
    rows = []
    for r in case["rows"]:
        rows.append({str(n): r.get(str(n), 1) for n in names})
    return {**case, "rows": rows}


def shrink_case(case):
    if case["kind"] == "str" and "ast" in case:
        for a in shrink_ast(case["ast"]):
            yield fix_rows({**case, "ast": a}, sorted(ast_vars(a)))
        if case["ws"] != [1]:
            yield {**case, "ws": [1]}
    elif case["kind"] == "ho":
        for t in shrink_hb(case["tree"]):
            if t[0] != "s":
                yield fix_rows({**case, "tree": t}, sorted(hb_names(t)))
    elif case["kind"] == "ho3":
        for t in shrink_hb(case["tree"]):
            if t[0] != "s" and "c" not in json.dumps(t):
                yield fix_rows({**case, "tree": t}, [f"{n}:{ph}" for n in sorted(hb_names(t)) for ph in range(3)])
    elif case["kind"] == "pool":
        r = case["requests"]
        cm = case.get("compose", [])
        for i in range(len(cm)):
            yield {**case, "compose": cm[:i] + cm[i + 1:]}
        for i in range(len(r)):
            if len(r) > 1 and not any(i in (c[0], c[2]) for c in cm):
                yield {**case, "requests": r[:i] + r[i + 1:],
                       "compose": [[a - (a > i), op, b - (b > i)] for a, op, b in cm]}
        for i, (a, m, nz) in enumerate(r):
            for a2 in shrink_ast(a):
                if ast_vars(a2):
                    yield {**case, "requests": r[:i] + [[a2, m, nz]] + r[i + 1:]}
    elif case["kind"] == "signed":
        t = case["terms"]
        for i in range(len(t)):
            yield {**case, "terms": t[:i] + t[i + 1:]}
    elif case["kind"] == "raw":
        c = case["calls"]
        for i in range(len(c)):
            yield {**case, "calls": c[:i] + c[i + 1:]}
    for fld in ("pre", "finals", "pre_rows", "stop"):
        lst = case.get(fld) or []
        for i in range(len(lst)):
            yield {**case, fld: lst[:i] + lst[i + 1:]}
    yield from shrink_rows(case)


# ----------------------------------------------------------------------------- labels
def row_labels(case):
    out = set()
    for r in case["rows"]:
        kinds = {v for v in r.values() if isinstance(v, str)}
        out |= {f"missing_{k}" for k in kinds}
        if not kinds:
            out.add("row_all_present")
        if any(v == 0 for v in r.values()):
            out.add("zero_input")
    return sorted(out)


# ----------------------------------------------------------------------------- float boundary stream
# binary64 boundary magnitudes; cases of this stream run on ordinary floats only.
import sys as _sys
FMAX = _sys.float_info.max
FBOUND = [FMAX, -FMAX, math.nextafter(FMAX, 0), -math.nextafter(FMAX, 0), FMAX / 2, -FMAX / 2, FMAX / 4, 1e308, -1e308,
          5e-324, -5e-324, 2.2250738585072014e-308, 1e-310, 0.0, -0.0, 1.0, -1.0, 2.0, 0.5, 3.0, -2.0, 1e154, 1.5]


def xenc(f):
    return ["x", float(f).hex()]


def gen_fvalue(rng, p_missing):
    if rng.random() < p_missing:
        return rng.choice(MISSING)
    return xenc(rng.choice(FBOUND))


def fl_fetch(v, nz):
    """float an input contributes: its value, or (missing) 0.0 / None"""
    v = dec(v)
    if isinstance(v, str):
        return 0.0 if nz else None
    return float(v)


def fl_bin(op, a, b, tr):
    """IEEE binary64 arithmetic as Python floats do it (None = missing/NaN); tr: exactness trace"""
    if a is None or b is None:
        return None
    if op in ("+", "-", "*", "/"):
        if op == "/" and b == 0:
            return None
        try:
            r = a + b if op == "+" else a - b if op == "-" else a * b if op == "*" else a / b
        except OverflowError:
            r = math.inf
        if math.isfinite(a) and math.isfinite(b):
            ex = F(a) + F(b) if op == "+" else F(a) - F(b) if op == "-" else F(a) * F(b) if op == "*" else F(a) / F(b)
            if not ((math.isfinite(r) and F(r) == ex) or (math.isinf(r) and abs(ex) >= 2 ** 1024)):
                tr.append("inexact")
    elif op == "max":
        r = b if b > a else a
    elif op == "min":
        r = b if b < a else a
    else:
        raise ValueError(op)
    return None if math.isnan(r) else r


def fl_hb(t, row, nzf, tr):
    k = t[0]
    if k == "s":
        return fl_fetch(row[str(t[1])], nzf(t[1]))
    a = fl_hb(t[1], row, nzf, tr)
    if k == "u":
        if a is None:
            return None
        return (0 if 0 > a else a) if t[2] == "consumption" else (0 if 0 > -a else -a)
    if k == "e":
        b = fl_fetch(row[str(t[3])], nzf(t[3]))
    elif k == "c":
        c = dec(t[3])
        b = None if c in ("nan", "none") else math.inf if c == "inf" else -math.inf if c == "-inf" else float(c)
    else:
        b = fl_hb(t[3], row, nzf, tr)
    return fl_bin(t[2], a, b, tr)


def fl_ast(e, row, nz, tr):
    if e[0] == "v":
        return fl_fetch(row[str(e[1])], nz)
    if e[0] == "p":
        return fl_ast(e[1], row, nz, tr)
    return fl_bin(e[1], fl_ast(e[2], row, nz, tr), fl_ast(e[3], row, nz, tr), tr)


def via_engine_f(v, src_nz):
    """what a from_receiver source engine forwards (float run): a non-finite / missing sample becomes None
    or, with nones_are_zeros, 0.0"""
    d = dec(v)
    if isinstance(d, str):
        return xenc(0.0) if src_nz else "none"
    return v


def judge_float_rows(case, outs, ref_fn, out, who=""):
    """None iff an input is missing (per nones_are_zeros) or the IEEE result is nan/inf; else that float"""
    for g in outs[len(case["rows"]):]:
        out.append({"what": f"sample-count: {who}samples at unexpected timestamps {g} (float run)", "finding": None})
    for k, row in enumerate(case["rows"]):
        want = ref_fn(row)
        if want is not None and not math.isfinite(want):
            want = None
        g = outs[k] if k < len(outs) else "dropped"
        if g == "dropped":
            out.append({"what": f"no-sample: {who}nothing emitted for timestamp {k} (float run); expected {want!r}", "finding": None})
        elif isinstance(g, list) and g and g[0] in ("dup", "extra"):
            out.append({"what": f"sample-count: {who}{g} at timestamp {k} (float run)", "finding": None})
        elif want is None:
            if g is not None:
                out.append({"what": f"none-expected: {who}timestamp {k}: an input is missing or the IEEE result is nan/inf but {g} was emitted (float run)", "finding": None})
        elif g is None:
            out.append({"what": f"value-expected: {who}timestamp {k}: all needed inputs are present and the IEEE result {want!r} is finite but None was emitted (float run)", "finding": None})
        else:
            x = float(g[1]) if g[0] == "float" else float(F(g[0], g[1]))
            if not (x == want or math.isclose(x, want, rel_tol=1e-12, abs_tol=0.0)):
                out.append({"what": f"value: {who}timestamp {k} should be {want!r} but {x!r} was emitted (float run)", "finding": None})
        if out:
            break


def gen_full_paren_ast(rng, depth, ids):
    """every operand that is not a metric is parenthesised: the shunting yard cannot re-associate,
    so the float result is the float evaluation of the tree"""
    if depth == 0 or rng.random() < 0.25:
        return ["v", rng.choice(ids)]
    wrap = lambda x: x if x[0] == "v" else ["p", x]
    return ["b", rng.choice(BOPS), wrap(gen_full_paren_ast(rng, depth - 1, ids)), wrap(gen_full_paren_ast(rng, depth - 1, ids))]


def gen_float_case(rng):
    ids = rng.sample([0, 1, 2, 3], rng.randint(1, 3))
    nz = rng.random() < 0.3
    if rng.random() < 0.4:
        ast_ = gen_full_paren_ast(rng, rng.randint(1, 3), ids)
        names = sorted(ast_vars(ast_))
        case = {"kind": "str", "ast": ast_, "ws": [1], "nz": nz}
    else:
        def tree(d):
            if d == 0:
                return ["s", rng.choice(ids)]
            base = tree(d - 1 if rng.random() < 0.7 else 0)
            r = rng.random()
            if r < 0.12:
                return ["u", base, rng.choice(["consumption", "production"])]
            op = rng.choice(HOPS)
            if r < 0.5:
                return ["e", base, op, rng.choice(ids)]
            if r < 0.75:
                return ["c", base, op, xenc(rng.choice(FBOUND))]
            return ["b", base, op, tree(rng.randint(0, d - 1))]
        t = tree(rng.randint(1, 3))
        names = sorted(hb_names(t))
        case = {"kind": "ho", "tree": t, "nz": nz, "src_nz": {str(n): rng.random() < 0.15 for n in names}}
    pm = rng.choice([0.0, 0.0, 0.15])
    case["rows"] = [{str(n): gen_fvalue(rng, pm) for n in names} for _ in range(rng.randint(2, 4))]
    case["float_only"] = True
    return case


def float_boundary_seeds():
    M, H = xenc(FMAX), xenc(FMAX / 2)
    rows = [{"0": M, "1": xenc(0.0)}, {"0": xenc(-FMAX), "1": xenc(1.0)}, {"0": H, "1": H}, {"0": M, "1": M},
            {"0": xenc(math.nextafter(FMAX, 0)), "1": xenc(1.0)}, {"0": xenc(5e-324), "1": xenc(2.0)}, {"0": xenc(-0.0), "1": xenc(3.0)}]
    out = []
    for op in HOPS:
        out.append({"kind": "ho", "tree": ["e", ["s", 0], op, 1], "nz": False, "src_nz": {"0": False, "1": False}, "rows": rows, "float_only": True})
    for op in BOPS:
        out.append({"kind": "str", "ast": ["b", op, ["v", 0], ["v", 1]], "ws": [1], "nz": False, "rows": rows, "float_only": True})
    out.append({"kind": "ho", "tree": ["c", ["s", 0], "*", xenc(2.0)], "nz": False, "src_nz": {"0": False}, "float_only": True,
                "rows": [{"0": H}, {"0": M}, {"0": xenc(-FMAX / 2)}]})
    out.append({"kind": "str", "ast": ["v", 0], "ws": [1], "nz": False, "float_only": True, "rows": [{"0": M}, {"0": xenc(-FMAX)}, {"0": xenc(1.0)}]})
    return out


FLOAT_HEADER_EXTRA = """
(* float-boundary stream: the same model with a rounding function that overflows beyond the largest
   binary64 value; used only on cases whose every arithmetic step is exact or overflows for certain *)
Definition fmax : Q := fq 9007199254740991 971.
Definition rnd_ovf (q : Q) : val :=
  if Qle_bool (Qabs q) fmax then Num q else if Qle_bool 0 q then PInf else NInf.
Definition rows_ok_f (p : list step * list (N * bool)) (src : list (N * bool)) (rows : list (list (N * inp) * outcome)) : bool :=
  forallb (fun r => outcome_eqb (run_round rnd_ovf p (fun n => via_engine (nz_flag src n) (env_of (fst r) n))) (snd r)) rows.
Definition check_float (c : (hb + list N) * bool * list (N * bool) * (list step * list (N * bool))
                            * list (list (N * inp) * outcome)) : bool :=
  let '(f, nz, src, ep, rows) := c in
  match f with
  | inl t => let p := compile_hb nz t in prog_eqb p ep && rows_ok_f p src rows
  | inr cs => match compile_string nz cs with
              | Some p => prog_eqb p ep && rows_ok_f p [] rows
              | None => false
              end
  end.
"""


def c_outcome_f(o):
    if o == "dropped":
        return "Dropped"
    if o is None:
        return "(Emit None)"
    if isinstance(o, list) and o and o[0] == "float":
        return f"(Emit (Some {cQ(F(float(o[1])))}))"
    if isinstance(o, list) and len(o) == 2 and isinstance(o[0], int):
        return f"(Emit (Some {cQ(F(o[0], o[1]))}))"
    return None


def term_float(case, obs, exact_rows):
    """model twin (rnd_ovf) on the rows whose float evaluation is exact"""
    rows = []
    for k, (row, o) in enumerate(zip(case["rows"], obs["out"])):
        if k not in exact_rows:
            continue
        co = c_outcome_f(o)
        if co is None:
            return None
        env = "[" + "; ".join(f"({c_N(n)}, {c_inp(v)})" for n, v in sorted(row.items(), key=lambda kv: int(kv[0]))) + "]"
        rows.append(f"({env}, {co})")
    if case["kind"] == "ho":
        f = f"(inl {c_hb(case['tree'])})"
        src = "[" + "; ".join(f"({c_N(k)}, {cbool(z)})" for k, z in sorted(case.get("src_nz", {}).items(), key=lambda kv: int(kv[0]))) + "]"
    else:
        formula = render(case["ast"], case["ws"])
        f = "(inr [" + "; ".join(c_N(ord(ch)) for ch in formula) + "])"
        src = "[]"
    return f"({f}, {cbool(case['nz'])}, {src}, {c_prog(obs)}, [{'; '.join(rows)}])"


class FormulaStream(Stream):
    coq_header = HEADER

    def run_impl(self, case):
        return run_both(case)

    def shrink(self, case):
        return shrink_case(case)


class FloatBoundaryStream(FormulaStream):
    """Formulas on ordinary floats at the binary64 boundaries (+-max, its neighbour, halves summing to
    max, overflowing pairs, denormals, -0.0, +-inf, NaN, None).  Oracle: independent Python-float
    evaluation of the tree (operator API trees and fully parenthesised strings cannot be re-associated):
    None iff an input is missing (per nones_are_zeros) or the IEEE result is nan/inf, else that float.
    Model twin: run_round with a rounding function that overflows beyond max, on the rows whose every
    arithmetic step is exact."""
    name = "float_boundary"
    check_fn = "check_float"
    coq_header = HEADER + FLOAT_HEADER_EXTRA
    n_quick = 250
    n_thorough = 5000

    def gen(self, rng, tier):
        yield from float_boundary_seeds()
        for _ in range(self.n_quick if tier == "quick" else self.n_thorough):
            yield gen_float_case(rng)

    def run_impl(self, case):
        obs = run_case(case, exact=False)
        obs["float_out"] = obs.get("out")
        return obs

    def _ref(self, case, tr):
        if case["kind"] == "str":
            return lambda row: fl_ast(case["ast"], row, case["nz"], tr)
        src = case.get("src_nz", {})
        return lambda row: fl_hb(case["tree"], {k: via_engine_f(v, src.get(k, False)) for k, v in row.items()}, lambda n: case["nz"], tr)

    def oracle(self, case, obs):
        out = []
        if "error" in obs:
            return [{"what": f"rejected: well-formed formula raised {obs['error']}", "finding": None}]
        judge_float_rows(case, obs["out"], self._ref(case, []), out)
        return out

    def to_coq(self, case, obs):
        if "error" in obs or len(obs["out"]) != len(case["rows"]):
            return None
        exact_rows = set()
        for k, row in enumerate(case["rows"]):
            tr = []
            self._ref(case, tr)(row)
            if not tr:
                exact_rows.add(k)
        return term_float(case, obs, exact_rows)

    def key(self, case, obs):
        return json.dumps([case.get("ast") or case.get("tree"), case["rows"]], sort_keys=True)

    def labels(self, case, obs):
        out = [case["kind"]]
        vals = [dec(v) for r in case["rows"] for v in r.values()]
        fl = [abs(v) for v in vals if isinstance(v, float)]
        if any(v == FMAX for v in fl):
            out.append("input_float_max")
        if any(0 < v < 2.3e-308 for v in fl):
            out.append("input_denormal")
        outs = obs.get("out") or []
        if any(isinstance(o, list) and o and o[0] == "float" and abs(float(o[1])) == FMAX for o in outs):
            out.append("result_exactly_float_max")
        if any(o is None for o in outs):
            out.append("emits_None")
        for k, row in enumerate(case["rows"]):
            tr = []
            self._ref(case, tr)(row)
            out.append("row_inexact(oracle_only)" if tr else "row_exact(model_twin)")
        return sorted(set(out))
