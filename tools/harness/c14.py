"""C14 — power requests for a component group are applied one at a time, latest wins."""
from __future__ import annotations

from harness import distributor as D

ID = "C14"
PROPS = "props/C14.v"

ASSUMPTIONS = [
    "asyncio: a task runs until its next await; done-callbacks of a finished task run in registration order, "
    "after the task finished and with nothing else in between (the harness's marker callback, registered from inside the "
    "distribution task, therefore runs right after PowerDistributingActor._handle_task_completion)",
    "frequenz.channels Broadcast delivers requests to the actor's receiver in send order and keeps every unread message "
    "up to the receiver's limit; PowerWrapper creates the request receiver with the default limit of 50, so the property's "
    "'no request is lost' is checked for fewer than 50 unread requests (bursts of up to 45 back-to-back requests); beyond that "
    "the channel documents that the oldest unread message is dropped with a warning",
    "the `wrapper` stream builds the actor through the real PowerWrapper._start_power_distributing_actor with a stub connection "
    "manager (a component graph that reports batteries); PowerWrapper.start()'s power MANAGING actor is not started",
    "restart of the receive loop (Actor restart after an unhandled exception in _run, or stop() followed by start()): the "
    "distribution tasks are plain asyncio tasks the service does not own, so they are not cancelled and their done-callbacks keep "
    "running; the channel receiver persists; requests sent while the loop is down are consumed after the restart, in order",
    "the EMPTY component set is a group like any other (group label 4 in the harness)",
    "a component group is the SET of component ids: every request carries its own set/frozenset object, built with ascending or "
    "descending insertion order over ids that collide in a small hash table (equal sets, different iteration order)",
    "a caller may keep one mutable set of component ids per group, pass it uncopied as Request.component_ids and update it in place "
    "while its requests are in flight or pending; the group of a request is the set of ids it carried when it was sent",
    "requests are told apart by object identity (the harness maps id(request) to a sequence number); their VALUES may be equal",
    "several PowerDistributingActor instances in one process (the `instances` stream) are independent machines: each is replayed "
    "through its own copy of the model and judged by the oracle on its own trace; a stopped instance's in-flight distribution keeps "
    "running (the service does not own it) and its completion callback still fires",
    "cancellation of a distribution task is outside the property's quantifier (task.result() would raise CancelledError "
    "out of the completion callback)",
]


class C14Stream(D.DistStream):
    def oracle(self, case, obs):
        """The property judged on the recorded implementation traces only (no model), per actor instance."""
        subs = D.instances(obs)
        issued_all = D.issued_by_instance(case, len(subs))
        out = []
        for k, sub in enumerate(subs):
            pre = f"instance {k}: " if len(subs) > 1 else ""
            for v in self._oracle_one(case, sub, issued_all[k]):
                out.append({"what": v["what"].split(": ", 1)[0] + ": " + pre + v["what"].split(": ", 1)[1], "finding": None})
        return out

    def _oracle_one(self, case, obs, issued):
        out = []
        V = lambda what: out.append({"what": what, "finding": None})
        log = obs["log"]
        # (1) one at a time: the distribution coroutines of one group never overlap
        running = {}
        for e in log:
            if e[0] == "E":
                if e[1] in running:
                    V(f"exclusive: distribution of request {e[2]} of group {e[1]} entered while request "
                      f"{running[e[1]]} of the same group was running")
                running[e[1]] = e[2]
            elif e[0] == "X":
                running.pop(e[1], None)
        # (2) arrivals / task creations / completion callbacks
        open_task, waiting, arrived, started = {}, {}, {}, {}
        for ev, starts in D.observed_steps(log):
            kind = ev[0]
            if kind == "A":
                g, r = ev[1], ev[2]
                arrived.setdefault(g, []).append(r)
                if g in open_task:
                    if not starts:
                        waiting[g] = r          # coalesced: only the most recent is kept
                elif starts != [[g, r]]:
                    V(f"independent: request {r} of idle group {g} was not started on arrival "
                      f"(groups with a task in flight: {sorted(open_task)}; started instead: {starts})")
            elif kind == "F":
                g = ev[1]
                res = "ok" if ev[2] else "exception"
                if g not in open_task:
                    V(f"exclusive: a completion callback ran for group {g} with no task in flight")
                open_task.pop(g, None)
                mine = [s for s in starts if s[0] == g]
                if g in waiting:
                    if not mine:
                        V(f"prompt: request {waiting[g]} of group {g} was waiting when the in-flight task finished "
                          f"({res}) but the completion callback did not start it")
                    elif mine != [[g, waiting[g]]]:
                        V(f"latest: after a completion ({res}) group {g} started {mine} although the most recent "
                          f"waiting request is {waiting[g]}")
                elif mine:
                    V(f"coalesce: completion of group {g} started {mine} although nothing was waiting")
            elif kind == "R":
                pass        # a restart of the receive loop must change nothing: the bookkeeping above simply continues
            else:
                V(f"coalesce: distribute_power called outside an arrival or a completion callback: {starts}")
            for sg, sr in starts:
                if sg in open_task:
                    V(f"exclusive: request {sr} of group {sg} started while request {open_task[sg]} of the same "
                      f"group was still in flight")
                if sr not in arrived.get(sg, []) or sr in started.get(sg, []):
                    V(f"coalesce: group {sg} started request {sr} which never arrived for it or was started before")
                started.setdefault(sg, []).append(sr)
                open_task[sg] = sr
                waiting.pop(sg, None)
        # (3) promptness in virtual time: a request started by a completion callback starts at the instant
        #     the finished distribution ended
        last_exit = {}
        for a, b in zip(log, log[1:]):
            if a[0] == "X":
                last_exit[a[1]] = a[-1]
            if a[0] == "S" and b[0] == "F" and a[1] == b[1] and last_exit.get(a[1]) != a[-1]:
                V(f"prompt: waiting request {a[2]} of group {a[1]} started at t={a[-1]}us, the in-flight "
                  f"distribution had ended at t={last_exit.get(a[1])}us")
        # (4) quiescent at the end of the drain: for every group the request applied last is the one ISSUED last
        #     (issued = sent on the request channel, whether or not it ever reached the receive loop)
        if not obs.get("live", True):
            # an instance that was stopped and replaced: what it had not consumed before the stop is outside the property
            issued = {g: list(v) for g, v in arrived.items()}
        for g, infl, pend, *_more in obs["final"]:
            if infl or pend is not None:
                V(f"eventually: group {g} not quiescent after every distribution was released "
                  f"(in flight={infl}, pending={pend})")
            elif issued.get(g) and (not started.get(g) or started[g][-1] != issued[g][-1]):
                lost = [r for r in issued[g] if r not in arrived.get(g, [])]
                V(f"latest: the last request issued for group {g} is {issued[g][-1]} but the last one applied is "
                  f"{started.get(g, [None])[-1]}" + (f" (requests {lost} of the group never reached the distributor)" if lost else ""))
        if not obs["alive"]:
            V("harness: the distributor actor is not running at the end of the schedule")
        for x in obs["final"]:
            if len(x) > 3:
                V(f"exclusive: group {x[0]} has {x[3]} tasks in flight and {x[4]} pending requests registered at once")
        return out


class C14MultiStream(C14Stream):
    """Several PowerDistributingActor instances in one process (sequential replacement, side by side); same replay and
    same oracle, per instance."""
    name = "instances"

    def gen(self, rng, tier):
        yield from D.multi_boundary_cases()
        for _ in range(400 if tier == "quick" else 6000):
            yield D.gen_multi_case(rng)


class C14WrapperStream(C14Stream):
    """Same replay and same oracle, but the actor, its request channel and its receiver are the ones the real
    PowerWrapper builds (microgrid/_power_wrapper.py)."""
    name = "wrapper"

    def gen(self, rng, tier):
        yield from D.wrapper_boundary_cases()
        for _ in range(400 if tier == "quick" else 6000):
            yield D.gen_wrapper_case(rng)

    def key(self, case, obs):
        k = super().key(case, obs)
        return None if k is None else "w" + k + f"{case.get('warm')}/{case.get('mgr_start_ms')}"


def streams():
    return [C14Stream(), C14WrapperStream(), C14MultiStream()]


META = {
    "technique": "Coq proof (invariants of the inflight/pending transition system by induction over ALL event words: "
                 "alternation monitor for exclusivity, latest-arrival invariant, frame/locality and projection for independence) "
                 "+ trace refinement: the real PowerDistributingActor driven on async_solipsism with a probe component manager; "
                 "recorded arrival/start/completion events replayed through the model's step inside Coq (vm_compute)",
    "level_text": "Machine-checked theorems (closed under the global context) about a Gallina transition system of "
                  "PowerDistributingActor._run/_handle_task_completion/_process_request: exclusivity per group, pending implies in-flight, "
                  "latest-wins, promptness independent of the finished task's result, eventual application, independence of groups "
                  "(projection theorem), for every finite word of arrivals and completions. The model is tied to the code by running "
                  "the real actor on thousands of random and exhaustively enumerated schedules and replaying every recorded step "
                  "through the model; the property is also judged directly on the recorded traces.",
    "level_note": "Tie is by correspondence only (no translated item: the code is three dictionary operations inside asyncio "
                  "callbacks). Assumed, not proved: asyncio task/done-callback ordering, Broadcast delivery order. Cancellation of a "
                  "distribution task is outside the quantifier. Liveness ('eventually applied') is proved relative to the completion "
                  "of the in-flight tasks (two Finish events), and checked on the implementation by draining every schedule.",
}
