"""C15: distribution result accounting (battery pools and PV pools).

Implementation side: the real `BatteryManager._distribute_power` (-> `_set_distributed_power`,
`_parse_result`) and the real `PVManager.distribute_power` (-> `_set_api_power`) on `__new__`-built
managers with injected attributes, a fake API client whose k-th `set_power` call follows a scripted
outcome (return / OperationOutOfRange / ApiClientError / RuntimeError / hang until the timeout
cancels it / reply after 1 s of virtual time), run on an `async_solipsism` virtual-time loop.
All powers are `lib.exact.X` rationals, so the results are exact and compared exactly with the
model (coq/model/Accounting.v, over Q).

Outcome codes: 0 ok, 1 out-of-range, 2 client error, 3 other exception, 4 timeout, 5 slow ok (1 s < 5 s timeout),
6 silent + slow cancel (never replies; when cancelled it takes 1 s to unwind before re-raising CancelledError),
7 late ok (would reply at timeout + 0.5 s), 8 late ok + slow cancel.  A call that has not replied when the timeout
fires is a TIMEOUT (failed) whatever happens afterwards, so 6, 7, 8 are `OTimeout` for the model and the oracle.
"""
from __future__ import annotations

import asyncio
import itertools
import json
import math
from datetime import timedelta
from fractions import Fraction
from types import SimpleNamespace

from lib.core import Stream, cZ, clist
from lib.exact import X

TIMEOUT_S = 5.0
OUT_NAMES = ["OOk", "ORange", "OClient", "OOther", "OTimeout", "OOk", "OTimeout", "OTimeout", "OTimeout"]
FAILED = [False, True, True, True, True, False, True, True, True]
OUT_LABELS = ["ok", "out_of_range", "client_error", "other_exception", "timeout", "slow_ok", "silent_slow_cancel", "late_ok", "late_ok_slow_cancel"]
LATE_S = 0.5      # a late reply arrives this long after the timeout
UNWIND_S = 1.0    # a slow cancellation takes this long


# ----------------------------------------------------------------------------- numbers
def fr(v) -> Fraction:
    """case number ([num, den] | int) -> Fraction"""
    if isinstance(v, (list, tuple)):
        return Fraction(int(v[0]), int(v[1]))
    return Fraction(v)


def jq(v) -> list:
    """X | Fraction | int | float(integer/dyadic) -> canonical [num, den]"""
    if isinstance(v, X):
        v = v.q
    f = Fraction(v)
    return [f.numerator, f.denominator]


def cq(v) -> str:
    f = fr(v)
    return f"(Qmake {cZ(f.numerator)} {f.denominator}%positive)"


def jf(v):
    """like jq, but a non-finite float becomes its repr string ("nan", "inf", "-inf")"""
    if isinstance(v, float) and not math.isfinite(v):
        return repr(v)
    return jq(v)


def watts(power):
    return jf(power.as_watts())


# float path (oracle only): PV lower bounds that no rational can express.  On the unchanged code a NaN or -inf
# lower bound acts as "no bound" (max() skips it, the inverter gets its equal share) and -0.0 acts as 0: all
# Result fields and set_power arguments stay finite.  (+inf is not generated: it is not a lower bound of anything.)
SPECIAL_BOUNDS = ["nan", "-inf", "-0.0"]


def pnum(v, num):
    """case number -> implementation number; strings are the special float bounds"""
    return float(v) if isinstance(v, str) else num(fr(v))


def judge_float(obs, req, out, comps_of_call, tol=1e-6) -> list[str]:
    """C15 on a float run: NaN/inf-ness first, then the clauses within a tolerance"""
    if obs["kind"] not in ("Success", "PartialFailure"):
        return []
    calls = obs["calls"]
    bad = [k for k in ("succ_power", "failed_power", "excess") if isinstance(obs.get(k), str)]
    badc = [[c, p] for c, p in calls if isinstance(p, str)]
    if bad or badc:
        return [f"nan: non-finite values in the Result / set_power arguments: " +
                ", ".join(f"{k}={obs[k]}" for k in bad) + (f" set_power{badc}" if badc else "")]
    v = []
    eps = tol * (1 + abs(float(req)))
    f = lambda x: float(fr(x))
    failed_calls = [c for k, c in enumerate(calls) if FAILED[out[k] if k < len(out) else 0]]
    succ_p, exc, fail_p = f(obs["succ_power"]), f(obs["excess"]), f(obs.get("failed_power", 0))
    if abs(succ_p + fail_p + exc - float(req)) > eps:
        v.append(f"sum: succeeded {succ_p} + failed {fail_p} + excess {exc} != requested {float(req)}")
    succ, failed = set(obs["succ"]), set(obs.get("failed", []))
    addressed = set().union(*[set(comps_of_call(c)) for c, _ in calls]) if calls else set()
    want_failed = set().union(*[set(comps_of_call(c)) for c, _ in failed_calls]) if failed_calls else set()
    if succ & failed or succ | failed != addressed or failed != want_failed:
        v.append(f"sets: succeeded {sorted(succ)} / failed {sorted(failed)}; addressed {sorted(addressed)}, behind failed calls {sorted(want_failed)}")
    if abs(fail_p - sum(f(p) for _, p in failed_calls)) > eps:
        v.append(f"failed: failed_power {fail_p} != sum of the set-points of the failed calls {sum(f(p) for _, p in failed_calls)}")
    if abs(sum(f(p) for _, p in calls) + exc - float(req)) > eps:
        v.append(f"alloc: set-points {sum(f(p) for _, p in calls)} + excess {exc} != requested {float(req)}")
    return v


# ----------------------------------------------------------------------------- fakes
def _imports():
    from frequenz.client.microgrid import ApiClientError, OperationOutOfRange
    from frequenz.quantities import Power
    from frequenz.sdk.microgrid import connection_manager
    from frequenz.sdk.microgrid._power_distributing._component_managers._battery_manager import BatteryManager
    from frequenz.sdk.microgrid._power_distributing._component_managers._pv_inverter_manager._pv_inverter_manager import PVManager
    from frequenz.sdk.microgrid._power_distributing._distribution_algorithm import DistributionResult
    from frequenz.sdk.microgrid._power_distributing.request import Request
    from frequenz.sdk.microgrid._power_distributing import result as R
    return SimpleNamespace(ApiClientError=ApiClientError, OperationOutOfRange=OperationOutOfRange, Power=Power,
                           cm=connection_manager, BatteryManager=BatteryManager, PVManager=PVManager,
                           DistributionResult=DistributionResult, Request=Request, R=R)


class _GrpcErr:
    """stand-in for grpc.aio.AioRpcError, only what the exception constructor reads"""
    def code(self):
        return SimpleNamespace(name="OUT_OF_RANGE", value=(11, "out of range"))

    def details(self):
        return "out of range"

    def debug_error_string(self):
        return ""


class FakeApi:
    def __init__(self, script, I):
        self.script, self.I, self.calls = list(script), I, []

    async def set_power(self, component_id, power):
        k = len(self.calls)
        self.calls.append((component_id, power))
        o = self.script[k] if k < len(self.script) else 0
        if o == 1:
            raise self.I.OperationOutOfRange(server_url="fake", operation="set_power", grpc_error=_GrpcErr())
        if o == 2:
            raise self.I.ApiClientError(server_url="fake", operation="set_power", description="scripted", retryable=False)
        if o == 3:
            raise RuntimeError("scripted unexpected exception")
        if o == 4:
            await asyncio.Event().wait()       # never replies: the manager's timeout cancels the task
        if o == 5:
            await asyncio.sleep(1.0)           # slow but in time
        if o in (6, 7, 8):
            try:
                if o == 6:
                    await asyncio.Event().wait()
                await asyncio.sleep(TIMEOUT_S + LATE_S)      # the reply would come after the timeout
            except asyncio.CancelledError:
                if o in (6, 8):
                    await asyncio.sleep(UNWIND_S)            # cancellation takes time to unwind
                raise


class FakeTracker:
    def __init__(self, working=None):
        self.working = working
        self.updates = []

    def get_working_components(self, ids):
        return list(self.working)

    async def update_status(self, succeeded, failed):
        self.updates.append([sorted(succeeded), sorted(failed)])


class FakeSender:
    def __init__(self):
        self.msgs = []

    async def send(self, msg):
        self.msgs.append(msg)


class FakeCache:
    def __init__(self, bound):
        self.bound = bound

    def has_value(self):
        return self.bound is not None

    def get(self):
        return SimpleNamespace(active_power_inclusion_lower_bound=self.bound)


def _run(coro):
    import async_solipsism
    loop = async_solipsism.EventLoop()
    try:
        asyncio.set_event_loop(loop)
        t0 = loop.time()
        try:
            res = ("ok", loop.run_until_complete(coro))
        except Exception as exc:  # noqa: BLE001 - the outcome is part of the observation
            res = ("raise", type(exc).__name__)
        return res, loop.time() - t0
    finally:
        asyncio.set_event_loop(None)
        loop.close()


def obs_of_result(res, I, request) -> dict:
    R = I.R
    if isinstance(res, R.PartialFailure):
        return {"kind": "PartialFailure", "succ_power": watts(res.succeeded_power), "succ": sorted(res.succeeded_components),
                "failed_power": watts(res.failed_power), "failed": sorted(res.failed_components),
                "excess": watts(res.excess_power), "echo": res.request is request}
    if isinstance(res, R.Success):
        return {"kind": "Success", "succ_power": watts(res.succeeded_power), "succ": sorted(res.succeeded_components),
                "excess": watts(res.excess_power), "echo": res.request is request}
    return {"kind": "other:" + type(res).__name__}


# ----------------------------------------------------------------------------- battery path
def run_bat(case) -> dict:
    I = _imports()
    api = FakeApi(case["out"], I)
    I.cm._CONNECTION_MANAGER = SimpleNamespace(api_client=api, component_graph=None)
    bm = I.BatteryManager.__new__(I.BatteryManager)
    bm._inv_bats_map = {inv: frozenset(bats) for inv, bats in case["map"]}
    bm._api_power_request_timeout = timedelta(seconds=TIMEOUT_S)
    bm._component_pool_status_tracker = FakeTracker()
    dist = {inv: X(fr(p)) for inv, p in case["dist"]}
    request = I.Request(power=I.Power.from_watts(X(fr(case["req"]))),
                        component_ids=set(itertools.chain.from_iterable(b for _, b in case["map"])))
    (st, res), elapsed = _run(bm._distribute_power(request, I.DistributionResult(dist, X(fr(case["rem"])))))
    calls = [[c, jq(p)] for c, p in api.calls]
    if st == "raise":
        return {"kind": "raise:" + res, "calls": calls}
    obs = obs_of_result(res, I, request)
    obs["calls"] = calls
    obs["updates"] = bm._component_pool_status_tracker.updates
    obs["waited_timeout"] = elapsed >= TIMEOUT_S
    return obs


# ----------------------------------------------------------------------------- PV path
def run_pv(case) -> dict:
    I = _imports()
    api = FakeApi(case["out"], I)
    I.cm._CONNECTION_MANAGER = SimpleNamespace(api_client=api, component_graph=None)
    pv = I.PVManager.__new__(I.PVManager)
    pv._results_sender = FakeSender()
    pv._api_power_request_timeout = timedelta(seconds=TIMEOUT_S)
    pv._pv_inverter_ids = {i for i, _ in case["working"]}
    pv._component_pool_status_tracker = FakeTracker([i for i, _ in case["working"]]) if case["tracker"] else None
    num = (lambda q: float(q)) if case.get("float") else X
    pv._component_data_caches = {i: FakeCache(None if b is None else pnum(b, num)) for i, b in case["working"]}
    pv._target_power = I.Power.zero()      # what __init__ does; not read any more after the F14 fix
    request = I.Request(power=I.Power.from_watts(num(fr(case["req"]))), component_ids=set(case["ids"]))
    (st, res), elapsed = _run(pv.distribute_power(request))
    calls = [[c, jf(p)] for c, p in api.calls]
    msgs = pv._results_sender.msgs
    if st == "raise":
        return {"kind": "raise:" + res, "calls": calls, "n_results": len(msgs)}
    if not msgs:
        return {"kind": "none", "calls": calls, "n_results": 0}
    obs = obs_of_result(msgs[0], I, request)
    obs["calls"] = calls
    obs["n_results"] = len(msgs)
    obs["waited_timeout"] = elapsed >= TIMEOUT_S
    return obs


# ----------------------------------------------------------------------------- the property, judged on observations
def qsum(xs):
    return sum((fr(x) for x in xs), Fraction(0))


def judge(obs, req, out, comps_of_call, bounds=None) -> list[str]:
    """C15 on one Result object vs the set_power calls the fake client recorded.

    req: requested power; out: scripted outcome of the k-th call; comps_of_call(id) -> the components
    a call to `id` addresses (battery ids behind an inverter; the inverter itself for PV)."""
    v = []
    if obs["kind"] not in ("Success", "PartialFailure"):
        return v
    calls = obs["calls"]
    failed_calls = [c for k, c in enumerate(calls) if FAILED[out[k] if k < len(out) else 0]]
    ok_calls = [c for k, c in enumerate(calls) if not FAILED[out[k] if k < len(out) else 0]]
    succ_p, exc = fr(obs["succ_power"]), fr(obs["excess"])
    fail_p = fr(obs.get("failed_power", 0))
    if succ_p + fail_p + exc != req:
        v.append(f"sum: succeeded {succ_p} + failed {fail_p} + excess {exc} = {succ_p + fail_p + exc} != requested {req}")
    succ, failed = set(obs["succ"]), set(obs.get("failed", []))
    addressed = set().union(*[set(comps_of_call(c)) for c, _ in calls]) if calls else set()
    if succ & failed:
        v.append(f"sets: components {sorted(succ & failed)} reported both succeeded and failed")
    if succ | failed != addressed:
        v.append(f"sets: succeeded|failed = {sorted(succ | failed)} but the addressed components are {sorted(addressed)}")
    want_failed = set().union(*[set(comps_of_call(c)) for c, _ in failed_calls]) if failed_calls else set()
    if failed != want_failed:
        v.append(f"sets: failed components {sorted(failed)} but the components behind the failed calls are {sorted(want_failed)}")
    if fail_p != qsum(p for _, p in failed_calls):
        v.append(f"failed: failed_power {fail_p} != sum of the set-points of the failed calls {qsum(p for _, p in failed_calls)}")
    if (obs["kind"] == "Success") != (not failed_calls):
        v.append(f"failed: result is {obs['kind']} although {len(failed_calls)} set_power calls failed")
    # Σ set-points + excess = requested is C01's conclusion (battery) / C15_pv_alloc (PV); given it, the
    # succeeded power must be what the successful calls carried
    if qsum(p for _, p in calls) + exc == req and succ_p != qsum(p for _, p in ok_calls):
        v.append(f"succeeded: succeeded_power {succ_p} != sum of the set-points of the successful calls {qsum(p for _, p in ok_calls)}")
    if not obs.get("echo", True):
        v.append("request: the result does not carry the request it answers")
    return v


# ----------------------------------------------------------------------------- Coq rendering
def c_calls(calls) -> str:
    return "[" + "; ".join(f"({cZ(i)}, {cq(p)})" for i, p in calls) + "]"


def c_outs(out) -> str:
    return "[" + "; ".join(OUT_NAMES[o] for o in out) + "]"


def c_result(obs) -> str:
    k = obs["kind"]
    if k == "Success":
        return f"(Success {cq(obs['succ_power'])} {clist(obs['succ'])} {cq(obs['excess'])})"
    if k == "PartialFailure":
        return (f"(PartialFailure {cq(obs['succ_power'])} {clist(obs['succ'])} {cq(obs['failed_power'])} "
                f"{clist(obs['failed'])} {cq(obs['excess'])})")
    if k == "none":
        return "NoResult"
    if k.startswith("raise:"):
        return "Raised"
    return None


BAT_HEADER = """From Verif Require Import model.Accounting.
Open Scope Z_scope.
(* case: input, expected Result, expected set_power calls, expected update_status arguments *)
Definition check (c : bat_in * result * list (Z * Q) * list (list Z * list Z)) : bool :=
  let '(x, r, calls, ups) := c in
  result_eqb (bat_result x) r && calls_eqb (bat_calls x) calls &&
  (if r_reported (bat_result x) then list_eqb (pair_eqb setZ_eqb setZ_eqb) [bat_status_update x] ups else is_nil ups).
"""

PV_HEADER = """From Verif Require Import model.Accounting.
Open Scope Z_scope.
(* case: input, expected Result (or NoResult / Raised), expected set_power calls *)
Definition check (c : pv_in * result * list (Z * Q)) : bool :=
  let '(x, r, calls) := c in
  result_eqb (pv_result x) r && calls_eqb (pv_calls x) calls.
"""


def c_bat_in(case) -> str:
    m = "[" + "; ".join(f"({cZ(i)}, {clist(b)})" for i, b in case["map"]) + "]"
    return f"(mkBat {cq(case['req'])} {c_calls(case['dist'])} {cq(case['rem'])} {m} {c_outs(case['out'])})"


def c_pv_in(case) -> str:
    w = "[" + "; ".join(f"({cZ(i)}, {'None' if b is None else '(Some ' + cq(b) + ')'})" for i, b in case["working"]) + "]"
    return (f"(mkPV {cq(case['req'])} {'true' if not case['ids'] else 'false'} {'true' if case['tracker'] else 'false'} "
            f"{w} {c_outs(case['out'])})")


# ----------------------------------------------------------------------------- generation
NUMS = [0, 1, 2, 5, 10, 30, 50, 75, 100, 150, 200, 300, 500, 1000, [1, 2], [5, 2], [100, 3], [1001, 7]]


def gen_q(rng, neg=0.5, zero=0.1):
    if rng.random() < zero:
        return [0, 1]
    f = fr(rng.choice(NUMS))
    if rng.random() < neg:
        f = -f
    return jq(f)


BAT_TOPOLOGIES = [
    # inverter -> batteries
    lambda n: [[10 + i, [100 + i]] for i in range(n)],                                   # 1 : 1
    lambda n: [[10 + i, [100 + i, 200 + i]] for i in range(n)],                          # one inverter, two batteries
    lambda n: [[10 + i, [100 + i // 2]] for i in range(n)],                              # two inverters share a battery
    lambda n: [[10 + i, [100 + i // 2, 200 + i // 2]] for i in range(n)],                # 2 x 2 groups
    lambda n: [[10 + i, [100] if i == 0 else [100 + i, 100 + i - 1]] for i in range(n)],  # overlapping chains
]


def gen_bat_base(rng, n, identity=True):
    m = rng.choice(BAT_TOPOLOGIES)(n)
    extra = [[90, [900]]] if rng.random() < 0.3 else []     # an inverter of the map that is not addressed
    order = list(range(n))
    rng.shuffle(order)
    dist = [[m[i][0], gen_q(rng)] for i in order]
    rem = gen_q(rng, zero=0.5)
    req = jq(qsum(p for _, p in dist) + fr(rem))
    if not identity:
        req = jq(fr(req) + fr(rng.choice([1, -1, 10, [1, 2]])))
    return {"req": req, "dist": dist, "rem": rem, "map": m + extra}


def gen_out(rng, n):
    r = rng.random()
    if r < 0.15:
        return [rng.choice([0, 5]) for _ in range(n)]
    if r < 0.25:
        return [rng.choice([1, 2, 3, 4]) for _ in range(n)]
    if r < 0.45 and n >= 2:
        # several calls still pending at the timeout, slow cancellations and late replies among them
        out = [rng.choice([0, 2, 4, 5, 6, 7, 8, 8]) for _ in range(n)]
        a, b = rng.sample(range(n), 2)
        out[a], out[b] = rng.choice([6, 8]), rng.choice([7, 8])
        return out
    return [rng.choice([0, 0, 1, 2, 3, 4, 5, 6, 7, 8]) for _ in range(n)]


def gen_pv_base(rng, n):
    ids = rng.sample(range(1, 30), n)
    working = []
    r = rng.random()
    for i in ids:
        k = rng.random()
        if k < 0.08:
            b = None
        elif k < 0.14:
            b = [0, 1]
        elif k < 0.19:
            b = jq(fr(rng.choice(NUMS)))                     # positive lower bound: outside the PV convention
        elif r < 0.3:
            b = jq(-fr(rng.choice([100, 100, 300])))         # many ties
        else:
            b = jq(-fr(rng.choice(NUMS)))
        working.append([i, b])
    k = rng.random()
    if k < 0.08:
        req = jq(fr(rng.choice(NUMS)))                       # positive request
    elif k < 0.14:
        req = rng.choice([[0, 1], [-1, 10**10], [-1, 10**8], [1, 10**10], [-3, 10**9]])   # around the is_close_to_zero tolerance
    elif k < 0.5:
        tot = qsum(b for _, b in working if b is not None)
        req = jq(tot * fr(rng.choice([[1, 2], 1, [3, 2], [1, 3], 2, [9, 10]])))   # around the total capacity
    else:
        req = jq(-fr(rng.choice(NUMS)) * rng.choice([1, 1, 2, 3]))
    extra = rng.sample(range(30, 40), rng.choice([0, 0, 1]))
    return {"req": req, "ids": sorted(i for i, _ in working) + extra, "tracker": True, "working": working}


def pv_special_cases():
    out = []
    # no PV inverter in the graph
    out.append({"req": [-100, 1], "ids": [], "tracker": False, "working": [], "out": []})
    out.append({"req": [-100, 1], "ids": [7], "tracker": False, "working": [], "out": []})
    # inverters exist but none is usable (none working / none with data)
    out.append({"req": [-100, 1], "ids": [7], "tracker": True, "working": [], "out": []})
    out.append({"req": [-100, 1], "ids": [7, 8], "tracker": True, "working": [[7, None], [8, None]], "out": []})
    out.append({"req": [0, 1], "ids": [], "tracker": True, "working": [], "out": []})
    # F14 witnesses
    out.append({"req": [-1000, 1], "ids": [1, 2], "tracker": True, "working": [[1, [-300, 1]], [2, [-600, 1]]], "out": [0, 0]})
    out.append({"req": [-1000, 1], "ids": [1, 2], "tracker": True, "working": [[1, [-300, 1]], [2, [-600, 1]]], "out": [0, 4]})
    # ties in the sort, both iteration orders
    out.append({"req": [-150, 1], "ids": [1, 2, 3], "tracker": True, "working": [[3, [-100, 1]], [1, [-100, 1]], [2, [-20, 1]]], "out": [0, 2, 0]})
    out.append({"req": [-150, 1], "ids": [1, 2, 3], "tracker": True, "working": [[1, [-100, 1]], [3, [-100, 1]], [2, [-20, 1]]], "out": [0, 2, 0]})
    # calls pending at the timeout: late replies / slow cancellations must not turn them into successes
    for o in ([8, 8], [6, 7], [7, 6], [0, 8, 8], [7], [8, 8, 8]):
        out.append({"req": [-900, 1], "ids": [1, 2, 3], "tracker": True,
                    "working": [[1, [-400, 1]], [2, [-300, 1]], [3, [-500, 1]]][:len(o)], "out": o})
    return out


def bat_special_cases():
    m = [[10, [100]], [11, [101]]]
    return [
        {"req": [0, 1], "dist": [], "rem": [0, 1], "map": m, "out": []},
        {"req": [50, 1], "dist": [], "rem": [50, 1], "map": m, "out": []},
        {"req": [100, 1], "dist": [[10, [60, 1]], [11, [40, 1]]], "rem": [0, 1], "map": m, "out": [0, 0]},
        {"req": [100, 1], "dist": [[10, [60, 1]], [11, [40, 1]]], "rem": [0, 1], "map": m, "out": [4, 0]},
        # a failing call with set-point 0: still a PartialFailure, failed power 0
        {"req": [40, 1], "dist": [[10, [0, 1]], [11, [40, 1]]], "rem": [0, 1], "map": m, "out": [2, 0]},
        # two inverters behind one battery, one fails
        {"req": [-90, 1], "dist": [[10, [-60, 1]], [11, [-40, 1]]], "rem": [10, 1], "map": [[10, [100]], [11, [100]]], "out": [0, 3]},
    ] + [
        # calls pending at the timeout: late replies / slow cancellations must not turn them into successes
        {"req": [900, 1], "dist": [[10, [400, 1]], [11, [300, 1]], [12, [200, 1]]][:len(o)], "rem": [900 - [400, 700, 900][len(o) - 1], 1],
         "map": [[10, [100]], [11, [101]], [12, [102]]], "out": o}
        for o in ([8, 8], [6, 7], [7, 6], [0, 8, 8], [7], [8, 8, 8])
    ]


def all_outcomes(n):
    return [list(t) for t in itertools.product(range(5), repeat=n)]


def shrink_common(case, calls_key):
    """drop a call / simplify outcomes / simplify numbers"""
    n = len(case[calls_key])
    for i in range(n):
        c = dict(case)
        c[calls_key] = case[calls_key][:i] + case[calls_key][i + 1:]
        c["out"] = case["out"][:i] + case["out"][i + 1:]
        yield c
    for i, o in enumerate(case["out"]):
        if o not in (0, 2):
            for new in (0, 2):
                yield {**case, "out": case["out"][:i] + [new] + case["out"][i + 1:]}


class BatStream(Stream):
    name = "battery"
    coq_header = BAT_HEADER

    def gen(self, rng, tier):
        yield from bat_special_cases()
        nmax, bases, nrand = (3, 2, 1200) if tier == "quick" else (4, 6, 12000)
        for n in range(1, nmax + 1):
            for _ in range(bases):
                base = gen_bat_base(rng, n)
                for out in all_outcomes(n):
                    yield {**base, "out": out}
        for _ in range(nrand):
            n = rng.choice([1, 2, 2, 3, 3, 4, 5, 6])
            yield {**gen_bat_base(rng, n, identity=rng.random() < 0.85), "out": gen_out(rng, n)}

    def run_impl(self, case):
        return run_bat(case)

    def to_coq(self, case, obs):
        r = c_result(obs)
        if r is None:
            return f"({c_bat_in(case)}, NoResult, [], [])"     # the model never answers NoResult here: reported as disagreement
        ups = "[" + "; ".join(f"({clist(s)}, {clist(f)})" for s, f in obs.get("updates", [])) + "]"
        return f"({c_bat_in(case)}, {r}, {c_calls(obs['calls'])}, {ups})"

    def show_term(self, case, obs):
        return f"(bat_result {c_bat_in(case)}, bat_calls {c_bat_in(case)})"

    def oracle(self, case, obs):
        m = {i: b for i, b in case["map"]}
        out = [{"what": w, "finding": None} for w in judge(obs, fr(case["req"]), case["out"], lambda i: m[i])]
        if obs["kind"] not in ("Success", "PartialFailure"):
            # an empty distribution is outside the domain (never handed to _distribute_power by distribute_power)
            if case["dist"]:
                out.append({"what": f"result: _distribute_power produced {obs['kind']} instead of Success/PartialFailure", "finding": None})
        elif [c for c, _ in obs["calls"]] != [c for c, _ in case["dist"]] or any(fr(p) != fr(q) for (_, p), (_, q) in zip(obs["calls"], case["dist"])):
            out.append({"what": "calls: the set_power calls differ from the distribution handed to _distribute_power", "finding": None})
        return out

    def key(self, case, obs):
        if not case["dist"]:
            return None
        return json.dumps([case["req"], case["dist"], case["rem"], case["map"], [min(o, 4) if o != 5 else 0 for o in case["out"]]])

    def labels(self, case, obs):
        n = len(case["dist"])
        lb = [f"calls={n}", f"kind={obs['kind']}"]
        if n == 0:
            return lb + ["empty_distribution"]
        nf = sum(FAILED[o] for o in case["out"])
        lb.append("all_ok" if nf == 0 else "all_failed" if nf == n else "mixed")
        for o in sorted(set(case["out"])):
            lb.append("outcome=" + OUT_LABELS[o])
        if 5 in case["out"] and any(o in (1, 2, 3) for o in case["out"]):
            lb.append("an_error_replies_before_a_success")
        if any(o in (6, 8) for o in case["out"]) and any(o in (7, 8) for o in case["out"]) and sum(o in (4, 6, 7, 8) for o in case["out"]) >= 2:
            lb.append("late_ok_reply_while_another_cancellation_unwinds")
        if qsum(p for _, p in case["dist"]) + fr(case["rem"]) == fr(case["req"]):
            lb.append("c01_identity_holds")
        else:
            lb.append("c01_identity_violated_input")
        bats = [b for i, bs in case["map"] for b in bs if i in {c for c, _ in case["dist"]}]
        if len(bats) != len(set(bats)):
            lb.append("shared_battery")
        if fr(case["rem"]) != 0:
            lb.append("nonzero_excess")
        return lb

    def shrink(self, case):
        yield from shrink_common(case, "dist")
        if fr(case["rem"]) != 0:
            yield {**case, "rem": [0, 1], "req": jq(fr(case["req"]) - fr(case["rem"]))}


class PVStream(Stream):
    name = "pv"
    coq_header = PV_HEADER

    def gen(self, rng, tier):
        yield from pv_special_cases()
        nmax, bases, nrand = (3, 2, 1200) if tier == "quick" else (4, 6, 12000)
        for n in range(1, nmax + 1):
            for _ in range(bases):
                base = gen_pv_base(rng, n)
                base["working"] = [[i, b if b is not None else [-100, 1]] for i, b in base["working"]]
                for out in all_outcomes(n):
                    yield {**base, "out": out}
        for _ in range(nrand):
            n = rng.choice([1, 2, 2, 3, 3, 4, 5, 6, 8])
            yield {**gen_pv_base(rng, n), "out": gen_out(rng, n)}
        # float path: one inverter streams a NaN / -inf / -0.0 / 0.0 lower bound (oracle only)
        for _ in range(160 if tier == "quick" else 2000):
            n = rng.choice([1, 2, 2, 3, 4])
            ids = rng.sample(range(1, 30), n)
            working = [[i, [-rng.choice([100, 150, 300, 500, 1000]), 1]] for i in ids]
            working[rng.randrange(n)][1] = rng.choice(SPECIAL_BOUNDS + ["nan", "nan", [0, 1]])
            yield {"float": True, "req": [-rng.choice([100, 250, 600, 1000, 2500, 7]), 1] if rng.random() < 0.9 else [rng.choice([0, 50]), 1],
                   "ids": sorted(ids), "tracker": True, "working": working, "out": gen_out(rng, n)}

    def run_impl(self, case):
        return run_pv(case)

    def to_coq(self, case, obs):
        if case.get("float"):
            return None          # NaN / inf are outside Q: judged by the oracle only
        r = c_result(obs)
        if r is None:
            return f"({c_pv_in(case)}, NoResult, [(0, {cq(0)})])"      # unknown kind of answer: reported as disagreement
        return f"({c_pv_in(case)}, {r}, {c_calls(obs['calls'])})"

    def show_term(self, case, obs):
        return f"(pv_result {c_pv_in(case)}, pv_calls {c_pv_in(case)})"

    def oracle(self, case, obs):
        req = fr(case["req"])
        if case.get("float"):
            out = [{"what": w, "finding": None} for w in judge_float(obs, req, case["out"], lambda i: [i])]
            if obs["kind"].startswith("raise") or (obs["kind"] == "none" and case["working"]):
                out.append({"what": f"result: {obs['kind']} for a request to PV inverters with bounds {case['working']}", "finding": None})
            usable = sorted(i for i, b in case["working"] if b is not None)
            if obs["kind"] in ("Success", "PartialFailure") and sorted(i for i, _ in obs["calls"]) != usable:
                out.append({"what": f"alloc: calls went to {sorted(i for i, _ in obs['calls'])} but the usable inverters are {usable}", "finding": None})
            return out
        out = [{"what": w, "finding": None} for w in judge(obs, req, case["out"], lambda i: [i])]
        if obs.get("n_results", 0) > 1:
            out.append({"what": f"result: {obs['n_results']} results sent for one request", "finding": None})
        if obs["kind"] == "none" and case["tracker"] and any(b is not None for _, b in case["working"]):
            out.append({"what": "result: no Result was sent although usable PV inverters were addressed", "finding": None})
        if obs["kind"] in ("Success", "PartialFailure"):
            calls = obs["calls"]
            bounds = {i: b for i, b in case["working"]}
            exc = fr(obs["excess"])
            if qsum(p for _, p in calls) + exc != req:
                out.append({"what": f"alloc: set-points {qsum(p for _, p in calls)} + excess {exc} != requested {req}", "finding": None})
            for i, p in calls:
                b = bounds.get(i)
                if b is None:
                    out.append({"what": f"alloc: inverter {i} without data was addressed", "finding": None})
                elif fr(b) <= 0 and not (fr(b) <= fr(p) <= 0):
                    out.append({"what": f"alloc: set-point {fr(p)} of inverter {i} outside [{fr(b)}, 0]", "finding": None})
            usable = sorted(i for i, b in case["working"] if b is not None)
            if case["tracker"] and sorted(i for i, _ in calls) != usable:
                out.append({"what": f"alloc: calls went to {sorted(i for i, _ in calls)} but the usable inverters are {usable}", "finding": None})
        return out

    def key(self, case, obs):
        if not obs.get("calls"):
            return None
        return json.dumps([case["req"], case["working"], [0 if o == 5 else o for o in case["out"]]])

    def labels(self, case, obs):
        n = len(obs.get("calls", []))
        lb = [f"calls={n}", f"kind={obs['kind']}"]
        if case.get("float"):
            return lb + ["float_path"] + [f"special_lower_bound={b if isinstance(b, str) else '0.0'}" for _, b in case["working"]
                                          if isinstance(b, str) or fr(b) == 0]
        if not case["tracker"]:
            lb.append("no_pv_inverters_in_graph")
        elif n == 0:
            lb.append("no_usable_inverter:no_result_sent" if obs["kind"] == "none" else "no_usable_inverter:" + obs["kind"])
        if n:
            outs = case["out"][:n]
            nf = sum(FAILED[o] for o in outs)
            lb.append("all_ok" if nf == 0 else "all_failed" if nf == n else "mixed")
            for o in sorted(set(outs)):
                lb.append("outcome=" + OUT_LABELS[o])
            if 5 in outs and any(o in (1, 2, 3) for o in outs):
                lb.append("an_error_replies_before_a_success")
            if any(o in (6, 8) for o in outs) and any(o in (7, 8) for o in outs) and sum(o in (4, 6, 7, 8) for o in outs) >= 2:
                lb.append("late_ok_reply_while_another_cancellation_unwinds")
            if "excess" in obs:
                lb.append("nonzero_excess" if fr(obs["excess"]) != 0 else "zero_excess")
            bs = [tuple(b) for _, b in case["working"] if b is not None]
            if len(bs) != len(set(bs)):
                lb.append("tied_bounds")
            if any(fr(b) > 0 for b in bs):
                lb.append("positive_lower_bound")
            if any(b is None for _, b in case["working"]):
                lb.append("inverter_without_data")
            if fr(case["req"]) >= 0:
                lb.append("non_negative_request")
        return lb

    def shrink(self, case):
        n = len(case["working"])
        for i in range(n):
            yield {**case, "working": case["working"][:i] + case["working"][i + 1:], "out": case["out"][:-1] if len(case["out"]) >= n else case["out"]}
        for i, o in enumerate(case["out"]):
            if o not in (0, 2):
                for new in (0, 2):
                    yield {**case, "out": case["out"][:i] + [new] + case["out"][i + 1:]}


class BatAlgStream(BatStream):
    """Battery path with set-points / remaining power produced by the REAL distribution algorithm
    (component data and requests drawn by the C01 harness generator), then pushed through the real
    `_distribute_power` with scripted API outcomes.  The resolved distribution is stored in the case,
    so a replay does not depend on the generator."""
    name = "alg_battery"

    def gen(self, rng, tier):
        try:
            from harness import dist as D
            _, Alg, _ = D._alg()
        except Exception:  # noqa: BLE001 - the C01 harness is another area's file; without it this stream is empty
            return
        n = 500 if tier == "quick" else 6000
        for _ in range(n):
            dc = D.gen_case(rng)
            try:
                res = Alg(dc["exp"]).distribute_power(X(fr(dc["power"])), D.build(dc, X))
            except Exception:  # noqa: BLE001 - inputs the algorithm rejects never reach _distribute_power
                continue
            if not res.distribution:
                continue
            m = [[i["id"], sorted(b["id"] for b in g["bats"])] for g in dc["groups"] for i in g["invs"]]
            dist = [[int(i), jq(v)] for i, v in res.distribution.items()]
            yield {"req": jq(fr(dc["power"])), "dist": dist, "rem": jq(res.remaining_power), "map": m,
                   "out": gen_out(rng, len(dist)), "origin": "BatteryDistributionAlgorithm"}


# ============================================================================= concurrent requests on ONE manager
# PowerDistributingActor runs requests for different component sets concurrently on the same manager
# instance.  Each Result must be a function of ITS OWN request and the outcomes of ITS OWN calls: no state
# may leak between requests in flight.  2-3 requests for disjoint component subsets are started
# `start` quarter-seconds apart by asyncio.gather on one `__new__`-built manager; every set_power call
# follows the script of its component id: (outcome 0..4, latency in quarter seconds of virtual time).
class FakeApiById:
    def __init__(self, script, I):
        self.script, self.I, self.calls = script, I, []

    async def set_power(self, component_id, power):
        self.calls.append((component_id, power))
        o, lat, unwind = self.script.get(component_id, (0, 0, 0))
        try:
            if o == 4:
                await asyncio.Event().wait()
            if lat:
                await asyncio.sleep(lat / 4.0)
        except asyncio.CancelledError:
            if unwind:
                await asyncio.sleep(unwind / 4.0)     # cancellation takes time to unwind
            raise
        if o == 1:
            raise self.I.OperationOutOfRange(server_url="fake", operation="set_power", grpc_error=_GrpcErr())
        if o == 2:
            raise self.I.ApiClientError(server_url="fake", operation="set_power", description="scripted", retryable=False)
        if o == 3:
            raise RuntimeError("scripted unexpected exception")


class ConcTracker(FakeTracker):
    def get_working_components(self, ids):
        return [i for i in self.working if i in ids]


def _gather(jobs, starts):
    """run the coroutine factories concurrently on one virtual-time loop; job j starts after starts[j]/4 s"""
    import async_solipsism
    loop = async_solipsism.EventLoop()

    async def one(job, start):
        await asyncio.sleep(start / 4.0)
        t0 = loop.time()
        try:
            r = ("ok", await job())
        except Exception as exc:  # noqa: BLE001
            r = ("raise", type(exc).__name__)
        return r, t0, loop.time()

    async def main():
        return await asyncio.gather(*[one(j, s) for j, s in zip(jobs, starts)])
    try:
        asyncio.set_event_loop(loop)
        return loop.run_until_complete(main())
    finally:
        asyncio.set_event_loop(None)
        loop.close()


def _overlap(spans):
    return any(a[0] <= b[1] and b[0] <= a[1] for a, b in itertools.combinations(spans, 2))


def run_conc_pv(case) -> dict:
    I = _imports()
    reqs = case["reqs"]
    script = {e[0]: (e[1], e[2], e[3] if len(e) > 3 else 0) for r in reqs for e in r["script"]}
    api = FakeApiById(script, I)
    I.cm._CONNECTION_MANAGER = SimpleNamespace(api_client=api, component_graph=None)
    pv = I.PVManager.__new__(I.PVManager)
    pv._results_sender = FakeSender()
    pv._api_power_request_timeout = timedelta(seconds=TIMEOUT_S)
    pv._pv_inverter_ids = {i for r in reqs for i, _ in r["working"]}
    pv._component_pool_status_tracker = ConcTracker([i for r in reqs for i, _ in r["working"]])
    pv._component_data_caches = {i: FakeCache(None if b is None else X(fr(b))) for r in reqs for i, b in r["working"]}
    pv._target_power = I.Power.zero()
    requests = [I.Request(power=I.Power.from_watts(X(fr(r["req"]))), component_ids=set(r["ids"])) for r in reqs]
    done = _gather([(lambda q=q: pv.distribute_power(q)) for q in requests], [r["start"] for r in reqs])
    msgs = pv._results_sender.msgs
    out = []
    for r, q, ((st, res), t0, t1) in zip(reqs, requests, done):
        calls = [[c, jq(p)] for c, p in api.calls if c in r["ids"]]
        mine = [m for m in msgs if getattr(m, "request", None) is q]
        if st == "raise":
            o = {"kind": "raise:" + res}
        elif not mine:
            o = {"kind": "none"}
        else:
            o = obs_of_result(mine[0], I, q)
        o.update({"calls": calls, "n_results": len(mine), "span": [jq(Fraction(t0).limit_denominator(1000)), jq(Fraction(t1).limit_denominator(1000))]})
        out.append(o)
    known = {i for r in reqs for i in r["ids"]}
    return {"reqs": out, "stray_results": sum(1 for m in msgs if not any(getattr(m, "request", None) is q for q in requests)),
            "stray_calls": sorted(c for c, _ in api.calls if c not in known),
            "overlap": _overlap([(fr(o["span"][0]), fr(o["span"][1])) for o in out])}


def run_conc_bat(case) -> dict:
    I = _imports()
    reqs = case["reqs"]
    script = {e[0]: (e[1], e[2], e[3] if len(e) > 3 else 0) for r in reqs for e in r["script"]}
    api = FakeApiById(script, I)
    I.cm._CONNECTION_MANAGER = SimpleNamespace(api_client=api, component_graph=None)
    bm = I.BatteryManager.__new__(I.BatteryManager)
    bm._inv_bats_map = {inv: frozenset(bats) for r in reqs for inv, bats in r["map"]}
    bm._api_power_request_timeout = timedelta(seconds=TIMEOUT_S)
    bm._component_pool_status_tracker = FakeTracker()
    requests, dists = [], []
    for r in reqs:
        requests.append(I.Request(power=I.Power.from_watts(X(fr(r["req"]))),
                                  component_ids=set(itertools.chain.from_iterable(b for _, b in r["map"]))))
        dists.append(I.DistributionResult({inv: X(fr(p)) for inv, p in r["dist"]}, X(fr(r["rem"]))))
    done = _gather([(lambda q=q, d=d: bm._distribute_power(q, d)) for q, d in zip(requests, dists)], [r["start"] for r in reqs])
    updates = list(bm._component_pool_status_tracker.updates)
    out = []
    for r, q, ((st, res), t0, t1) in zip(reqs, requests, done):
        invs = {inv for inv, _ in r["dist"]}
        bats = set(itertools.chain.from_iterable(b for i, b in r["map"] if i in invs))
        calls = [[c, jq(p)] for c, p in api.calls if c in invs]
        if st == "raise":
            o = {"kind": "raise:" + res}
        else:
            o = obs_of_result(res, I, q)
            o["updates"] = [u for u in updates if bats and set(u[0]) | set(u[1]) == bats]
        o.update({"calls": calls, "span": [jq(Fraction(t0).limit_denominator(1000)), jq(Fraction(t1).limit_denominator(1000))]})
        out.append(o)
    known = {inv for r in reqs for inv, _ in r["dist"]}
    return {"reqs": out, "n_updates": len(updates), "stray_calls": sorted(c for c, _ in api.calls if c not in known),
            "overlap": _overlap([(fr(o["span"][0]), fr(o["span"][1])) for o in out])}


LAT_PROFILES = ["error_before_success", "success_before_error", "random", "instant", "late_and_slow_cancel"]


TIMEOUT_Q = int(TIMEOUT_S * 4)


def eff_outcome(e, tq=TIMEOUT_Q):
    """model/oracle outcome of a script entry: no reply before the timeout = timeout, whatever comes later"""
    return 4 if (e[1] == 4 or e[2] > tq) else e[1]


def fit_script(rng, script, tq):
    """adapt a script drawn for the 20-quarter timeout to a timeout of tq quarter seconds: no reply exactly at the
    timeout, some replies in the last quarter second before it (a truncated timeout would miss them)"""
    out = []
    for e in script:
        lat = e[2]
        if lat == tq:
            lat = tq - 1
        if e[1] != 4 and 0 < lat < tq and rng.random() < 0.3:
            lat = tq - 1
        out.append([e[0], e[1], lat, e[3]])
    return out


def gen_script(rng, ids, profile):
    """[[id, outcome 0..4, latency in quarter seconds, cancel-unwind time in quarter seconds]]; the timeout is 20
    quarters: latencies are <= 12 (in time) or 21..23 (late: the reply would come after the timeout)"""
    r = rng.random()
    outs = ([0] * len(ids) if r < 0.15 else [rng.choice([1, 2, 3, 4]) for _ in ids] if r < 0.25
            else [rng.choice([0, 0, 0, 1, 2, 3, 4]) for _ in ids])
    if profile in ("error_before_success", "success_before_error") and len(ids) > 1 and rng.random() < 0.7:
        a, b = rng.sample(range(len(ids)), 2)       # make sure both kinds of reply occur in this request
        outs[a], outs[b] = 0, rng.choice([1, 2, 3])
    sc = []
    for i, o in zip(ids, outs):
        if profile == "instant":
            lat = 0
        elif profile == "random":
            lat = rng.choice([0, 0, 1, 2, 4, 8, 12])
        elif profile == "error_before_success":
            lat = rng.choice([4, 6, 8, 12]) if o == 0 else rng.choice([0, 1])
        else:
            lat = rng.choice([0, 1]) if o == 0 else rng.choice([4, 6, 8, 12])
        sc.append([i, o, lat, 0])
    if profile == "late_and_slow_cancel":
        for e in sc:
            k = rng.random()
            if k < 0.45:
                e[1], e[2], e[3] = rng.choice([0, 0, 2]), rng.choice([21, 22, 23]), rng.choice([0, 4, 8])   # late reply
            elif k < 0.7:
                e[1], e[2], e[3] = 4, 0, rng.choice([2, 4, 8])                                               # silent, slow cancel
    return sc


def _sub_out(sub, calls):
    """outcome of every recorded call of this request, in call order"""
    sc = {e[0]: eff_outcome(e) for e in sub["script"]}
    return [sc.get(c, 0) for c, _ in calls]


def _profile_labels(case, obs):
    lb = [f"requests={len(case['reqs'])}", "in_flight_together" if obs["overlap"] else "not_overlapping"]
    for r in case["reqs"]:
        lb.append("latency=" + r.get("profile", "?"))
        oks = [e[2] for e in r["script"] if eff_outcome(e) == 0]
        errs = [e[2] for e in r["script"] if eff_outcome(e) in (1, 2, 3)]
        pend = [e for e in r["script"] if eff_outcome(e) == 4]
        if len(pend) >= 2 and any(e[3] for e in pend) and any(e[2] > TIMEOUT_Q and e[1] == 0 for e in pend):
            lb.append("late_ok_reply_while_another_cancellation_unwinds")
        if oks and errs and min(errs) < max(oks):
            lb.append("an_error_replies_before_a_success")
        if oks and errs and min(oks) < max(errs):
            lb.append("a_success_replies_before_an_error")
    powers = {tuple(r["req"]) for r in case["reqs"]}
    lb.append("different_powers" if len(powers) > 1 else "same_power")
    for o in obs["reqs"]:
        lb.append("kind=" + o["kind"])
    return sorted(set(lb))


def _shrink_conc(case):
    rs = case["reqs"]
    if len(rs) > 2:
        for i in range(len(rs)):
            yield {**case, "reqs": rs[:i] + rs[i + 1:]}
    for i, r in enumerate(rs):
        if any(e[1] or e[2] for e in r["script"]):
            yield {**case, "reqs": rs[:i] + [{**r, "script": [[e[0], 0, 0, 0] for e in r["script"]]}] + rs[i + 1:]}
        for k, e in enumerate(r["script"]):
            if e[1] or e[2] or (len(e) > 3 and e[3]):
                yield {**case, "reqs": rs[:i] + [{**r, "script": r["script"][:k] + [[e[0], 0, 0, 0]] + r["script"][k + 1:]}] + rs[i + 1:]}
        if r["start"]:
            yield {**case, "reqs": rs[:i] + [{**r, "start": 0}] + rs[i + 1:]}


class ConcPVStream(Stream):
    name = "conc_pv"
    coq_header = (PV_HEADER.replace("Definition check ", "Definition check1 ") +
                  "Definition check (cs : list (pv_in * result * list (Z * Q))) : bool := forallb check1 cs.\n")
    _single = PVStream()

    def gen(self, rng, tier):
        # two requests, different powers, the second arrives while the first waits for its replies
        yield {"reqs": [
            {"req": [-600, 1], "ids": [8, 28], "working": [[8, [-500, 1]], [28, [-500, 1]]], "script": [[8, 0, 4], [28, 0, 4]], "start": 0, "profile": "random"},
            {"req": [-3000, 1], "ids": [9], "working": [[9, [-5000, 1]]], "script": [[9, 0, 0]], "start": 1, "profile": "random"}]}
        for _ in range(350 if tier == "quick" else 5000):
            reqs = []
            for j in range(rng.choice([2, 2, 3])):
                base = gen_pv_base(rng, rng.choice([1, 2, 2, 3]))
                off = 100 * (j + 1)
                working = [[i + off, b] for i, b in base["working"]]
                prof = rng.choice(LAT_PROFILES)
                reqs.append({"req": base["req"], "ids": sorted(i + off for i in base["ids"]), "working": working,
                             "script": gen_script(rng, [i for i, _ in working], prof), "start": rng.choice([0, 0, 1, 2]),
                             "profile": prof})
            yield {"reqs": reqs}

    def run_impl(self, case):
        return run_conc_pv(case)

    def _subs(self, case, obs):
        for r, o in zip(case["reqs"], obs["reqs"]):
            yield {"req": r["req"], "ids": r["ids"], "tracker": True, "working": r["working"], "out": _sub_out(r, o["calls"])}, o

    def to_coq(self, case, obs):
        terms = [self._single.to_coq(sub, o) for sub, o in self._subs(case, obs)]
        return "[" + "; ".join(terms) + "]"

    def show_term(self, case, obs):
        return "[" + "; ".join(self._single.show_term(sub, o) for sub, o in self._subs(case, obs)) + "]"

    def oracle(self, case, obs):
        out = []
        for j, (sub, o) in enumerate(self._subs(case, obs)):
            for v in self._single.oracle(sub, o):
                out.append({"what": v["what"].split(":")[0] + f": request {j} ({fr(sub['req'])} W to {sub['ids']}), judged against its own request: " + v["what"].split(":", 1)[1].strip(), "finding": None})
            if o["kind"].startswith("raise"):
                out.append({"what": f"result: request {j} raised {o['kind']}", "finding": None})
        if obs["stray_results"]:
            out.append({"what": f"result: {obs['stray_results']} results that answer none of the requests in flight", "finding": None})
        if obs["stray_calls"]:
            out.append({"what": f"calls: set_power calls to components of no request: {obs['stray_calls']}", "finding": None})
        return out

    def key(self, case, obs):
        if not any(o["calls"] for o in obs["reqs"]):
            return None
        return json.dumps([[r["req"], r["working"], r["script"], r["start"]] for r in case["reqs"]])

    def labels(self, case, obs):
        return _profile_labels(case, obs)

    def shrink(self, case):
        return _shrink_conc(case)


class ConcBatStream(Stream):
    name = "conc_battery"
    coq_header = (BAT_HEADER.replace("Definition check ", "Definition check1 ") +
                  "Definition check (cs : list (bat_in * result * list (Z * Q) * list (list Z * list Z))) : bool := forallb check1 cs.\n")
    _single = BatStream()

    def gen(self, rng, tier):
        for _ in range(350 if tier == "quick" else 5000):
            reqs = []
            for j in range(rng.choice([2, 2, 3])):
                n = rng.choice([1, 2, 2, 3])
                base = gen_bat_base(rng, n, identity=rng.random() < 0.9)
                off = 1000 * (j + 1)
                prof = rng.choice(LAT_PROFILES)
                dist = [[i + off, p] for i, p in base["dist"]]
                reqs.append({"req": base["req"], "rem": base["rem"], "dist": dist,
                             "map": [[i + off, [b + off for b in bs]] for i, bs in base["map"]],
                             "script": gen_script(rng, [i for i, _ in dist], prof), "start": rng.choice([0, 0, 1, 2]), "profile": prof})
            yield {"reqs": reqs}

    def run_impl(self, case):
        return run_conc_bat(case)

    def _subs(self, case, obs):
        for r, o in zip(case["reqs"], obs["reqs"]):
            sc = {e[0]: eff_outcome(e) for e in r["script"]}
            yield {"req": r["req"], "rem": r["rem"], "dist": r["dist"], "map": r["map"], "out": [sc.get(i, 0) for i, _ in r["dist"]]}, o

    def to_coq(self, case, obs):
        return "[" + "; ".join(self._single.to_coq(sub, o) for sub, o in self._subs(case, obs)) + "]"

    def show_term(self, case, obs):
        return "[" + "; ".join(self._single.show_term(sub, o) for sub, o in self._subs(case, obs)) + "]"

    def oracle(self, case, obs):
        out = []
        for j, (sub, o) in enumerate(self._subs(case, obs)):
            for v in self._single.oracle(sub, o):
                out.append({"what": v["what"].split(":")[0] + f": request {j} ({fr(sub['req'])} W), judged against its own request: " + v["what"].split(":", 1)[1].strip(), "finding": None})
        if obs["stray_calls"]:
            out.append({"what": f"calls: set_power calls to inverters of no request: {obs['stray_calls']}", "finding": None})
        return out

    def key(self, case, obs):
        return json.dumps([[r["req"], r["dist"], r["rem"], r["map"], r["script"], r["start"]] for r in case["reqs"]])

    def labels(self, case, obs):
        return _profile_labels(case, obs)

    def shrink(self, case):
        return _shrink_conc(case)


# ============================================================================= production wiring, health changes in flight
# The REAL BatteryManager built by its constructor on a fake microgrid (component graph + data streams):
# real ComponentPoolStatusTracker, real BatteryStatusTrackers, real distribution algorithm, real results
# channel.  A history of requests goes through `distribute_power`; while the set_power calls of a request are
# in flight a battery (or its inverters) may start reporting an unusable state.  The observation is the Result
# object that was SENT, read from the results channel after the request settled, and read AGAIN at the end of
# the history (a Result must not change after it was sent).  All numbers are exact rationals end to end.
WIRINGS = [
    {9: (8,), 19: (18, 28), 29: (38,), 39: (38,)},       # 1:1, one battery two inverters, two batteries one inverter
    {9: (8,), 19: (18,)},
    {9: (8,), 19: (18,), 29: (28,)},
    {19: (18, 28), 9: (8,)},
    {29: (38,), 39: (38,), 9: (8,)},
]
HEALTH_CHANGES = ["bat_error", "relay_open", "cap_nan", "inv_error"]


def _wired_imports():
    import frequenz.client.microgrid as cm
    from frequenz.channels import Broadcast
    from frequenz.sdk.microgrid.component_graph import _MicrogridComponentGraph
    return cm, Broadcast, _MicrogridComponentGraph


class WiredApi(FakeApiById):
    def __init__(self, I, bats, invs, Broadcast):
        super().__init__({}, I)
        self.bat_ch = {b: Broadcast(name=f"bat{b}", resend_latest=True) for b in bats}
        self.inv_ch = {i: Broadcast(name=f"inv{i}", resend_latest=True) for i in invs}
        self.event = None          # (call index, coroutine factory): something that happens while calls are in flight
        self._bg = []

    async def battery_data(self, component_id, maxsize=50):
        return self.bat_ch[component_id].new_receiver(limit=maxsize)

    async def inverter_data(self, component_id, maxsize=50):
        return self.inv_ch[component_id].new_receiver(limit=maxsize)

    async def set_power(self, component_id, power):
        if self.event is not None and self.event[0] <= len(self.calls):
            ev, self.event = self.event[1], None
            self._bg.append(asyncio.ensure_future(self._later(ev)))     # happens just after this call was sent
        return await super().set_power(component_id, power)

    @staticmethod
    async def _later(ev):
        await asyncio.sleep(0.01)
        await ev()


def _wired_msgs(case, cm):
    import math
    from datetime import datetime, timezone
    num = (lambda q: float(q)) if case.get("float") else X
    soc = {b: num(fr(s)) for b, s, _ in case["bats"]}
    cap = {b: num(fr(c)) for b, _, c in case["bats"]}
    bound = {i: pnum(v, num) for i, v in case["inv_bounds"]}
    X0 = num(Fraction(0))
    nan3 = (math.nan,) * 3

    def bat(b, change=None):
        return cm.BatteryData(
            component_id=b, timestamp=datetime.now(tz=timezone.utc), soc=soc[b], soc_lower_bound=X(10), soc_upper_bound=X(90),
            capacity=math.nan if change == "cap_nan" else cap[b],
            power_inclusion_lower_bound=X(-2000), power_exclusion_lower_bound=X(0),
            power_inclusion_upper_bound=X(2000), power_exclusion_upper_bound=X(0), temperature=25.0,
            relay_state=cm.BatteryRelayState.OPENED if change == "relay_open" else cm.BatteryRelayState.CLOSED,
            component_state=cm.BatteryComponentState.ERROR if change == "bat_error" else cm.BatteryComponentState.IDLE, errors=[])

    def inv(i, change=None):
        return cm.InverterData(
            component_id=i, timestamp=datetime.now(tz=timezone.utc), active_power=0.0, active_power_per_phase=nan3,
            reactive_power=0.0, reactive_power_per_phase=nan3, current_per_phase=nan3, voltage_per_phase=nan3,
            active_power_inclusion_lower_bound=-bound[i], active_power_exclusion_lower_bound=X0,
            active_power_inclusion_upper_bound=bound[i], active_power_exclusion_upper_bound=X0, frequency=50.0,
            component_state=cm.InverterComponentState.ERROR if change == "inv_error" else cm.InverterComponentState.IDLE, errors=[])
    return bat, inv


def run_wired(case) -> dict:
    I = _imports()
    cm, Broadcast, Graph = _wired_imports()
    wiring = {b: tuple(invs) for b, invs in case["wiring"]}
    inv_bats: dict[int, set] = {}
    for b, invs in wiring.items():
        for i in invs:
            inv_bats.setdefault(i, set()).add(b)
    bat_msg, inv_msg = _wired_msgs(case, cm)

    async def main():
        api = WiredApi(I, set(wiring), set(inv_bats), Broadcast)
        comps = {cm.Component(1, cm.ComponentCategory.GRID), cm.Component(2, cm.ComponentCategory.METER)}
        conns = {cm.Connection(1, 2)}
        for i in inv_bats:
            comps.add(cm.Component(i, cm.ComponentCategory.INVERTER, cm.InverterType.BATTERY))
            conns.add(cm.Connection(2, i))
        for b, invs in wiring.items():
            comps.add(cm.Component(b, cm.ComponentCategory.BATTERY))
            for i in invs:
                conns.add(cm.Connection(i, b))
        I.cm._CONNECTION_MANAGER = SimpleNamespace(api_client=api, component_graph=Graph(comps, conns))
        results = Broadcast(name="results")
        results_rx = results.new_receiver(limit=50)
        status = Broadcast(name="status", resend_latest=True)
        status_rx = status.new_receiver(limit=1000)
        tq = case.get("timeout_q", TIMEOUT_Q)
        manager = I.BatteryManager(status.new_sender(), results.new_sender(), timedelta(seconds=tq / 4.0))
        await manager.start()
        health: dict[int, str | None] = {b: None for b in wiring}

        async def send_all():
            for b in wiring:
                await api.bat_ch[b].new_sender().send(bat_msg(b, health[b]))
            for i, bs in inv_bats.items():
                bad = any(health[b] == "inv_error" for b in bs)
                await api.inv_ch[i].new_sender().send(inv_msg(i, "inv_error" if bad else None))

        await send_all()
        working: set = set()
        try:
            while working != set(wiring):
                working = set((await asyncio.wait_for(status_rx.receive(), 5.0)).working)
        except asyncio.TimeoutError:
            pass
        retained, out = [], []
        for h in case["history"]:
            for b in h.get("recover", []):
                health[b] = None
            await send_all()                       # fresh data (the data-age timers run on virtual time)
            await asyncio.sleep(0.05)
            api.script = {e[0]: (e[1], e[2], e[3] if len(e) > 3 else 0) for e in h["script"]}
            api.calls = []
            ev = h.get("health")
            if ev:
                victim, change, at = ev

                async def change_health(victim=victim, change=change):
                    health[victim] = change
                    if change == "inv_error":
                        for i in wiring[victim]:
                            await api.inv_ch[i].new_sender().send(inv_msg(i, change))
                    else:
                        await api.bat_ch[victim].new_sender().send(bat_msg(victim, change))
                api.event = (at, change_health)
            request = I.Request(power=I.Power.from_watts(X(fr(h["req"]))), component_ids=frozenset(h["ids"]),
                                adjust_power=h.get("adjust", True))
            try:
                await manager.distribute_power(request)
                st = "ok"
            except Exception as exc:  # noqa: BLE001
                st = "raise:" + type(exc).__name__
            api.event = None
            await asyncio.sleep(0.5)               # let the trackers digest the outcome
            got = []
            while True:
                try:
                    got.append(await asyncio.wait_for(results_rx.receive(), 0.01))
                except asyncio.TimeoutError:
                    break
            mine = [r for r in got if getattr(r, "request", None) is request]
            first = obs_of_result(mine[0], I, request) if mine else {"kind": "none" if st == "ok" else st}
            retained.append((mine[0] if mine else None, request))
            sc = {e[0]: eff_outcome(e, tq) for e in h["script"]}
            out.append({"first": first, "calls": [[c, jq(p)] for c, p in api.calls], "outs": [sc.get(c, 0) for c, _ in api.calls],
                        "n_results": len(mine), "stray_results": len(got) - len(mine)})
        await asyncio.sleep(1.0)
        for o, (res, request) in zip(out, retained):       # the retained objects, read again at the end of the history
            final = obs_of_result(res, I, request) if res is not None else dict(o["first"])
            o.update(final)
            o["changed_after_sending"] = final != o["first"]
            if not o["changed_after_sending"]:
                del o["first"]
        await manager.stop()
        return out

    (st, res), _ = _run(main())
    if st == "raise":
        return {"reqs": [], "error": res}
    return {"reqs": res}


WIRED_HEADER = """From Verif Require Import model.Accounting.
Open Scope Z_scope.
(* per request of the history: set-points = the recorded set_power calls, remaining power = the reported excess
   (an output of the distribution algorithm, C01's subject), outcomes of those calls; expected = the Result SENT *)
Definition check1 (c : bat_in * result * list (Z * Q)) : bool :=
  let '(x, r, calls) := c in result_eqb (bat_result x) r && calls_eqb (bat_calls x) calls.
Definition check (cs : list (bat_in * result * list (Z * Q))) : bool := forallb check1 cs.
"""


class WiredBatStream(Stream):
    name = "wired_battery"
    coq_header = WIRED_HEADER

    def gen(self, rng, tier):
        # the seeded interleaving: everything healthy, one battery reports an error while its call is in flight
        base = {"wiring": [[b, list(i)] for b, i in WIRINGS[0].items()], "bats": [[9, 40, 10000], [19, 55, 10000], [29, 30, 10000], [39, 35, 10000]],
                "inv_bounds": [[8, 1000], [18, 700], [28, 400], [38, 1500]]}
        for change in HEALTH_CHANGES:
            for o in (0, 2):
                yield {**base, "history": [{"req": [900, 1], "ids": [9, 19, 29, 39], "script": [[18, o, 1, 0]], "health": [19, change, 0]}]}
        for _ in range(140 if tier == "quick" else 2500):
            w = rng.choice(WIRINGS)
            invs = sorted({i for v in w.values() for i in v})
            tq = rng.choice([20, 20, 10, 10, 3])
            case = {"timeout_q": tq, "wiring": [[b, list(i)] for b, i in w.items()],
                    "bats": [[b, rng.choice([15, 30, 40, 55, 70, 85]), rng.choice([5000, 10000, 20000])] for b in w],
                    "inv_bounds": [[i, rng.choice([400, 700, 1000, 1500])] for i in invs], "history": []}
            groups = []
            for b, v in w.items():
                g = next((g for g in groups if set(g[1]) & set(v)), None)
                if g:
                    g[0].append(b)
                    g[1] = sorted(set(g[1]) | set(v))
                else:
                    groups.append([[b], list(v)])
            for _ in range(rng.choice([1, 1, 2, 3])):
                gs = groups if rng.random() < 0.7 else rng.sample(groups, rng.randint(1, len(groups)))
                ids = sorted(b for g in gs for b in g[0])
                ginvs = [i for g in gs for i in g[1]]
                prof = rng.choice(LAT_PROFILES)
                script = [[e[0], e[1], max(e[2], 1) if e[1] != 4 else e[2], e[3]] for e in gen_script(rng, ginvs, prof)]
                if rng.random() < 0.4:
                    script = [[e[0], 0, e[2] if e[2] <= 12 else 1, 0] for e in script]
                script = fit_script(rng, script, tq)
                h = {"req": jq(fr(rng.choice([100, 300, 750, 900, 1500, 3000, 5000, [1001, 7]])) * rng.choice([1, -1])), "ids": ids,
                     "script": script, "profile": prof}
                if rng.random() < 0.75:
                    h["health"] = [rng.choice(ids), rng.choice(HEALTH_CHANGES), rng.choice([0, 0, 0, 1, 2])]
                if case["history"] and rng.random() < 0.5:
                    h["recover"] = [x["health"][0] for x in case["history"] if "health" in x]
                case["history"].append(h)
            yield case

    def run_impl(self, case):
        return run_wired(case)

    @staticmethod
    def _map(case):
        m: dict[int, list] = {}
        for b, invs in case["wiring"]:
            for i in invs:
                m.setdefault(i, []).append(b)
        return m

    def _subs(self, case, obs):
        m = self._map(case)
        for h, o in zip(case["history"], obs["reqs"]):
            if o["kind"] in ("Success", "PartialFailure"):
                yield ({"req": h["req"], "dist": o["calls"], "rem": o["excess"], "map": sorted([i, sorted(b)] for i, b in m.items()),
                        "out": o["outs"]}, o)

    def to_coq(self, case, obs):
        terms = [f"({c_bat_in(sub)}, {c_result(o)}, {c_calls(o['calls'])})" for sub, o in self._subs(case, obs)]
        return "[" + "; ".join(terms) + "]"

    def show_term(self, case, obs):
        return "[" + "; ".join(f"bat_result {c_bat_in(sub)}" for sub, _ in self._subs(case, obs)) + "]"

    def oracle(self, case, obs):
        out = []
        if obs.get("error"):
            return [{"what": f"result: driving the manager raised {obs['error']}", "finding": None}]
        m = self._map(case)
        for j, (h, o) in enumerate(zip(case["history"], obs["reqs"])):
            pre = f"request {j} ({fr(h['req'])} W to batteries {h['ids']}"
            if h.get("health"):
                pre += f"; battery {h['health'][0]} reports {h['health'][1]} while the calls are in flight"
            pre += "), the Result that was sent: "
            if o.get("changed_after_sending"):
                out.append({"what": "retained: " + pre + f"changed after it was sent, from {o['first']} to its present fields", "finding": None})
            if o["n_results"] > 1 or o["stray_results"]:
                out.append({"what": "result: " + pre + f"{o['n_results']} results for it, {o['stray_results']} for no request", "finding": None})
            if o["kind"] not in ("Success", "PartialFailure"):
                if o["calls"]:
                    out.append({"what": "result: " + pre + f"{o['kind']} although set_power calls were made: {o['calls']}", "finding": None})
                continue
            for w in judge(o, fr(h["req"]), o["outs"], lambda i: m[i]):
                out.append({"what": w.split(":")[0] + ": " + pre + w.split(":", 1)[1].strip(), "finding": None})
            if o.get("first"):
                for w in judge({**o["first"], "calls": o["calls"]}, fr(h["req"]), o["outs"], lambda i: m[i]):
                    out.append({"what": w.split(":")[0] + ": " + pre + "(as first read from the channel) " + w.split(":", 1)[1].strip(), "finding": None})
        return out

    def key(self, case, obs):
        if not any(o["calls"] for o in obs["reqs"]):
            return None
        return json.dumps([case["wiring"], case["bats"], case["inv_bounds"], [[h["req"], h["ids"], h["script"], h.get("health"), h.get("recover")] for h in case["history"]]])

    def labels(self, case, obs):
        lb = [f"requests={len(case['history'])}", f"timeout_quarter_seconds={case.get('timeout_q', TIMEOUT_Q)}"]
        for h, o in zip(case["history"], obs["reqs"]):
            lb.append("kind=" + o["kind"])
            tq = case.get("timeout_q", TIMEOUT_Q)
            if tq % 4 and any(e[1] == 0 and (tq // 4) * 4 < e[2] < tq for e in h["script"]):
                lb.append("ok_reply_in_the_last_fraction_of_a_second_before_the_timeout")
            if h.get("health"):
                lb.append("health_change_in_flight=" + h["health"][1])
                m = self._map(case)
                victim_calls = [k for k, (c, _) in enumerate(o["calls"]) if h["health"][0] in m[c]]
                if victim_calls:
                    lb.append("victim_call_failed" if any(FAILED[o["outs"][k]] for k in victim_calls) else "victim_call_ok")
                else:
                    lb.append("victim_not_addressed")
            else:
                lb.append("no_health_change")
            if h.get("recover"):
                lb.append("recovered_before_request")
            if len(o["calls"]) < len({i for b, invs in case["wiring"] if b in h["ids"] for i in invs}):
                lb.append("some_requested_batteries_unusable")
            if any(x == 4 for x in o["outs"]):
                lb.append("timeout_among_calls")
        return sorted(set(lb))

    def shrink(self, case):
        hs = case["history"]
        if len(hs) > 1:
            for i in range(len(hs)):
                yield {**case, "history": hs[:i] + hs[i + 1:]}
        for i, h in enumerate(hs):
            if any(e[1] or e[2] > 1 or e[3] for e in h["script"]):
                yield {**case, "history": hs[:i] + [{**h, "script": [[e[0], 0, 1, 0] for e in h["script"]]}] + hs[i + 1:]}
            for k, e in enumerate(h["script"]):
                if e[1] or e[2] > 1 or e[3]:
                    yield {**case, "history": hs[:i] + [{**h, "script": h["script"][:k] + [[e[0], 0, 1, 0]] + h["script"][k + 1:]}] + hs[i + 1:]}
            if h.get("recover"):
                yield {**case, "history": hs[:i] + [{k: v for k, v in h.items() if k != "recover"}] + hs[i + 1:]}


# ----------------------------------------------------------------------------- PV manager built by its constructor
def run_wired_pv(case) -> dict:
    """the REAL PVManager (constructor, real ComponentPoolStatusTracker + PVInverterStatusTrackers fed by data
    streams, real results channel) on a fake microgrid; a history of requests; timeout from the case"""
    I = _imports()
    cm, Broadcast, Graph = _wired_imports()
    invs = [i for i, _ in case["invs"]]
    neg = {"nan": "nan", "-inf": "inf", "-0.0": "0.0"}      # _wired_msgs takes the magnitude: lower bound = -magnitude
    _, inv_msg = _wired_msgs({"float": case.get("float"), "bats": [],
                              "inv_bounds": [[i, neg[b] if isinstance(b, str) else jq(-fr(b))] for i, b in case["invs"]]}, cm)
    num = (lambda q: float(q)) if case.get("float") else X
    tq = case.get("timeout_q", TIMEOUT_Q)

    async def main():
        api = WiredApi(I, set(), set(invs), Broadcast)
        comps = {cm.Component(1, cm.ComponentCategory.GRID), cm.Component(2, cm.ComponentCategory.METER)}
        conns = {cm.Connection(1, 2)}
        for i in invs:
            comps.add(cm.Component(i, cm.ComponentCategory.INVERTER, cm.InverterType.SOLAR))
            conns.add(cm.Connection(2, i))
        I.cm._CONNECTION_MANAGER = SimpleNamespace(api_client=api, component_graph=Graph(comps, conns))
        results = Broadcast(name="results")
        results_rx = results.new_receiver(limit=50)
        status = Broadcast(name="status", resend_latest=True)
        status_rx = status.new_receiver(limit=1000)
        manager = I.PVManager(status.new_sender(), results.new_sender(), timedelta(seconds=tq / 4.0))
        await manager.start()
        bad: set = set()

        async def send_all():
            for i in invs:
                await api.inv_ch[i].new_sender().send(inv_msg(i, "inv_error" if i in bad else None))
        await send_all()
        working: set = set()
        try:
            while working != set(invs):
                working = set((await asyncio.wait_for(status_rx.receive(), 5.0)).working)
        except asyncio.TimeoutError:
            pass
        out, retained = [], []
        for h in case["history"]:
            for i in h.get("recover", []):
                bad.discard(i)
            await send_all()
            await asyncio.sleep(0.05)
            usable = sorted(set(manager._component_pool_status_tracker.get_working_components(set(h["ids"]))))
            api.script = {e[0]: (e[1], e[2], e[3] if len(e) > 3 else 0) for e in h["script"]}
            api.calls = []
            if h.get("health"):
                victim, _, at = h["health"]

                async def change_health(victim=victim):
                    bad.add(victim)
                    await api.inv_ch[victim].new_sender().send(inv_msg(victim, "inv_error"))
                api.event = (at, change_health)
            request = I.Request(power=I.Power.from_watts(num(fr(h["req"]))), component_ids=frozenset(h["ids"]))
            try:
                await manager.distribute_power(request)
                st = "ok"
            except Exception as exc:  # noqa: BLE001
                st = "raise:" + type(exc).__name__
            api.event = None
            await asyncio.sleep(0.5)
            got = []
            while True:
                try:
                    got.append(await asyncio.wait_for(results_rx.receive(), 0.01))
                except asyncio.TimeoutError:
                    break
            mine = [r for r in got if getattr(r, "request", None) is request]
            first = obs_of_result(mine[0], I, request) if mine else {"kind": "none" if st == "ok" else st}
            retained.append((mine[0] if mine else None, request))
            sc = {e[0]: eff_outcome(e, tq) for e in h["script"]}
            out.append({"first": first, "calls": [[c, jf(p)] for c, p in api.calls], "outs": [sc.get(c, 0) for c, _ in api.calls],
                        "usable": usable, "n_results": len(mine), "stray_results": len(got) - len(mine)})
        await asyncio.sleep(1.0)
        for o, (res, request) in zip(out, retained):
            final = obs_of_result(res, I, request) if res is not None else dict(o["first"])
            o.update(final)
            o["changed_after_sending"] = final != o["first"]
            if not o["changed_after_sending"]:
                del o["first"]
        await manager.stop()
        return out

    (st, res), _ = _run(main())
    if st == "raise":
        return {"reqs": [], "error": res}
    return {"reqs": res}


class WiredPVStream(Stream):
    name = "wired_pv"
    coq_header = (PV_HEADER.replace("Definition check ", "Definition check1 ") +
                  "Definition check (cs : list (pv_in * result * list (Z * Q))) : bool := forallb check1 cs.\n")
    _single = PVStream()

    def gen(self, rng, tier):
        for _ in range(110 if tier == "quick" else 2000):
            n = rng.choice([1, 2, 3, 4])
            ids = rng.sample(range(40, 60), n)
            bounds = rng.sample([-100, -150, -300, -500, -750, -1000, -2000], n)      # distinct: no ties in the sort
            tq = rng.choice([20, 10, 10, 3])
            case = {"timeout_q": tq, "invs": [[i, b] for i, b in zip(ids, bounds)], "history": []}
            for _ in range(rng.choice([1, 1, 2, 3])):
                sel = sorted(ids if rng.random() < 0.7 else rng.sample(ids, rng.randint(1, n)))
                prof = rng.choice(LAT_PROFILES)
                script = fit_script(rng, [[e[0], e[1], max(e[2], 1) if e[1] != 4 else e[2], e[3]] for e in gen_script(rng, sel, prof)], tq)
                tot = sum(b for i, b in zip(ids, bounds) if i in sel)
                h = {"req": jq(Fraction(tot) * fr(rng.choice([[1, 2], 1, [3, 2], [1, 3], [9, 10]]))) if rng.random() < 0.6
                     else jq(-fr(rng.choice(NUMS))), "ids": sel, "script": script, "profile": prof}
                if rng.random() < 0.5:
                    h["health"] = [rng.choice(sel), "inv_error", rng.choice([0, 0, 1])]
                if case["history"] and rng.random() < 0.5:
                    h["recover"] = [x["health"][0] for x in case["history"] if "health" in x]
                case["history"].append(h)
            yield case
        # float path: a working, data-streaming inverter whose inclusion lower bound is NaN / -inf / -0.0 (oracle only)
        for _ in range(40 if tier == "quick" else 600):
            n = rng.choice([1, 2, 3])
            ids = rng.sample(range(40, 60), n)
            invs = [[i, b] for i, b in zip(ids, rng.sample([-100, -150, -300, -500, -1000], n))]
            invs[rng.randrange(n)][1] = rng.choice(SPECIAL_BOUNDS + ["nan"])
            yield {"float": True, "timeout_q": 20, "invs": invs,
                   "history": [{"req": [-rng.choice([100, 250, 600, 1000, 2500]), 1], "ids": sorted(ids),
                                "script": [[e[0], e[1], max(e[2], 1) if e[1] != 4 else e[2], e[3]] for e in gen_script(rng, sorted(ids), "random")],
                                "profile": "random"} for _ in range(rng.choice([1, 2]))]}

    def run_impl(self, case):
        return run_wired_pv(case)

    def _subs(self, case, obs):
        b = {i: v for i, v in case["invs"]}
        for h, o in zip(case["history"], obs["reqs"]):
            yield {"req": h["req"], "ids": h["ids"], "tracker": True, "float": case.get("float", False),
                   "working": [[i, b[i] if isinstance(b[i], str) else jq(b[i])] for i in o["usable"]], "out": o["outs"]}, o

    def to_coq(self, case, obs):
        if case.get("float"):
            return None
        return "[" + "; ".join(self._single.to_coq(sub, o) for sub, o in self._subs(case, obs)) + "]"

    def show_term(self, case, obs):
        return "[" + "; ".join(self._single.show_term(sub, o) for sub, o in self._subs(case, obs)) + "]"

    def oracle(self, case, obs):
        if obs.get("error"):
            return [{"what": f"result: driving the manager raised {obs['error']}", "finding": None}]
        out = []
        for j, ((sub, o), h) in enumerate(zip(self._subs(case, obs), case["history"])):
            pre = f"request {j} ({fr(h['req'])} W to PV inverters {h['ids']}, timeout {case.get('timeout_q', TIMEOUT_Q) / 4} s), the Result that was sent: "
            if o.get("changed_after_sending"):
                out.append({"what": "retained: " + pre + f"changed after it was sent, from {o['first']} to its present fields", "finding": None})
            if o["stray_results"]:
                out.append({"what": "result: " + pre + f"{o['stray_results']} results for no request", "finding": None})
            if o["kind"].startswith("raise"):
                out.append({"what": "result: " + pre + o["kind"], "finding": None})
            for v in self._single.oracle(sub, o):
                out.append({"what": v["what"].split(":")[0] + ": " + pre + v["what"].split(":", 1)[1].strip(), "finding": None})
        return out

    def key(self, case, obs):
        if not any(o["calls"] for o in obs["reqs"]):
            return None
        return json.dumps([case["invs"], case.get("timeout_q"), [[h["req"], h["ids"], h["script"], h.get("health"), h.get("recover")] for h in case["history"]]])

    def labels(self, case, obs):
        tq = case.get("timeout_q", TIMEOUT_Q)
        lb = [f"requests={len(case['history'])}", f"timeout_quarter_seconds={tq}"]
        if case.get("float"):
            lb += ["float_path"] + [f"special_lower_bound={b}" for _, b in case["invs"] if isinstance(b, str)]
        for h, o in zip(case["history"], obs["reqs"]):
            lb.append("kind=" + o["kind"])
            if tq % 4 and any(e[1] == 0 and (tq // 4) * 4 < e[2] < tq for e in h["script"]):
                lb.append("ok_reply_in_the_last_fraction_of_a_second_before_the_timeout")
            if h.get("health"):
                lb.append("inverter_error_in_flight")
            if len(o["usable"]) < len(h["ids"]):
                lb.append("some_requested_inverters_unusable")
            if any(x == 4 for x in o["outs"]):
                lb.append("timeout_among_calls")
        return sorted(set(lb))

    def shrink(self, case):
        hs = case["history"]
        if len(hs) > 1:
            for i in range(len(hs)):
                yield {**case, "history": hs[:i] + hs[i + 1:]}
        for i, h in enumerate(hs):
            for k, e in enumerate(h["script"]):
                if e[1] or e[3]:
                    yield {**case, "history": hs[:i] + [{**h, "script": h["script"][:k] + [[e[0], 0, e[2], 0]] + h["script"][k + 1:]}] + hs[i + 1:]}
            if h.get("health"):
                yield {**case, "history": hs[:i] + [{k: v for k, v in h.items() if k != "health"}] + hs[i + 1:]}
