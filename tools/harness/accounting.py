"""C15: distribution result accounting (battery pools and PV pools).

Implementation side: the real `BatteryManager._distribute_power` (-> `_set_distributed_power`,
`_parse_result`) and the real `PVManager.distribute_power` (-> `_set_api_power`) on `__new__`-built
managers with injected attributes, a fake API client whose k-th `set_power` call follows a scripted
outcome (return / OperationOutOfRange / ApiClientError / RuntimeError / hang until the timeout
cancels it / reply after 1 s of virtual time), run on an `async_solipsism` virtual-time loop.
All powers are `lib.exact.X` rationals, so the results are exact and compared exactly with the
model (coq/model/Accounting.v, over Q).

Outcome codes: 0 ok, 1 out-of-range, 2 client error, 3 other exception, 4 timeout, 5 slow ok (1 s < 5 s timeout),
6 silent + slow cancel (never replies; when cancelled it takes 1 s to unwind before re-raising CancelledError),
7 late ok (would reply at timeout + 0.5 s), 8 late ok + slow cancel.  A call that has not replied when the timeout
fires is a TIMEOUT (failed) whatever happens afterwards, so 6, 7, 8 are `OTimeout` for the model and the oracle.
"""
from __future__ import annotations

import asyncio
import itertools
import json
from datetime import timedelta
from fractions import Fraction
from types import SimpleNamespace

from lib.core import Stream, cZ, clist
from lib.exact import X

TIMEOUT_S = 5.0
OUT_NAMES = ["OOk", "ORange", "OClient", "OOther", "OTimeout", "OOk", "OTimeout", "OTimeout", "OTimeout"]
FAILED = [False, True, True, True, True, False, True, True, True]
OUT_LABELS = ["ok", "out_of_range", "client_error", "other_exception", "timeout", "slow_ok", "silent_slow_cancel", "late_ok", "late_ok_slow_cancel"]
LATE_S = 0.5      # a late reply arrives this long after the timeout
UNWIND_S = 1.0    # a slow cancellation takes this long


# ----------------------------------------------------------------------------- numbers
def fr(v) -> Fraction:
    """case number ([num, den] | int) -> Fraction"""
    if isinstance(v, (list, tuple)):
        return Fraction(int(v[0]), int(v[1]))
    return Fraction(v)


def jq(v) -> list:
    """X | Fraction | int | float(integer/dyadic) -> canonical [num, den]"""
    if isinstance(v, X):
        v = v.q
    f = Fraction(v)
    return [f.numerator, f.denominator]


def cq(v) -> str:
    f = fr(v)
    return f"(Qmake {cZ(f.numerator)} {f.denominator}%positive)"


def watts(power) -> list:
    return jq(power.as_watts())


# ----------------------------------------------------------------------------- fakes
def _imports():
    from frequenz.client.microgrid import ApiClientError, OperationOutOfRange
    from frequenz.quantities import Power
    from frequenz.sdk.microgrid import connection_manager
    from frequenz.sdk.microgrid._power_distributing._component_managers._battery_manager import BatteryManager
    from frequenz.sdk.microgrid._power_distributing._component_managers._pv_inverter_manager._pv_inverter_manager import PVManager
    from frequenz.sdk.microgrid._power_distributing._distribution_algorithm import DistributionResult
    from frequenz.sdk.microgrid._power_distributing.request import Request
    from frequenz.sdk.microgrid._power_distributing import result as R
    return SimpleNamespace(ApiClientError=ApiClientError, OperationOutOfRange=OperationOutOfRange, Power=Power,
                           cm=connection_manager, BatteryManager=BatteryManager, PVManager=PVManager,
                           DistributionResult=DistributionResult, Request=Request, R=R)


class _GrpcErr:
    """stand-in for grpc.aio.AioRpcError, only what the exception constructor reads"""
    def code(self):
        return SimpleNamespace(name="OUT_OF_RANGE", value=(11, "out of range"))

    def details(self):
        return "out of range"

    def debug_error_string(self):
        return ""


class FakeApi:
    def __init__(self, script, I):
        self.script, self.I, self.calls = list(script), I, []

    async def set_power(self, component_id, power):
        k = len(self.calls)
        self.calls.append((component_id, power))
        o = self.script[k] if k < len(self.script) else 0
        if o == 1:
            raise self.I.OperationOutOfRange(server_url="fake", operation="set_power", grpc_error=_GrpcErr())
        if o == 2:
            raise self.I.ApiClientError(server_url="fake", operation="set_power", description="scripted", retryable=False)
        if o == 3:
            raise RuntimeError("scripted unexpected exception")
        if o == 4:
            await asyncio.Event().wait()       # never replies: the manager's timeout cancels the task
        if o == 5:
            await asyncio.sleep(1.0)           # slow but in time
        if o in (6, 7, 8):
            try:
                if o == 6:
                    await asyncio.Event().wait()
                await asyncio.sleep(TIMEOUT_S + LATE_S)      # the reply would come after the timeout
            except asyncio.CancelledError:
                if o in (6, 8):
                    await asyncio.sleep(UNWIND_S)            # cancellation takes time to unwind
                raise


class FakeTracker:
    def __init__(self, working=None):
        self.working = working
        self.updates = []

    def get_working_components(self, ids):
        return list(self.working)

    async def update_status(self, succeeded, failed):
        self.updates.append([sorted(succeeded), sorted(failed)])


class FakeSender:
    def __init__(self):
        self.msgs = []

    async def send(self, msg):
        self.msgs.append(msg)


class FakeCache:
    def __init__(self, bound):
        self.bound = bound

    def has_value(self):
        return self.bound is not None

    def get(self):
        return SimpleNamespace(active_power_inclusion_lower_bound=self.bound)


def _run(coro):
    import async_solipsism
    loop = async_solipsism.EventLoop()
    try:
        asyncio.set_event_loop(loop)
        t0 = loop.time()
        try:
            res = ("ok", loop.run_until_complete(coro))
        except Exception as exc:  # noqa: BLE001 - the outcome is part of the observation
            res = ("raise", type(exc).__name__)
        return res, loop.time() - t0
    finally:
        asyncio.set_event_loop(None)
        loop.close()


def obs_of_result(res, I, request) -> dict:
    R = I.R
    if isinstance(res, R.PartialFailure):
        return {"kind": "PartialFailure", "succ_power": watts(res.succeeded_power), "succ": sorted(res.succeeded_components),
                "failed_power": watts(res.failed_power), "failed": sorted(res.failed_components),
                "excess": watts(res.excess_power), "echo": res.request is request}
    if isinstance(res, R.Success):
        return {"kind": "Success", "succ_power": watts(res.succeeded_power), "succ": sorted(res.succeeded_components),
                "excess": watts(res.excess_power), "echo": res.request is request}
    return {"kind": "other:" + type(res).__name__}


# ----------------------------------------------------------------------------- battery path
def run_bat(case) -> dict:
    I = _imports()
    api = FakeApi(case["out"], I)
    I.cm._CONNECTION_MANAGER = SimpleNamespace(api_client=api, component_graph=None)
    bm = I.BatteryManager.__new__(I.BatteryManager)
    bm._inv_bats_map = {inv: frozenset(bats) for inv, bats in case["map"]}
    bm._api_power_request_timeout = timedelta(seconds=TIMEOUT_S)
    bm._component_pool_status_tracker = FakeTracker()
    dist = {inv: X(fr(p)) for inv, p in case["dist"]}
    request = I.Request(power=I.Power.from_watts(X(fr(case["req"]))),
                        component_ids=set(itertools.chain.from_iterable(b for _, b in case["map"])))
    (st, res), elapsed = _run(bm._distribute_power(request, I.DistributionResult(dist, X(fr(case["rem"])))))
    calls = [[c, jq(p)] for c, p in api.calls]
    if st == "raise":
        return {"kind": "raise:" + res, "calls": calls}
    obs = obs_of_result(res, I, request)
    obs["calls"] = calls
    obs["updates"] = bm._component_pool_status_tracker.updates
    obs["waited_timeout"] = elapsed >= TIMEOUT_S
    return obs


# ----------------------------------------------------------------------------- PV path
def run_pv(case) -> dict:
    I = _imports()
    api = FakeApi(case["out"], I)
    I.cm._CONNECTION_MANAGER = SimpleNamespace(api_client=api, component_graph=None)
    pv = I.PVManager.__new__(I.PVManager)
    pv._results_sender = FakeSender()
    pv._api_power_request_timeout = timedelta(seconds=TIMEOUT_S)
    pv._pv_inverter_ids = {i for i, _ in case["working"]}
    pv._component_pool_status_tracker = FakeTracker([i for i, _ in case["working"]]) if case["tracker"] else None
    pv._component_data_caches = {i: FakeCache(None if b is None else X(fr(b))) for i, b in case["working"]}
    pv._target_power = I.Power.zero()      # what __init__ does; not read any more after the F14 fix
    request = I.Request(power=I.Power.from_watts(X(fr(case["req"]))), component_ids=set(case["ids"]))
    (st, res), elapsed = _run(pv.distribute_power(request))
    calls = [[c, jq(p)] for c, p in api.calls]
    msgs = pv._results_sender.msgs
    if st == "raise":
        return {"kind": "raise:" + res, "calls": calls, "n_results": len(msgs)}
    if not msgs:
        return {"kind": "none", "calls": calls, "n_results": 0}
    obs = obs_of_result(msgs[0], I, request)
    obs["calls"] = calls
    obs["n_results"] = len(msgs)
    obs["waited_timeout"] = elapsed >= TIMEOUT_S
    return obs


# ----------------------------------------------------------------------------- the property, judged on observations
def qsum(xs):
    return sum((fr(x) for x in xs), Fraction(0))


def judge(obs, req, out, comps_of_call, bounds=None) -> list[str]:
    """C15 on one Result object vs the set_power calls the fake client recorded.

    req: requested power; out: scripted outcome of the k-th call; comps_of_call(id) -> the components
    a call to `id` addresses (battery ids behind an inverter; the inverter itself for PV)."""
    v = []
    if obs["kind"] not in ("Success", "PartialFailure"):
        return v
    calls = obs["calls"]
    failed_calls = [c for k, c in enumerate(calls) if FAILED[out[k] if k < len(out) else 0]]
    ok_calls = [c for k, c in enumerate(calls) if not FAILED[out[k] if k < len(out) else 0]]
    succ_p, exc = fr(obs["succ_power"]), fr(obs["excess"])
    fail_p = fr(obs.get("failed_power", 0))
    if succ_p + fail_p + exc != req:
        v.append(f"sum: succeeded {succ_p} + failed {fail_p} + excess {exc} = {succ_p + fail_p + exc} != requested {req}")
    succ, failed = set(obs["succ"]), set(obs.get("failed", []))
    addressed = set().union(*[set(comps_of_call(c)) for c, _ in calls]) if calls else set()
    if succ & failed:
        v.append(f"sets: components {sorted(succ & failed)} reported both succeeded and failed")
    if succ | failed != addressed:
        v.append(f"sets: succeeded|failed = {sorted(succ | failed)} but the addressed components are {sorted(addressed)}")
    want_failed = set().union(*[set(comps_of_call(c)) for c, _ in failed_calls]) if failed_calls else set()
    if failed != want_failed:
        v.append(f"sets: failed components {sorted(failed)} but the components behind the failed calls are {sorted(want_failed)}")
    if fail_p != qsum(p for _, p in failed_calls):
        v.append(f"failed: failed_power {fail_p} != sum of the set-points of the failed calls {qsum(p for _, p in failed_calls)}")
    if (obs["kind"] == "Success") != (not failed_calls):
        v.append(f"failed: result is {obs['kind']} although {len(failed_calls)} set_power calls failed")
    # Σ set-points + excess = requested is C01's conclusion (battery) / C15_pv_alloc (PV); given it, the
    # succeeded power must be what the successful calls carried
    if qsum(p for _, p in calls) + exc == req and succ_p != qsum(p for _, p in ok_calls):
        v.append(f"succeeded: succeeded_power {succ_p} != sum of the set-points of the successful calls {qsum(p for _, p in ok_calls)}")
    if not obs.get("echo", True):
        v.append("request: the result does not carry the request it answers")
    return v


# ----------------------------------------------------------------------------- Coq rendering
def c_calls(calls) -> str:
    return "[" + "; ".join(f"({cZ(i)}, {cq(p)})" for i, p in calls) + "]"


def c_outs(out) -> str:
    return "[" + "; ".join(OUT_NAMES[o] for o in out) + "]"


def c_result(obs) -> str:
    k = obs["kind"]
    if k == "Success":
        return f"(Success {cq(obs['succ_power'])} {clist(obs['succ'])} {cq(obs['excess'])})"
    if k == "PartialFailure":
        return (f"(PartialFailure {cq(obs['succ_power'])} {clist(obs['succ'])} {cq(obs['failed_power'])} "
                f"{clist(obs['failed'])} {cq(obs['excess'])})")
    if k == "none":
        return "NoResult"
    if k.startswith("raise:"):
        return "Raised"
    return None


BAT_HEADER = """From Verif Require Import model.Accounting.
Open Scope Z_scope.
(* case: input, expected Result, expected set_power calls, expected update_status arguments *)
Definition check (c : bat_in * result * list (Z * Q) * list (list Z * list Z)) : bool :=
  let '(x, r, calls, ups) := c in
  result_eqb (bat_result x) r && calls_eqb (bat_calls x) calls &&
  (if r_reported (bat_result x) then list_eqb (pair_eqb setZ_eqb setZ_eqb) [bat_status_update x] ups else is_nil ups).
"""

PV_HEADER = """From Verif Require Import model.Accounting.
Open Scope Z_scope.
(* case: input, expected Result (or NoResult / Raised), expected set_power calls *)
Definition check (c : pv_in * result * list (Z * Q)) : bool :=
  let '(x, r, calls) := c in
  result_eqb (pv_result x) r && calls_eqb (pv_calls x) calls.
"""


def c_bat_in(case) -> str:
    m = "[" + "; ".join(f"({cZ(i)}, {clist(b)})" for i, b in case["map"]) + "]"
    return f"(mkBat {cq(case['req'])} {c_calls(case['dist'])} {cq(case['rem'])} {m} {c_outs(case['out'])})"


def c_pv_in(case) -> str:
    w = "[" + "; ".join(f"({cZ(i)}, {'None' if b is None else '(Some ' + cq(b) + ')'})" for i, b in case["working"]) + "]"
    return (f"(mkPV {cq(case['req'])} {'true' if not case['ids'] else 'false'} {'true' if case['tracker'] else 'false'} "
            f"{w} {c_outs(case['out'])})")


# ----------------------------------------------------------------------------- generation
NUMS = [0, 1, 2, 5, 10, 30, 50, 75, 100, 150, 200, 300, 500, 1000, [1, 2], [5, 2], [100, 3], [1001, 7]]


def gen_q(rng, neg=0.5, zero=0.1):
    if rng.random() < zero:
        return [0, 1]
    f = fr(rng.choice(NUMS))
    if rng.random() < neg:
        f = -f
    return jq(f)


BAT_TOPOLOGIES = [
    # inverter -> batteries
    lambda n: [[10 + i, [100 + i]] for i in range(n)],                                   # 1 : 1
    lambda n: [[10 + i, [100 + i, 200 + i]] for i in range(n)],                          # one inverter, two batteries
    lambda n: [[10 + i, [100 + i // 2]] for i in range(n)],                              # two inverters share a battery
    lambda n: [[10 + i, [100 + i // 2, 200 + i // 2]] for i in range(n)],                # 2 x 2 groups
    lambda n: [[10 + i, [100] if i == 0 else [100 + i, 100 + i - 1]] for i in range(n)],  # overlapping chains
]


def gen_bat_base(rng, n, identity=True):
    m = rng.choice(BAT_TOPOLOGIES)(n)
    extra = [[90, [900]]] if rng.random() < 0.3 else []     # an inverter of the map that is not addressed
    order = list(range(n))
    rng.shuffle(order)
    dist = [[m[i][0], gen_q(rng)] for i in order]
    rem = gen_q(rng, zero=0.5)
    req = jq(qsum(p for _, p in dist) + fr(rem))
    if not identity:
        req = jq(fr(req) + fr(rng.choice([1, -1, 10, [1, 2]])))
    return {"req": req, "dist": dist, "rem": rem, "map": m + extra}


def gen_out(rng, n):
    r = rng.random()
    if r < 0.15:
        return [rng.choice([0, 5]) for _ in range(n)]
    if r < 0.25:
        return [rng.choice([1, 2, 3, 4]) for _ in range(n)]
    if r < 0.45 and n >= 2:
        # several calls still pending at the timeout, slow cancellations and late replies among them
        out = [rng.choice([0, 2, 4, 5, 6, 7, 8, 8]) for _ in range(n)]
        a, b = rng.sample(range(n), 2)
        out[a], out[b] = rng.choice([6, 8]), rng.choice([7, 8])
        return out
    return [rng.choice([0, 0, 1, 2, 3, 4, 5, 6, 7, 8]) for _ in range(n)]


def gen_pv_base(rng, n):
    ids = rng.sample(range(1, 30), n)
    working = []
    r = rng.random()
    for i in ids:
        k = rng.random()
        if k < 0.08:
            b = None
        elif k < 0.14:
            b = [0, 1]
        elif k < 0.19:
            b = jq(fr(rng.choice(NUMS)))                     # positive lower bound: outside the PV convention
        elif r < 0.3:
            b = jq(-fr(rng.choice([100, 100, 300])))         # many ties
        else:
            b = jq(-fr(rng.choice(NUMS)))
        working.append([i, b])
    k = rng.random()
    if k < 0.08:
        req = jq(fr(rng.choice(NUMS)))                       # positive request
    elif k < 0.14:
        req = rng.choice([[0, 1], [-1, 10**10], [-1, 10**8], [1, 10**10], [-3, 10**9]])   # around the is_close_to_zero tolerance
    elif k < 0.5:
        tot = qsum(b for _, b in working if b is not None)
        req = jq(tot * fr(rng.choice([[1, 2], 1, [3, 2], [1, 3], 2, [9, 10]])))   # around the total capacity
    else:
        req = jq(-fr(rng.choice(NUMS)) * rng.choice([1, 1, 2, 3]))
    extra = rng.sample(range(30, 40), rng.choice([0, 0, 1]))
    return {"req": req, "ids": sorted(i for i, _ in working) + extra, "tracker": True, "working": working}


def pv_special_cases():
    out = []
    # no PV inverter in the graph
    out.append({"req": [-100, 1], "ids": [], "tracker": False, "working": [], "out": []})
    out.append({"req": [-100, 1], "ids": [7], "tracker": False, "working": [], "out": []})
    # inverters exist but none is usable (none working / none with data)
    out.append({"req": [-100, 1], "ids": [7], "tracker": True, "working": [], "out": []})
    out.append({"req": [-100, 1], "ids": [7, 8], "tracker": True, "working": [[7, None], [8, None]], "out": []})
    out.append({"req": [0, 1], "ids": [], "tracker": True, "working": [], "out": []})
    # F14 witnesses
    out.append({"req": [-1000, 1], "ids": [1, 2], "tracker": True, "working": [[1, [-300, 1]], [2, [-600, 1]]], "out": [0, 0]})
    out.append({"req": [-1000, 1], "ids": [1, 2], "tracker": True, "working": [[1, [-300, 1]], [2, [-600, 1]]], "out": [0, 4]})
    # ties in the sort, both iteration orders
    out.append({"req": [-150, 1], "ids": [1, 2, 3], "tracker": True, "working": [[3, [-100, 1]], [1, [-100, 1]], [2, [-20, 1]]], "out": [0, 2, 0]})
    out.append({"req": [-150, 1], "ids": [1, 2, 3], "tracker": True, "working": [[1, [-100, 1]], [3, [-100, 1]], [2, [-20, 1]]], "out": [0, 2, 0]})
    # calls pending at the timeout: late replies / slow cancellations must not turn them into successes
    for o in ([8, 8], [6, 7], [7, 6], [0, 8, 8], [7], [8, 8, 8]):
        out.append({"req": [-900, 1], "ids": [1, 2, 3], "tracker": True,
                    "working": [[1, [-400, 1]], [2, [-300, 1]], [3, [-500, 1]]][:len(o)], "out": o})
    return out


def bat_special_cases():
    m = [[10, [100]], [11, [101]]]
    return [
        {"req": [0, 1], "dist": [], "rem": [0, 1], "map": m, "out": []},
        {"req": [50, 1], "dist": [], "rem": [50, 1], "map": m, "out": []},
        {"req": [100, 1], "dist": [[10, [60, 1]], [11, [40, 1]]], "rem": [0, 1], "map": m, "out": [0, 0]},
        {"req": [100, 1], "dist": [[10, [60, 1]], [11, [40, 1]]], "rem": [0, 1], "map": m, "out": [4, 0]},
        # a failing call with set-point 0: still a PartialFailure, failed power 0
        {"req": [40, 1], "dist": [[10, [0, 1]], [11, [40, 1]]], "rem": [0, 1], "map": m, "out": [2, 0]},
        # two inverters behind one battery, one fails
        {"req": [-90, 1], "dist": [[10, [-60, 1]], [11, [-40, 1]]], "rem": [10, 1], "map": [[10, [100]], [11, [100]]], "out": [0, 3]},
    ] + [
        # calls pending at the timeout: late replies / slow cancellations must not turn them into successes
        {"req": [900, 1], "dist": [[10, [400, 1]], [11, [300, 1]], [12, [200, 1]]][:len(o)], "rem": [900 - [400, 700, 900][len(o) - 1], 1],
         "map": [[10, [100]], [11, [101]], [12, [102]]], "out": o}
        for o in ([8, 8], [6, 7], [7, 6], [0, 8, 8], [7], [8, 8, 8])
    ]


def all_outcomes(n):
    return [list(t) for t in itertools.product(range(5), repeat=n)]


def shrink_common(case, calls_key):
    """drop a call / simplify outcomes / simplify numbers"""
    n = len(case[calls_key])
    for i in range(n):
        c = dict(case)
        c[calls_key] = case[calls_key][:i] + case[calls_key][i + 1:]
        c["out"] = case["out"][:i] + case["out"][i + 1:]
        yield c
    for i, o in enumerate(case["out"]):
        if o not in (0, 2):
            for new in (0, 2):
                yield {**case, "out": case["out"][:i] + [new] + case["out"][i + 1:]}


class BatStream(Stream):
    name = "battery"
    coq_header = BAT_HEADER

    def gen(self, rng, tier):
        yield from bat_special_cases()
        nmax, bases, nrand = (3, 2, 1200) if tier == "quick" else (4, 6, 12000)
        for n in range(1, nmax + 1):
            for _ in range(bases):
                base = gen_bat_base(rng, n)
                for out in all_outcomes(n):
                    yield {**base, "out": out}
        for _ in range(nrand):
            n = rng.choice([1, 2, 2, 3, 3, 4, 5, 6])
            yield {**gen_bat_base(rng, n, identity=rng.random() < 0.85), "out": gen_out(rng, n)}

    def run_impl(self, case):
        return run_bat(case)

    def to_coq(self, case, obs):
        r = c_result(obs)
        if r is None:
            return f"({c_bat_in(case)}, NoResult, [], [])"     # the model never answers NoResult here: reported as disagreement
        ups = "[" + "; ".join(f"({clist(s)}, {clist(f)})" for s, f in obs.get("updates", [])) + "]"
        return f"({c_bat_in(case)}, {r}, {c_calls(obs['calls'])}, {ups})"

    def show_term(self, case, obs):
        return f"(bat_result {c_bat_in(case)}, bat_calls {c_bat_in(case)})"

    def oracle(self, case, obs):
        m = {i: b for i, b in case["map"]}
        out = [{"what": w, "finding": None} for w in judge(obs, fr(case["req"]), case["out"], lambda i: m[i])]
        if obs["kind"] not in ("Success", "PartialFailure"):
            # an empty distribution is outside the domain (never handed to _distribute_power by distribute_power)
            if case["dist"]:
                out.append({"what": f"result: _distribute_power produced {obs['kind']} instead of Success/PartialFailure", "finding": None})
        elif [c for c, _ in obs["calls"]] != [c for c, _ in case["dist"]] or any(fr(p) != fr(q) for (_, p), (_, q) in zip(obs["calls"], case["dist"])):
            out.append({"what": "calls: the set_power calls differ from the distribution handed to _distribute_power", "finding": None})
        return out

    def key(self, case, obs):
        if not case["dist"]:
            return None
        return json.dumps([case["req"], case["dist"], case["rem"], case["map"], [min(o, 4) if o != 5 else 0 for o in case["out"]]])

    def labels(self, case, obs):
        n = len(case["dist"])
        lb = [f"calls={n}", f"kind={obs['kind']}"]
        if n == 0:
            return lb + ["empty_distribution"]
        nf = sum(FAILED[o] for o in case["out"])
        lb.append("all_ok" if nf == 0 else "all_failed" if nf == n else "mixed")
        for o in sorted(set(case["out"])):
            lb.append("outcome=" + OUT_LABELS[o])
        if 5 in case["out"] and any(o in (1, 2, 3) for o in case["out"]):
            lb.append("an_error_replies_before_a_success")
        if any(o in (6, 8) for o in case["out"]) and any(o in (7, 8) for o in case["out"]) and sum(o in (4, 6, 7, 8) for o in case["out"]) >= 2:
            lb.append("late_ok_reply_while_another_cancellation_unwinds")
        if qsum(p for _, p in case["dist"]) + fr(case["rem"]) == fr(case["req"]):
            lb.append("c01_identity_holds")
        else:
            lb.append("c01_identity_violated_input")
        bats = [b for i, bs in case["map"] for b in bs if i in {c for c, _ in case["dist"]}]
        if len(bats) != len(set(bats)):
            lb.append("shared_battery")
        if fr(case["rem"]) != 0:
            lb.append("nonzero_excess")
        return lb

    def shrink(self, case):
        yield from shrink_common(case, "dist")
        if fr(case["rem"]) != 0:
            yield {**case, "rem": [0, 1], "req": jq(fr(case["req"]) - fr(case["rem"]))}


class PVStream(Stream):
    name = "pv"
    coq_header = PV_HEADER

    def gen(self, rng, tier):
        yield from pv_special_cases()
        nmax, bases, nrand = (3, 2, 1200) if tier == "quick" else (4, 6, 12000)
        for n in range(1, nmax + 1):
            for _ in range(bases):
                base = gen_pv_base(rng, n)
                base["working"] = [[i, b if b is not None else [-100, 1]] for i, b in base["working"]]
                for out in all_outcomes(n):
                    yield {**base, "out": out}
        for _ in range(nrand):
            n = rng.choice([1, 2, 2, 3, 3, 4, 5, 6, 8])
            yield {**gen_pv_base(rng, n), "out": gen_out(rng, n)}

    def run_impl(self, case):
        return run_pv(case)

    def to_coq(self, case, obs):
        r = c_result(obs)
        if r is None:
            return f"({c_pv_in(case)}, NoResult, [(0, {cq(0)})])"      # unknown kind of answer: reported as disagreement
        return f"({c_pv_in(case)}, {r}, {c_calls(obs['calls'])})"

    def show_term(self, case, obs):
        return f"(pv_result {c_pv_in(case)}, pv_calls {c_pv_in(case)})"

    def oracle(self, case, obs):
        req = fr(case["req"])
        out = [{"what": w, "finding": None} for w in judge(obs, req, case["out"], lambda i: [i])]
        if obs.get("n_results", 0) > 1:
            out.append({"what": f"result: {obs['n_results']} results sent for one request", "finding": None})
        if obs["kind"] == "none" and case["tracker"] and any(b is not None for _, b in case["working"]):
            out.append({"what": "result: no Result was sent although usable PV inverters were addressed", "finding": None})
        if obs["kind"] in ("Success", "PartialFailure"):
            calls = obs["calls"]
            bounds = {i: b for i, b in case["working"]}
            exc = fr(obs["excess"])
            if qsum(p for _, p in calls) + exc != req:
                out.append({"what": f"alloc: set-points {qsum(p for _, p in calls)} + excess {exc} != requested {req}", "finding": None})
            for i, p in calls:
                b = bounds.get(i)
                if b is None:
                    out.append({"what": f"alloc: inverter {i} without data was addressed", "finding": None})
                elif fr(b) <= 0 and not (fr(b) <= fr(p) <= 0):
                    out.append({"what": f"alloc: set-point {fr(p)} of inverter {i} outside [{fr(b)}, 0]", "finding": None})
            usable = sorted(i for i, b in case["working"] if b is not None)
            if case["tracker"] and sorted(i for i, _ in calls) != usable:
                out.append({"what": f"alloc: calls went to {sorted(i for i, _ in calls)} but the usable inverters are {usable}", "finding": None})
        return out

    def key(self, case, obs):
        if not obs.get("calls"):
            return None
        return json.dumps([case["req"], case["working"], [0 if o == 5 else o for o in case["out"]]])

    def labels(self, case, obs):
        n = len(obs.get("calls", []))
        lb = [f"calls={n}", f"kind={obs['kind']}"]
        if not case["tracker"]:
            lb.append("no_pv_inverters_in_graph")
        elif n == 0:
            lb.append("no_usable_inverter:no_result_sent" if obs["kind"] == "none" else "no_usable_inverter:" + obs["kind"])
        if n:
            outs = case["out"][:n]
            nf = sum(FAILED[o] for o in outs)
            lb.append("all_ok" if nf == 0 else "all_failed" if nf == n else "mixed")
            for o in sorted(set(outs)):
                lb.append("outcome=" + OUT_LABELS[o])
            if 5 in outs and any(o in (1, 2, 3) for o in outs):
                lb.append("an_error_replies_before_a_success")
            if any(o in (6, 8) for o in outs) and any(o in (7, 8) for o in outs) and sum(o in (4, 6, 7, 8) for o in outs) >= 2:
                lb.append("late_ok_reply_while_another_cancellation_unwinds")
            if "excess" in obs:
                lb.append("nonzero_excess" if fr(obs["excess"]) != 0 else "zero_excess")
            bs = [tuple(b) for _, b in case["working"] if b is not None]
            if len(bs) != len(set(bs)):
                lb.append("tied_bounds")
            if any(fr(b) > 0 for b in bs):
                lb.append("positive_lower_bound")
            if any(b is None for _, b in case["working"]):
                lb.append("inverter_without_data")
            if fr(case["req"]) >= 0:
                lb.append("non_negative_request")
        return lb

    def shrink(self, case):
        n = len(case["working"])
        for i in range(n):
            yield {**case, "working": case["working"][:i] + case["working"][i + 1:], "out": case["out"][:-1] if len(case["out"]) >= n else case["out"]}
        for i, o in enumerate(case["out"]):
            if o not in (0, 2):
                for new in (0, 2):
                    yield {**case, "out": case["out"][:i] + [new] + case["out"][i + 1:]}


class BatAlgStream(BatStream):
    """Battery path with set-points / remaining power produced by the REAL distribution algorithm
    (component data and requests drawn by the C01 harness generator), then pushed through the real
    `_distribute_power` with scripted API outcomes.  The resolved distribution is stored in the case,
    so a replay does not depend on the generator."""
    name = "alg_battery"

    def gen(self, rng, tier):
        try:
            from harness import dist as D
            _, Alg, _ = D._alg()
        except Exception:  # noqa: BLE001 - the C01 harness is another area's file; without it this stream is empty
            return
        n = 500 if tier == "quick" else 6000
        for _ in range(n):
            dc = D.gen_case(rng)
            try:
                res = Alg(dc["exp"]).distribute_power(X(fr(dc["power"])), D.build(dc, X))
            except Exception:  # noqa: BLE001 - inputs the algorithm rejects never reach _distribute_power
                continue
            if not res.distribution:
                continue
            m = [[i["id"], sorted(b["id"] for b in g["bats"])] for g in dc["groups"] for i in g["invs"]]
            dist = [[int(i), jq(v)] for i, v in res.distribution.items()]
            yield {"req": jq(fr(dc["power"])), "dist": dist, "rem": jq(res.remaining_power), "map": m,
                   "out": gen_out(rng, len(dist)), "origin": "BatteryDistributionAlgorithm"}


# ============================================================================= concurrent requests on ONE manager
# PowerDistributingActor runs requests for different component sets concurrently on the same manager
# instance.  Each Result must be a function of ITS OWN request and the outcomes of ITS OWN calls: no state
# may leak between requests in flight.  2-3 requests for disjoint component subsets are started
# `start` quarter-seconds apart by asyncio.gather on one `__new__`-built manager; every set_power call
# follows the script of its component id: (outcome 0..4, latency in quarter seconds of virtual time).
class FakeApiById:
    def __init__(self, script, I):
        self.script, self.I, self.calls = script, I, []

    async def set_power(self, component_id, power):
        self.calls.append((component_id, power))
        o, lat, unwind = self.script.get(component_id, (0, 0, 0))
        try:
            if o == 4:
                await asyncio.Event().wait()
            if lat:
                await asyncio.sleep(lat / 4.0)
        except asyncio.CancelledError:
            if unwind:
                await asyncio.sleep(unwind / 4.0)     # cancellation takes time to unwind
            raise
        if o == 1:
            raise self.I.OperationOutOfRange(server_url="fake", operation="set_power", grpc_error=_GrpcErr())
        if o == 2:
            raise self.I.ApiClientError(server_url="fake", operation="set_power", description="scripted", retryable=False)
        if o == 3:
            raise RuntimeError("scripted unexpected exception")


class ConcTracker(FakeTracker):
    def get_working_components(self, ids):
        return [i for i in self.working if i in ids]


def _gather(jobs, starts):
    """run the coroutine factories concurrently on one virtual-time loop; job j starts after starts[j]/4 s"""
    import async_solipsism
    loop = async_solipsism.EventLoop()

    async def one(job, start):
        await asyncio.sleep(start / 4.0)
        t0 = loop.time()
        try:
            r = ("ok", await job())
        except Exception as exc:  # noqa: BLE001
            r = ("raise", type(exc).__name__)
        return r, t0, loop.time()

    async def main():
        return await asyncio.gather(*[one(j, s) for j, s in zip(jobs, starts)])
    try:
        asyncio.set_event_loop(loop)
        return loop.run_until_complete(main())
    finally:
        asyncio.set_event_loop(None)
        loop.close()


def _overlap(spans):
    return any(a[0] <= b[1] and b[0] <= a[1] for a, b in itertools.combinations(spans, 2))


def run_conc_pv(case) -> dict:
    I = _imports()
    reqs = case["reqs"]
    script = {e[0]: (e[1], e[2], e[3] if len(e) > 3 else 0) for r in reqs for e in r["script"]}
    api = FakeApiById(script, I)
    I.cm._CONNECTION_MANAGER = SimpleNamespace(api_client=api, component_graph=None)
    pv = I.PVManager.__new__(I.PVManager)
    pv._results_sender = FakeSender()
    pv._api_power_request_timeout = timedelta(seconds=TIMEOUT_S)
    pv._pv_inverter_ids = {i for r in reqs for i, _ in r["working"]}
    pv._component_pool_status_tracker = ConcTracker([i for r in reqs for i, _ in r["working"]])
    pv._component_data_caches = {i: FakeCache(None if b is None else X(fr(b))) for r in reqs for i, b in r["working"]}
    pv._target_power = I.Power.zero()
    requests = [I.Request(power=I.Power.from_watts(X(fr(r["req"]))), component_ids=set(r["ids"])) for r in reqs]
    done = _gather([(lambda q=q: pv.distribute_power(q)) for q in requests], [r["start"] for r in reqs])
    msgs = pv._results_sender.msgs
    out = []
    for r, q, ((st, res), t0, t1) in zip(reqs, requests, done):
        calls = [[c, jq(p)] for c, p in api.calls if c in r["ids"]]
        mine = [m for m in msgs if getattr(m, "request", None) is q]
        if st == "raise":
            o = {"kind": "raise:" + res}
        elif not mine:
            o = {"kind": "none"}
        else:
            o = obs_of_result(mine[0], I, q)
        o.update({"calls": calls, "n_results": len(mine), "span": [jq(Fraction(t0).limit_denominator(1000)), jq(Fraction(t1).limit_denominator(1000))]})
        out.append(o)
    known = {i for r in reqs for i in r["ids"]}
    return {"reqs": out, "stray_results": sum(1 for m in msgs if not any(getattr(m, "request", None) is q for q in requests)),
            "stray_calls": sorted(c for c, _ in api.calls if c not in known),
            "overlap": _overlap([(fr(o["span"][0]), fr(o["span"][1])) for o in out])}


def run_conc_bat(case) -> dict:
    I = _imports()
    reqs = case["reqs"]
    script = {e[0]: (e[1], e[2], e[3] if len(e) > 3 else 0) for r in reqs for e in r["script"]}
    api = FakeApiById(script, I)
    I.cm._CONNECTION_MANAGER = SimpleNamespace(api_client=api, component_graph=None)
    bm = I.BatteryManager.__new__(I.BatteryManager)
    bm._inv_bats_map = {inv: frozenset(bats) for r in reqs for inv, bats in r["map"]}
    bm._api_power_request_timeout = timedelta(seconds=TIMEOUT_S)
    bm._component_pool_status_tracker = FakeTracker()
    requests, dists = [], []
    for r in reqs:
        requests.append(I.Request(power=I.Power.from_watts(X(fr(r["req"]))),
                                  component_ids=set(itertools.chain.from_iterable(b for _, b in r["map"]))))
        dists.append(I.DistributionResult({inv: X(fr(p)) for inv, p in r["dist"]}, X(fr(r["rem"]))))
    done = _gather([(lambda q=q, d=d: bm._distribute_power(q, d)) for q, d in zip(requests, dists)], [r["start"] for r in reqs])
    updates = list(bm._component_pool_status_tracker.updates)
    out = []
    for r, q, ((st, res), t0, t1) in zip(reqs, requests, done):
        invs = {inv for inv, _ in r["dist"]}
        bats = set(itertools.chain.from_iterable(b for i, b in r["map"] if i in invs))
        calls = [[c, jq(p)] for c, p in api.calls if c in invs]
        if st == "raise":
            o = {"kind": "raise:" + res}
        else:
            o = obs_of_result(res, I, q)
            o["updates"] = [u for u in updates if bats and set(u[0]) | set(u[1]) == bats]
        o.update({"calls": calls, "span": [jq(Fraction(t0).limit_denominator(1000)), jq(Fraction(t1).limit_denominator(1000))]})
        out.append(o)
    known = {inv for r in reqs for inv, _ in r["dist"]}
    return {"reqs": out, "n_updates": len(updates), "stray_calls": sorted(c for c, _ in api.calls if c not in known),
            "overlap": _overlap([(fr(o["span"][0]), fr(o["span"][1])) for o in out])}


LAT_PROFILES = ["error_before_success", "success_before_error", "random", "instant", "late_and_slow_cancel"]


TIMEOUT_Q = int(TIMEOUT_S * 4)


def eff_outcome(e):
    """model/oracle outcome of a script entry: no reply before the timeout = timeout, whatever comes later"""
    return 4 if (e[1] == 4 or e[2] > TIMEOUT_Q) else e[1]


def gen_script(rng, ids, profile):
    """[[id, outcome 0..4, latency in quarter seconds, cancel-unwind time in quarter seconds]]; the timeout is 20
    quarters: latencies are <= 12 (in time) or 21..23 (late: the reply would come after the timeout)"""
    r = rng.random()
    outs = ([0] * len(ids) if r < 0.15 else [rng.choice([1, 2, 3, 4]) for _ in ids] if r < 0.25
            else [rng.choice([0, 0, 0, 1, 2, 3, 4]) for _ in ids])
    if profile in ("error_before_success", "success_before_error") and len(ids) > 1 and rng.random() < 0.7:
        a, b = rng.sample(range(len(ids)), 2)       # make sure both kinds of reply occur in this request
        outs[a], outs[b] = 0, rng.choice([1, 2, 3])
    sc = []
    for i, o in zip(ids, outs):
        if profile == "instant":
            lat = 0
        elif profile == "random":
            lat = rng.choice([0, 0, 1, 2, 4, 8, 12])
        elif profile == "error_before_success":
            lat = rng.choice([4, 6, 8, 12]) if o == 0 else rng.choice([0, 1])
        else:
            lat = rng.choice([0, 1]) if o == 0 else rng.choice([4, 6, 8, 12])
        sc.append([i, o, lat, 0])
    if profile == "late_and_slow_cancel":
        for e in sc:
            k = rng.random()
            if k < 0.45:
                e[1], e[2], e[3] = rng.choice([0, 0, 2]), rng.choice([21, 22, 23]), rng.choice([0, 4, 8])   # late reply
            elif k < 0.7:
                e[1], e[2], e[3] = 4, 0, rng.choice([2, 4, 8])                                               # silent, slow cancel
    return sc


def _sub_out(sub, calls):
    """outcome of every recorded call of this request, in call order"""
    sc = {e[0]: eff_outcome(e) for e in sub["script"]}
    return [sc.get(c, 0) for c, _ in calls]


def _profile_labels(case, obs):
    lb = [f"requests={len(case['reqs'])}", "in_flight_together" if obs["overlap"] else "not_overlapping"]
    for r in case["reqs"]:
        lb.append("latency=" + r.get("profile", "?"))
        oks = [e[2] for e in r["script"] if eff_outcome(e) == 0]
        errs = [e[2] for e in r["script"] if eff_outcome(e) in (1, 2, 3)]
        pend = [e for e in r["script"] if eff_outcome(e) == 4]
        if len(pend) >= 2 and any(e[3] for e in pend) and any(e[2] > TIMEOUT_Q and e[1] == 0 for e in pend):
            lb.append("late_ok_reply_while_another_cancellation_unwinds")
        if oks and errs and min(errs) < max(oks):
            lb.append("an_error_replies_before_a_success")
        if oks and errs and min(oks) < max(errs):
            lb.append("a_success_replies_before_an_error")
    powers = {tuple(r["req"]) for r in case["reqs"]}
    lb.append("different_powers" if len(powers) > 1 else "same_power")
    for o in obs["reqs"]:
        lb.append("kind=" + o["kind"])
    return sorted(set(lb))


def _shrink_conc(case):
    rs = case["reqs"]
    if len(rs) > 2:
        for i in range(len(rs)):
            yield {**case, "reqs": rs[:i] + rs[i + 1:]}
    for i, r in enumerate(rs):
        if any(e[1] or e[2] for e in r["script"]):
            yield {**case, "reqs": rs[:i] + [{**r, "script": [[e[0], 0, 0, 0] for e in r["script"]]}] + rs[i + 1:]}
        for k, e in enumerate(r["script"]):
            if e[1] or e[2] or (len(e) > 3 and e[3]):
                yield {**case, "reqs": rs[:i] + [{**r, "script": r["script"][:k] + [[e[0], 0, 0, 0]] + r["script"][k + 1:]}] + rs[i + 1:]}
        if r["start"]:
            yield {**case, "reqs": rs[:i] + [{**r, "start": 0}] + rs[i + 1:]}


class ConcPVStream(Stream):
    name = "conc_pv"
    coq_header = (PV_HEADER.replace("Definition check ", "Definition check1 ") +
                  "Definition check (cs : list (pv_in * result * list (Z * Q))) : bool := forallb check1 cs.\n")
    _single = PVStream()

    def gen(self, rng, tier):
        # two requests, different powers, the second arrives while the first waits for its replies
        yield {"reqs": [
            {"req": [-600, 1], "ids": [8, 28], "working": [[8, [-500, 1]], [28, [-500, 1]]], "script": [[8, 0, 4], [28, 0, 4]], "start": 0, "profile": "random"},
            {"req": [-3000, 1], "ids": [9], "working": [[9, [-5000, 1]]], "script": [[9, 0, 0]], "start": 1, "profile": "random"}]}
        for _ in range(350 if tier == "quick" else 5000):
            reqs = []
            for j in range(rng.choice([2, 2, 3])):
                base = gen_pv_base(rng, rng.choice([1, 2, 2, 3]))
                off = 100 * (j + 1)
                working = [[i + off, b] for i, b in base["working"]]
                prof = rng.choice(LAT_PROFILES)
                reqs.append({"req": base["req"], "ids": sorted(i + off for i in base["ids"]), "working": working,
                             "script": gen_script(rng, [i for i, _ in working], prof), "start": rng.choice([0, 0, 1, 2]),
                             "profile": prof})
            yield {"reqs": reqs}

    def run_impl(self, case):
        return run_conc_pv(case)

    def _subs(self, case, obs):
        for r, o in zip(case["reqs"], obs["reqs"]):
            yield {"req": r["req"], "ids": r["ids"], "tracker": True, "working": r["working"], "out": _sub_out(r, o["calls"])}, o

    def to_coq(self, case, obs):
        terms = [self._single.to_coq(sub, o) for sub, o in self._subs(case, obs)]
        return "[" + "; ".join(terms) + "]"

    def show_term(self, case, obs):
        return "[" + "; ".join(self._single.show_term(sub, o) for sub, o in self._subs(case, obs)) + "]"

    def oracle(self, case, obs):
        out = []
        for j, (sub, o) in enumerate(self._subs(case, obs)):
            for v in self._single.oracle(sub, o):
                out.append({"what": v["what"].split(":")[0] + f": request {j} ({fr(sub['req'])} W to {sub['ids']}), judged against its own request: " + v["what"].split(":", 1)[1].strip(), "finding": None})
            if o["kind"].startswith("raise"):
                out.append({"what": f"result: request {j} raised {o['kind']}", "finding": None})
        if obs["stray_results"]:
            out.append({"what": f"result: {obs['stray_results']} results that answer none of the requests in flight", "finding": None})
        if obs["stray_calls"]:
            out.append({"what": f"calls: set_power calls to components of no request: {obs['stray_calls']}", "finding": None})
        return out

    def key(self, case, obs):
        if not any(o["calls"] for o in obs["reqs"]):
            return None
        return json.dumps([[r["req"], r["working"], r["script"], r["start"]] for r in case["reqs"]])

    def labels(self, case, obs):
        return _profile_labels(case, obs)

    def shrink(self, case):
        return _shrink_conc(case)


class ConcBatStream(Stream):
    name = "conc_battery"
    coq_header = (BAT_HEADER.replace("Definition check ", "Definition check1 ") +
                  "Definition check (cs : list (bat_in * result * list (Z * Q) * list (list Z * list Z))) : bool := forallb check1 cs.\n")
    _single = BatStream()

    def gen(self, rng, tier):
        for _ in range(350 if tier == "quick" else 5000):
            reqs = []
            for j in range(rng.choice([2, 2, 3])):
                n = rng.choice([1, 2, 2, 3])
                base = gen_bat_base(rng, n, identity=rng.random() < 0.9)
                off = 1000 * (j + 1)
                prof = rng.choice(LAT_PROFILES)
                dist = [[i + off, p] for i, p in base["dist"]]
                reqs.append({"req": base["req"], "rem": base["rem"], "dist": dist,
                             "map": [[i + off, [b + off for b in bs]] for i, bs in base["map"]],
                             "script": gen_script(rng, [i for i, _ in dist], prof), "start": rng.choice([0, 0, 1, 2]), "profile": prof})
            yield {"reqs": reqs}

    def run_impl(self, case):
        return run_conc_bat(case)

    def _subs(self, case, obs):
        for r, o in zip(case["reqs"], obs["reqs"]):
            sc = {e[0]: eff_outcome(e) for e in r["script"]}
            yield {"req": r["req"], "rem": r["rem"], "dist": r["dist"], "map": r["map"], "out": [sc.get(i, 0) for i, _ in r["dist"]]}, o

    def to_coq(self, case, obs):
        return "[" + "; ".join(self._single.to_coq(sub, o) for sub, o in self._subs(case, obs)) + "]"

    def show_term(self, case, obs):
        return "[" + "; ".join(self._single.show_term(sub, o) for sub, o in self._subs(case, obs)) + "]"

    def oracle(self, case, obs):
        out = []
        for j, (sub, o) in enumerate(self._subs(case, obs)):
            for v in self._single.oracle(sub, o):
                out.append({"what": v["what"].split(":")[0] + f": request {j} ({fr(sub['req'])} W), judged against its own request: " + v["what"].split(":", 1)[1].strip(), "finding": None})
        if obs["stray_calls"]:
            out.append({"what": f"calls: set_power calls to inverters of no request: {obs['stray_calls']}", "finding": None})
        return out

    def key(self, case, obs):
        return json.dumps([[r["req"], r["dist"], r["rem"], r["map"], r["script"], r["start"]] for r in case["reqs"]])

    def labels(self, case, obs):
        return _profile_labels(case, obs)

    def shrink(self, case):
        return _shrink_conc(case)
