"""C17 — power inside a pool's advertised bounds is never rejected as out of bounds."""
from __future__ import annotations

from harness import poolbounds as PB

ID = "C17"
PROPS = "props/C17.v"
NEEDS = ["is_close_to_zero_abs_tol"]


def streams():
    return [PB.PoolBoundsStream(), PB.FloatSumStream(), PB.BoundsStreamStream()]


ASSUMPTIONS = [
    "component timestamps are later than datetime.min (the calculator uses timestamp == _MIN_TIMESTAMP as 'no group contributed')",
    "the pool is closed under shared inverters (a request for a strict subset of the batteries behind shared inverters is answered with Error by the manager, not with OutOfBounds)",
    "is_close_to_zero on the exact class converts to binary64 first; probes are on the 1e-9 threshold or at least 10 % away from it",
]

META = {
    "technique": "Coq proof over Q (sum/max/min algebra by induction over the list of battery groups: max(Σa, Σb) <= Σ max(a,b), sum over flat_map = sum of sums) + T-tie of the zero tolerance + differential correspondence of PowerBoundsCalculator.calculate, BatteryManager._get_components_data/_get_bounds/_check_request, SystemBounds.__contains__ and the distribution algorithm's min_power (all run on exact rationals) vs the model evaluated in Coq + property oracle on the implementation's outputs",
    "level_text": "Machine-checked theorems (closed under the global context) about a Gallina model of both code paths as functions of the same list of battery groups: the advertised inclusion bounds equal the enforced ones, the enforced exclusion zone lies inside the advertised one, every power inside the advertised inclusion bounds and outside (or on the edge of) the advertised exclusion zone is accepted by _check_request in both adjust_power modes, and such a power is at least the sum of the groups' minimum powers in its direction. The grouping (any list of groups, overlapping or not) is a parameter. The model is tied to the code by running the real calculator (real constructor and mapping code on a stub component graph) and the real manager methods on exact rationals for thousands of generated topologies / data sets with probes on, just inside and just outside every advertised bound, comparing with the model evaluated inside Coq; the grouping each side used is recorded from the run and compared; the property is also judged directly on the implementation's outputs.",
    "level_note": "Trusted: Coq kernel + vm_compute, tools/translate.py (one constant), the harness and its generator, the exact-rational class. ALL theorems are over Q: the algorithm and the order of a floating-point summation are outside the model. In binary64 'identical inclusion bounds' additionally needs both code paths to add the same terms the same way; that was not the case (naive += vs the builtin compensated sum(), finding C17-float-summation-ulp, fixed in /repo c1935b2) and is now checked, not proved, by the float-only stream `floatsum` (both real code paths on binary64, non-dyadic bounds, >= 3 battery sets: bit-identical inclusion bounds and acceptance of requests exactly on the advertised bounds; witness in corpus/C17/floatsum_witness.json). If a future CPython or a different set iteration order made the two sides add in different orders, a one-ulp difference could reappear; the stream would report it. The bounds as STREAMED (BatteryPool._system_power_bounds: SendOnUpdate + PowerBoundsCalculator + battery/inverter fetchers behind a real BatteryPoolReferenceStore) are not modelled as a transition system; the stream `stream` runs that real pipeline and a BatteryManager's real data path (_create_channels -> LatestValueCache, _get_components_data, _get_bounds, _check_request; the status tracker is a stub answering the same working set the harness sends on the pool's status channel) off the same fake API data on async_solipsism virtual time, with scripts of status changes / bursts and bounds changes on working batteries, NOT-working batteries of a working shared-inverter set, idle sets and inverters; after each step (6 virtual seconds settled) the latest streamed bounds must equal the model's `advertised` on the snapshot, agree with what the manager enforces (inclusion equal, exclusion dominated) and every probe inside them must be accepted. Transients between a change and its propagation are not judged. The main stream's float run is compared exactly on dyadic data (float arithmetic exact) and within 1e-6 otherwise. The distribution itself (that the accepted power is then distributed without entering an exclusion zone) is C01/C02's subject; here only |p| >= sum of min_power is shown. Incomplete data is covered for the calculator only (the manager skips groups without data).",
}
