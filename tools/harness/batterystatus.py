"""C16: battery status tracker, blocking status, component pool status.

Implementation side: the real `BatteryStatusTracker` is started on an `async_solipsism`
virtual-time loop whose clock also drives `time_machine` (so `datetime.now()` ==
BASE + loop.time() at every instant).  Its collaborators are probes:
  * the connection manager is a stub whose api client hands out receivers of two
    `Broadcast` channels (battery / inverter data),
  * the set-power-result channel is a real `Broadcast`,
  * the status sender records every notification (and can be told to block for a while,
    which is how *late* timer events and queued messages are produced),
  * every receiver the tracker selects on (the two data receivers, the two data timers and
    the set-power receiver) is wrapped by a recorder that notes *which* receiver was
    consumed *when* -- this is the trace of boundary events replayed through the model.
Model side: coq/model/BatteryStatus.v (`step`, `run`).  All times are integer milliseconds
in the cases and integer microseconds in Coq.
"""
from __future__ import annotations

import asyncio
import json
import math
import warnings
from datetime import datetime, timedelta, timezone
from types import SimpleNamespace

from lib.core import Stream, cZ, cbool, clist, copt

warnings.filterwarnings("ignore", category=DeprecationWarning)

BASE = datetime(2022, 1, 1, tzinfo=timezone.utc)
_CUR = {"base": BASE}    # wall-clock instant of virtual time 0 of the run in progress
# virtual time 0 of a case ("epoch" key): default, or 30 s before a DST switch of a zone used below
EPOCHS = {
    "default": BASE,
    "berlin_spring": datetime(2022, 3, 27, 0, 59, 30, tzinfo=timezone.utc),    # 02:00 CET -> 03:00 CEST at 01:00 UTC
    "berlin_autumn": datetime(2022, 10, 30, 0, 59, 30, tzinfo=timezone.utc),   # 03:00 CEST -> 02:00 CET at 01:00 UTC
    "newyork_autumn": datetime(2022, 11, 6, 5, 59, 30, tzinfo=timezone.utc),   # 02:00 EDT -> 01:00 EST at 06:00 UTC
    "lordhowe_autumn": datetime(2022, 4, 2, 14, 59, 30, tzinfo=timezone.utc),  # half-hour DST step at 15:00 UTC
}
# time zones a component may stamp its messages in (None = UTC); the INSTANT is what the case fixes
ZONES = [None, "+05:30", "+01:00", "+14:00", "-08:00", "-03:30", "Europe/Berlin", "America/New_York", "Asia/Kolkata",
         "Australia/Lord_Howe"]


def tz_of(name):
    if name is None:
        return timezone.utc
    if name[0] in "+-":
        sign = 1 if name[0] == "+" else -1
        hh, mm = name[1:].split(":")
        return timezone(sign * timedelta(hours=int(hh), minutes=int(mm)))
    import zoneinfo
    return zoneinfo.ZoneInfo(name)


def stamp(e, now_us):
    """The message timestamp: the instant (virtual now - age), expressed in the zone the case asks for."""
    ts = _CUR["base"] + timedelta(microseconds=now_us - e["age"] * 1000)
    return ts.astimezone(tz_of(e["tz"])) if e.get("tz") else ts
BATTERY_ID, INVERTER_ID = 9, 8
DMIN_MS = 1000  # BatteryStatusTracker hard-codes min_duration=1 s (T-tied: min_blocking_duration_us)

BAT_STATES = ["UNSPECIFIED", "OFF", "IDLE", "CHARGING", "DISCHARGING", "ERROR", "LOCKED", "SWITCHING_ON",
              "SWITCHING_OFF", "UNKNOWN"]
BAT_RELAYS = ["UNSPECIFIED", "OPENED", "PRECHARGING", "CLOSED", "ERROR", "LOCKED"]
INV_STATES = ["UNSPECIFIED", "OFF", "SWITCHING_ON", "SWITCHING_OFF", "STANDBY", "IDLE", "CHARGING", "DISCHARGING",
              "ERROR", "UNAVAILABLE", "UNKNOWN"]
LEVELS = ["UNSPECIFIED", "WARN", "CRITICAL"]

# What "operational" means in the property, written down independently of the code's tables.
ORACLE_BAT_STATES = {"IDLE", "CHARGING", "DISCHARGING"}
ORACLE_BAT_RELAYS = {"CLOSED"}
ORACLE_INV_STATES = {"STANDBY", "IDLE", "CHARGING", "DISCHARGING"}

_IMPORTED = {}


def _imports():
    """Import the implementation once, under a fixed clock so that the class-level default
    `last_msg_timestamp = datetime.now()` of _ComponentStreamStatus is deterministic."""
    if _IMPORTED:
        return _IMPORTED
    import time_machine
    with time_machine.travel(BASE - timedelta(days=1), tick=False):
        from frequenz.sdk.microgrid._power_distributing._component_status import _battery_status_tracker as bst
    import async_solipsism
    from frequenz.channels import Broadcast, Receiver
    from frequenz.client import microgrid as cm
    from frequenz.sdk.microgrid import connection_manager
    from frequenz.sdk.microgrid._power_distributing._component_status import (
        BatteryStatusTracker, ComponentStatus, ComponentStatusEnum, SetPowerResult)
    from frequenz.sdk.microgrid._power_distributing._component_status._blocking_status import BlockingStatus
    from frequenz.sdk.microgrid._power_distributing._component_status._component_status import (
        ComponentPoolStatus, ComponentStatusTracker)
    from frequenz.sdk.microgrid._power_distributing._component_pool_status_tracker import ComponentPoolStatusTracker
    from frequenz.sdk.actor._background_service import BackgroundService
    _IMPORTED.update(dict(tm=time_machine, solipsism=async_solipsism, Broadcast=Broadcast, Receiver=Receiver, cm=cm,
                          connection_manager=connection_manager, Tracker=BatteryStatusTracker, bst=bst,
                          ComponentStatus=ComponentStatus, Enum=ComponentStatusEnum, SetPowerResult=SetPowerResult,
                          BlockingStatus=BlockingStatus, ComponentPoolStatus=ComponentPoolStatus,
                          ComponentStatusTracker=ComponentStatusTracker, PoolTracker=ComponentPoolStatusTracker,
                          BackgroundService=BackgroundService))
    return _IMPORTED


# ----------------------------------------------------------------------------- virtual time
def _new_loop(traveller, base=BASE):
    I = _imports()
    from async_solipsism.clock import Clock

    class SyncClock(Clock):
        """async_solipsism's clock; every advance also moves the wall clock."""

        def advance(self, delta):
            super().advance(delta)
            traveller.move_to(base + timedelta(microseconds=self._ticks))

    loop = I["solipsism"].EventLoop()
    loop._selector.clock = SyncClock()  # pylint: disable=protected-access
    return loop


def _now_us(loop) -> int:
    return loop._selector.clock._ticks  # pylint: disable=protected-access


def run_virtual(coro_fn, epoch="default"):
    """Run `coro_fn(loop)` on a fresh virtual-time loop with datetime.now() tied to it."""
    I = _imports()
    base = EPOCHS[epoch or "default"]
    with I["tm"].travel(base, tick=False) as traveller:
        loop = _new_loop(traveller, base)
        asyncio.set_event_loop(loop)
        _CUR["base"] = base
        try:
            return loop.run_until_complete(coro_fn(loop))
        finally:
            _CUR["base"] = BASE
            try:
                pend = [t for t in asyncio.all_tasks(loop) if not t.done()]
                for t in pend:
                    t.cancel()
                if pend:
                    loop.run_until_complete(asyncio.gather(*pend, return_exceptions=True))
            finally:
                asyncio.set_event_loop(None)
                loop.close()


# ----------------------------------------------------------------------------- message builders
def mk_battery(e, now_us, cid=BATTERY_ID, rich=False):
    cm = _imports()["cm"]
    nan = math.nan
    if rich:   # everything the battery manager needs to distribute power
        errors = [cm.BatteryError(code=cm.BatteryErrorCode.UNSPECIFIED, level=cm.ErrorLevel[l], message="") for l in e["errors"]]
        return cm.BatteryData(
            component_id=cid, timestamp=stamp(e, now_us), soc=50.0, soc_lower_bound=10.0, soc_upper_bound=90.0,
            capacity=(10000.0 if e["cap"] else nan), power_inclusion_lower_bound=-5000.0, power_exclusion_lower_bound=0.0,
            power_inclusion_upper_bound=5000.0, power_exclusion_upper_bound=0.0, temperature=25.0,
            relay_state=cm.BatteryRelayState[e["relay"]], component_state=cm.BatteryComponentState[e["state"]], errors=errors)
    errors = [cm.BatteryError(code=cm.BatteryErrorCode.UNSPECIFIED, level=cm.ErrorLevel[l], message="") for l in e["errors"]]
    return cm.BatteryData(
        component_id=cid, timestamp=stamp(e, now_us),
        soc=nan, soc_lower_bound=nan, soc_upper_bound=nan, capacity=(1000.0 if e["cap"] else nan),
        power_inclusion_lower_bound=nan, power_exclusion_lower_bound=nan, power_inclusion_upper_bound=nan,
        power_exclusion_upper_bound=nan, temperature=nan, relay_state=cm.BatteryRelayState[e["relay"]],
        component_state=cm.BatteryComponentState[e["state"]], errors=errors)


def mk_inverter(e, now_us, cid=INVERTER_ID, rich=False):
    cm = _imports()["cm"]
    nan = math.nan
    if rich:
        errors = [cm.InverterError(code=cm.InverterErrorCode.UNSPECIFIED, level=cm.ErrorLevel[l], message="") for l in e["errors"]]
        n3 = (nan, nan, nan)
        return cm.InverterData(
            component_id=cid, timestamp=stamp(e, now_us), active_power=0.0, active_power_per_phase=n3, reactive_power=nan,
            reactive_power_per_phase=n3, current_per_phase=n3, voltage_per_phase=n3, active_power_inclusion_lower_bound=-5000.0,
            active_power_exclusion_lower_bound=0.0, active_power_inclusion_upper_bound=5000.0,
            active_power_exclusion_upper_bound=0.0, frequency=50.0,
            component_state=cm.InverterComponentState[e["state"]], errors=errors)
    errors = [cm.InverterError(code=cm.InverterErrorCode.UNSPECIFIED, level=cm.ErrorLevel[l], message="") for l in e["errors"]]
    n3 = (nan, nan, nan)
    return cm.InverterData(
        component_id=cid, timestamp=stamp(e, now_us),
        active_power=nan, active_power_per_phase=n3, reactive_power=nan, reactive_power_per_phase=n3,
        current_per_phase=n3, voltage_per_phase=n3, active_power_inclusion_lower_bound=nan,
        active_power_exclusion_lower_bound=nan, active_power_inclusion_upper_bound=nan,
        active_power_exclusion_upper_bound=nan, frequency=50.0,
        component_state=cm.InverterComponentState[e["state"]], errors=errors)


def mk_set_power(e):
    SetPowerResult = _imports()["SetPowerResult"]
    other = {BATTERY_ID + 100}
    return SetPowerResult(succeeded=({BATTERY_ID} if e["succ"] else set()) | other,
                          failed=({BATTERY_ID} if e["fail"] else set()))


# ----------------------------------------------------------------------------- the driver
def run_tracker(case):
    """Drive the real BatteryStatusTracker through `case`; return the boundary trace.

    obs["log"]: one entry per receiver consumed by the tracker's select loop, in order:
        [kind, now_us, stimulus index | None, status code sent while handling it | None]
    kind: "bat" "inv" "sp" (a stimulus was delivered)  "bt" "it" (battery / inverter data timer)."""
    I = _imports()
    Receiver = I["Receiver"]
    codes = {I["Enum"].NOT_WORKING: 0, I["Enum"].UNCERTAIN: 1, I["Enum"].WORKING: 2}
    log = []
    send_delays = {int(k): v for k, v in case.get("send_delays", [])}

    async def drive(loop):
        class Rec(Receiver):
            """Recording wrapper around a receiver selected on by the tracker."""

            def __init__(self, inner, kind, index_of=None):
                self.inner, self.kind, self.index_of = inner, kind, index_of

            async def ready(self):
                return await self.inner.ready()

            def consume(self):
                idx = None
                try:
                    msg = self.inner.consume()
                    if self.index_of is not None:
                        idx = self.index_of.get(id(msg))
                    return msg
                finally:
                    log.append([self.kind, _now_us(loop), idx, None])

            def reset(self, **kw):  # the data timers are reset on every message
                return self.inner.reset(**kw)

            def close(self):
                self.inner.close()

        class StatusProbe:
            """Status sender: records the notification; may block to make the tracker late."""
            n = 0

            async def send(self, msg):
                assert msg.component_id == BATTERY_ID
                assert log and log[-1][3] is None, "two notifications within one select iteration"
                log[-1][3] = codes[msg.value]
                k = StatusProbe.n
                StatusProbe.n += 1
                if k in send_delays:
                    await asyncio.sleep(send_delays[k] / 1000)

        index_of = {}
        bat_ch = I["Broadcast"](name="bat")
        inv_ch = I["Broadcast"](name="inv")
        sp_ch = I["Broadcast"](name="sp")
        bat_rx = Rec(bat_ch.new_receiver(limit=200), "bat", index_of)
        inv_rx = Rec(inv_ch.new_receiver(limit=200), "inv", index_of)
        sp_rx = Rec(sp_ch.new_receiver(limit=200), "sp", index_of)

        async def battery_data(cid):
            assert cid == BATTERY_ID
            return bat_rx

        async def inverter_data(cid):
            assert cid == INVERTER_ID
            return inv_rx

        graph = SimpleNamespace(predecessors=lambda bid: [SimpleNamespace(component_id=INVERTER_ID, category=I["cm"].ComponentCategory.INVERTER)])
        cmgr = I["connection_manager"]
        saved = cmgr._CONNECTION_MANAGER  # pylint: disable=protected-access
        cmgr._CONNECTION_MANAGER = SimpleNamespace(component_graph=graph, api_client=SimpleNamespace(battery_data=battery_data, inverter_data=inverter_data))
        try:
            tracker = I["Tracker"](BATTERY_ID, max_data_age=timedelta(milliseconds=case["cfg"]["max_age"]),
                                   max_blocking_duration=timedelta(milliseconds=case["cfg"]["dmax"]),
                                   status_sender=StatusProbe(), set_power_result_receiver=sp_rx)
            ts0 = tracker._battery.last_msg_timestamp  # pylint: disable=protected-access
            assert tracker._inverter.last_msg_timestamp == ts0  # pylint: disable=protected-access
            tracker._battery.data_recv_timer = Rec(tracker._battery.data_recv_timer, "bt")  # pylint: disable=protected-access
            tracker._inverter.data_recv_timer = Rec(tracker._inverter.data_recv_timer, "it")  # pylint: disable=protected-access
            tracker.start()
            bat_tx, inv_tx, sp_tx = bat_ch.new_sender(), inv_ch.new_sender(), sp_ch.new_sender()
            keep = []
            sent_at = []
            for i, e in enumerate(case["events"]):
                await asyncio.sleep(e["gap"] / 1000)
                now = _now_us(loop)
                sent_at.append(now)
                if e["t"] == "bat":
                    m = mk_battery(e, now)
                    tx = bat_tx
                elif e["t"] == "inv":
                    m = mk_inverter(e, now)
                    tx = inv_tx
                elif e["t"] == "sp":
                    m = mk_set_power(e)
                    tx = sp_tx
                else:
                    continue
                keep.append(m)
                index_of[id(m)] = i
                await tx.send(m)
            await asyncio.sleep(case.get("tail", 0) / 1000)
            # let everything scheduled for this instant run: the tracker needs a few loop iterations per
            # queued message (ready() task -> wait -> consume); stop early once every stimulus was consumed
            n_stim = sum(1 for e in case["events"] if e["t"] in ("bat", "inv", "sp"))
            for it in range(400):
                await asyncio.sleep(0)
                if it >= 10 and sum(1 for x in log if x[0] in ("bat", "inv", "sp")) == n_stim:
                    break
            end = _now_us(loop)
            await tracker.stop()
            ts0_us = (ts0 - _CUR["base"]) // timedelta(microseconds=1)
            return {"log": [list(x) for x in log], "sent_at": sent_at, "end": end, "ts0": ts0_us}
        finally:
            cmgr._CONNECTION_MANAGER = saved  # pylint: disable=protected-access

    return run_virtual(drive, case.get("epoch"))


# ----------------------------------------------------------------------------- Coq rendering
def cstr(s):
    """Enum member names are referred to by constants defined once in the header (NAMES_HEADER):
    parsing a string literal per message makes the case files several times slower to check."""
    return "n_" + s


ALL_NAMES = sorted(set(BAT_STATES + BAT_RELAYS + INV_STATES + LEVELS))
NAMES_HEADER = "".join(f'Definition n_{n} : string := "{n}".\n' for n in ALL_NAMES)


def c_event(case, entry, obs):
    kind, now, idx, _ = entry
    if kind == "bt":
        return f"({cZ(now)}, BatTimer)"
    if kind == "it":
        return f"({cZ(now)}, InvTimer)"
    e = case["events"][idx]
    if kind == "sp":
        return f"({cZ(now)}, SetPower {cbool(e['succ'])} {cbool(e['fail'])})"
    ts = obs["sent_at"][idx] - e["age"] * 1000
    if kind == "bat":
        return (f"({cZ(now)}, BatMsg (mkBM {cZ(ts)} {cstr(e['state'])} {cstr(e['relay'])} "
                f"{clist(e['errors'], cstr)} {cbool(e['cap'])}))")
    return f"({cZ(now)}, InvMsg (mkIM {cZ(ts)} {cstr(e['state'])} {clist(e['errors'], cstr)}))"


TRACKER_HEADER = """From Verif Require Import model.BatteryStatus.
Open Scope string_scope.
Open Scope Z_scope.
""" + NAMES_HEADER + """
(* case: (max_data_age, max_blocking_duration), initial last_msg_timestamp, the recorded
   boundary events with their clock readings, the notification sent while handling each *)
Definition case_t : Type := ((Z * Z) * Z * list (Z * event) * list (option Z))%type.
Definition check (c : case_t) : bool :=
  let '(cf, ts0, tr, exp) := c in
  let cfg := mkC (fst cf) min_blocking_duration_us (snd cf) in
  list_eqb optZ_eqb (out_codes (outputs cfg (init cfg ts0) tr)) exp.
"""


def tracker_term(case, obs):
    tr = "[" + "; ".join(c_event(case, x, obs) for x in obs["log"]) + "]"
    exp = clist([x[3] for x in obs["log"]], copt)
    return (f"((({cZ(case['cfg']['max_age'] * 1000)}, {cZ(case['cfg']['dmax'] * 1000)}), {cZ(obs['ts0'])}, "
            f"{tr}, {exp}) : case_t)")


# ----------------------------------------------------------------------------- independent bookkeeping (oracle)
def healthy(e, max_age):
    """Does stimulus `e` (a data message) meet every requirement of the property?"""
    if e["age"] > max_age:
        return False, "stale"
    if "CRITICAL" in e["errors"]:
        return False, "critical"
    if e["t"] == "bat":
        if e["state"] not in ORACLE_BAT_STATES:
            return False, "state"
        if e["relay"] not in ORACLE_BAT_RELAYS:
            return False, "relay"
        if not e["cap"]:
            return False, "capacity"
    else:
        if e["state"] not in ORACLE_INV_STATES:
            return False, "state"
    return True, ""


NAMES = {0: "NOT_WORKING", 1: "UNCERTAIN", 2: "WORKING"}


def judge_tracker(case, obs, stats_out=None):
    """The property judged on the recorded trace.  Bookkeeping is per stream: the latest
    delivered message, whether it was healthy when delivered, whether a data time-out was
    processed since; the blocking deadline follows the closed form of the statement
    (the k-th consecutive failure blocks for min(2^(k-1) * d_min, d_max))."""
    out = []
    ma, dmax = case["cfg"]["max_age"] * 1000, case["cfg"]["dmax"] * 1000
    dmin = DMIN_MS * 1000
    ev = case["events"]
    ahead = any(e["t"] in ("bat", "inv") and e["age"] < 0 for e in ev)
    delayed = bool(case.get("send_delays"))
    latest = {"bat": None, "inv": None}   # [healthy?, delivered at, timed out since?, timestamp]
    status = 0
    k = 0            # consecutive effective failures since the last success / recovery
    until = None     # blocking deadline
    notes = []
    stats = {"max_k": 0}
    for n, (kind, now, idx, sent) in enumerate(obs["log"]):
        prev = status
        evaluated = True
        if kind in ("bat", "inv"):
            e = ev[idx]
            ok, why = healthy(e, case["cfg"]["max_age"])
            # freshness is judged at delivery: the message may have waited in the channel
            age_at_delivery = now - (obs["sent_at"][idx] - e["age"] * 1000)
            if age_at_delivery > ma:
                ok, why = False, "stale"
            latest[kind] = [ok, now, False, now - age_at_delivery]
            if not ok and sent != 0 and prev != 0:
                out.append({"what": f"immediate: {kind} message #{idx} is disqualifying ({why}) but the battery was not "
                                    f"reported NOT_WORKING in the same step (log entry {n})", "finding": None})
        elif kind in ("bt", "it"):
            s = "bat" if kind == "bt" else "inv"
            l = latest[s]
            if l is None:
                evaluated = False   # nothing to time out; no statement made about this tick
            elif now - l[3] >= ma:
                l[2] = True
            else:
                evaluated = False   # a message younger than max age exists: the tick is late
        elif kind == "sp":
            e = ev[idx]
            if e["succ"]:
                k, until = 0, None
            elif e["fail"] and prev != 0:
                if until is None or until <= now:
                    k = 1 if until is None else k + 1
                    until = now + min(2 ** (k - 1) * dmin, dmax)
                    stats["max_k"] = max(stats["max_k"], k)
        if sent is not None:
            if sent == status:
                out.append({"what": f"only-on-change: {NAMES[sent]} notified twice in a row (log entry {n})", "finding": None})
            status = sent
            notes.append(sent)
        good = all(latest[s] is not None and latest[s][0] and not latest[s][2] for s in ("bat", "inv"))
        # safety direction
        if status in (1, 2) and not good:
            bad = [s for s in ("bat", "inv") if not (latest[s] is not None and latest[s][0] and not latest[s][2])]
            out.append({"what": f"safe: reported {NAMES[status]} after log entry {n} although the latest {'/'.join(bad)} data "
                                f"do not prove the battery healthy", "finding": None})
        # full expected value whenever the tracker evaluated the status
        if evaluated:
            if not good:
                want = 0
            elif prev == 0:
                want = 2
                k, until = 0, None     # recovery resets the back-off
            else:
                want = 1 if (until is not None and until > now) else 2
            if status != want:
                tag = "uncertain" if 1 in (want, status) else ("immediate" if want == 0 else "recover")
                out.append({"what": f"{tag}: after log entry {n} ({kind} at {now} us) the reported status is {NAMES[status]}, "
                                    f"the statement requires {NAMES[want]} (streak {k}, blocked until {until})", "finding": None})
    # every stimulus must have been delivered exactly once, in order per channel
    for kind in ("bat", "inv", "sp"):
        got = [x[2] for x in obs["log"] if x[0] == kind]
        want = [i for i, e in enumerate(ev) if e["t"] == kind]
        if got != want and not delayed:
            out.append({"what": f"delivery: {kind} stimuli {want} but the tracker consumed {got}", "finding": None})
    # time-based reading: silence longer than the max data age => not working (needs a tracker that is
    # not held up by a blocked send, and component clocks not ahead of ours)
    if not delayed and not ahead:
        checkpoints = sorted(set(obs["sent_at"] + [obs["end"]]))
        for t in checkpoints:
            st = 0
            for kind, now, idx, sent in obs["log"]:
                if now < t and sent is not None:
                    st = sent
            if st == 0:
                continue
            for s in ("bat", "inv"):
                sent_before = [i for i, e in enumerate(ev) if e["t"] == s and obs["sent_at"][i] < t]
                if not sent_before:
                    out.append({"what": f"silence: {NAMES[st]} just before t={t} us although no {s} message was ever sent", "finding": None})
                    continue
                r = obs["sent_at"][sent_before[-1]]
                if t - r > ma:
                    out.append({"what": f"silence: {NAMES[st]} just before t={t} us although the last {s} message was sent at {r} us, "
                                        f"more than max data age ({ma} us) earlier", "finding": None})
                elif not healthy(ev[sent_before[-1]], case["cfg"]["max_age"])[0]:
                    out.append({"what": f"safe: {NAMES[st]} just before t={t} us although the last {s} message sent (#{sent_before[-1]}) is disqualifying", "finding": None})
    if stats_out is not None:
        stats_out.update(stats)
    return out


# ----------------------------------------------------------------------------- generation
def gen_bat(rng, ma, fault=None, ahead=False):
    e = {"t": "bat", "age": rng.choice([0, 0, 0, 1, 100, ma - 1, ma]), "state": rng.choice(sorted(ORACLE_BAT_STATES)),
         "relay": "CLOSED", "errors": rng.choice([[], [], [], ["WARN"], ["UNSPECIFIED", "WARN"]]), "cap": True}
    if ahead:
        e["age"] = -rng.choice([1, 500, 3000, ma, 2 * ma + 1])
    if fault == "stale":
        e["age"] = rng.choice([ma + 1, ma + 1000, 3 * ma])
    elif fault == "state":
        e["state"] = rng.choice([s for s in BAT_STATES if s not in ORACLE_BAT_STATES])
    elif fault == "relay":
        e["relay"] = rng.choice([s for s in BAT_RELAYS if s not in ORACLE_BAT_RELAYS])
    elif fault == "critical":
        e["errors"] = rng.choice([["CRITICAL"], ["WARN", "CRITICAL"], ["CRITICAL", "WARN"]])
    elif fault == "capacity":
        e["cap"] = False
    return e


def gen_inv(rng, ma, fault=None, ahead=False):
    e = {"t": "inv", "age": rng.choice([0, 0, 0, 1, 100, ma - 1, ma]), "state": rng.choice(sorted(ORACLE_INV_STATES)),
         "errors": rng.choice([[], [], [], ["WARN"], ["UNSPECIFIED", "WARN"]])}
    if ahead:
        e["age"] = -rng.choice([1, 500, 3000, ma, 2 * ma + 1])
    if fault == "stale":
        e["age"] = rng.choice([ma + 1, ma + 1000, 3 * ma])
    elif fault == "state":
        e["state"] = rng.choice([s for s in INV_STATES if s not in ORACLE_INV_STATES])
    elif fault == "critical":
        e["errors"] = rng.choice([["CRITICAL"], ["WARN", "CRITICAL"], ["CRITICAL", "WARN"]])
    return e


def gen_sp(rng):
    r = rng.random()
    if r < 0.55:
        return {"t": "sp", "succ": False, "fail": True}
    if r < 0.80:
        return {"t": "sp", "succ": True, "fail": False}
    if r < 0.93:
        return {"t": "sp", "succ": False, "fail": False}
    return {"t": "sp", "succ": True, "fail": True}


def gen_ladder(rng, maxlen=40):
    """Back-off focused word: data keep flowing, failures arrive when the previous block has
    (just) expired, probes (healthy data) are placed around the deadline the statement
    predicts for the k-th consecutive failure -- 3/4 d, d-1, d, d+1 -- so that a wrong
    growth law (or a missing reset) changes a notification."""
    ma = rng.choice([10000, 30000, 30000, 60000])
    dmax = rng.choice([1000, 3000, 8000, 30000, 30000, 30000])
    n = rng.randint(6, maxlen)
    ev = [{**gen_bat(rng, ma), "gap": 0, "age": 0}, {**gen_inv(rng, ma), "gap": rng.choice([0, 1, 10]), "age": 0}]
    k = 0
    which = 0
    while len(ev) < n:
        r = rng.random()
        if r < 0.70:
            k += 1
            d = min(2 ** (k - 1) * DMIN_MS, dmax)
            ev.append({"t": "sp", "succ": False, "fail": True, "gap": rng.choice([0, 1, 1, 500])})
            spent = 0
            for _ in range(rng.choice([1, 1, 2, 2, 3])):
                off = rng.choice([d - 1, d, d + 1, (3 * d) // 4, d // 2, d // 2 + 1])
                if off < spent:
                    continue
                mk = gen_bat if which == 0 else gen_inv
                which = 1 - which
                ev.append({**mk(rng, ma), "age": 0, "gap": off - spent})
                spent = off
            if spent < d and rng.random() < 0.85:       # let the block expire before the next failure
                mk = gen_bat if which == 0 else gen_inv
                which = 1 - which
                ev.append({**mk(rng, ma), "age": 0, "gap": d - spent + rng.choice([0, 0, 1])})
        elif r < 0.78:
            ev.append({"t": "sp", "succ": True, "fail": rng.random() < 0.2, "gap": rng.choice([0, 1, 300])})
            k = 0
        elif r < 0.86:   # a fault and the recovery: resets the back-off
            if rng.random() < 0.5:
                ev.append({**gen_bat(rng, ma, rng.choice(["stale", "state", "relay", "critical", "capacity"])), "gap": rng.choice([1, 100])})
                ev.append({**gen_bat(rng, ma), "age": 0, "gap": rng.choice([1, 100])})
            else:
                ev.append({**gen_inv(rng, ma, rng.choice(["stale", "state", "critical"])), "gap": rng.choice([1, 100])})
                ev.append({**gen_inv(rng, ma), "age": 0, "gap": rng.choice([1, 100])})
            k = 0
        elif r < 0.93:
            ev.append({"t": "sp", "succ": False, "fail": False, "gap": rng.choice([0, 1, 300])})
        else:
            ev.append({**gen_bat(rng, ma), "age": 0, "gap": rng.choice([1, 200])})
            ev.append({**gen_inv(rng, ma), "age": 0, "gap": rng.choice([0, 1, 200])})
    return {"cfg": {"max_age": ma, "dmax": dmax}, "events": ev[:maxlen], "tail": rng.choice([0, 1, ma + 1])}


def add_zones(rng, case):
    """Time-zone dimension: with some probability the components of this case stamp their messages
    in non-UTC zones (fixed offsets east / west, zoneinfo zones), and the run starts 30 s before a DST
    switch.  The instants are unchanged, so neither the model nor the oracle is affected."""
    r = rng.random()
    if r < 0.55:
        return case
    zb, zi = (rng.choice(ZONES[1:]), rng.choice(ZONES)) if r < 0.85 else (None, None)
    per_message = r >= 0.85
    for e in case["events"]:
        if e["t"] in ("bat", "inv"):
            z = rng.choice(ZONES) if per_message else (zb if e["t"] == "bat" else zi)
            if z:
                e["tz"] = z
    if rng.random() < 0.4:
        case["epoch"] = rng.choice([k for k in EPOCHS if k != "default"])
    return case


def gen_case(rng, maxlen=40):
    return add_zones(rng, gen_case_utc(rng, maxlen))


def gen_case_utc(rng, maxlen=40):
    if rng.random() < 0.35:
        return gen_ladder(rng, maxlen)
    ma = rng.choice([2000, 5000, 10000, 10000, 30000])
    dmax = rng.choice([1000, 3000, 8000, 30000, 30000])
    ahead = rng.random() < 0.06
    n = rng.randint(1, maxlen)
    p_fault = rng.choice([0.0, 0.1, 0.25])
    ev = []
    small = [0, 0, 1, 50, 200, 500, 999, 1000, 1001]
    if rng.random() < 0.8:   # usually start with a healthy pair so that interesting states are reached
        ev.append({**gen_bat(rng, ma), "gap": rng.choice(small)})
        ev.append({**gen_inv(rng, ma), "gap": rng.choice(small)})
        if rng.random() < 0.5:
            ev.reverse()
    while len(ev) < n:
        r = rng.random()
        gap = rng.choice(small + [2000, 4000, ma - 1, ma, ma + 1, 2 * ma + 500, ma // 2])
        fault_b = rng.choice(["stale", "state", "relay", "critical", "capacity"]) if rng.random() < p_fault else None
        fault_i = rng.choice(["stale", "state", "critical"]) if rng.random() < p_fault else None
        if r < 0.32:
            e = gen_bat(rng, ma, fault_b, ahead and rng.random() < 0.5)
        elif r < 0.64:
            e = gen_inv(rng, ma, fault_i, ahead and rng.random() < 0.5)
        elif r < 0.88:
            e = gen_sp(rng)
        else:
            e = {"t": "idle"}
            gap = rng.choice([ma + 1, 2 * ma + 500, 3 * ma, ma])
        e["gap"] = max(0, gap)
        ev.append(e)
    case = {"cfg": {"max_age": ma, "dmax": dmax}, "events": ev,
            "tail": rng.choice([0, 0, 1, ma - 1, ma, ma + 1, 2 * ma + 500])}
    if rng.random() < 0.15:
        # the k-th notification's send blocks: the tracker falls behind, timers and data queue up
        ks = sorted(set(rng.randrange(0, 6) for _ in range(rng.randint(1, 2))))
        case["send_delays"] = [[k, rng.choice([1, 500, ma - 1, ma, ma + 1, 2 * ma + 300])] for k in ks]
    return case


def _b(gap, **kw):
    return {"t": "bat", "gap": gap, "age": 0, "state": "CHARGING", "relay": "CLOSED", "errors": [], "cap": True, **kw}


def _i(gap, **kw):
    return {"t": "inv", "gap": gap, "age": 0, "state": "IDLE", "errors": [], **kw}


def _f(gap):
    return {"t": "sp", "gap": gap, "succ": False, "fail": True}


def _s(gap):
    return {"t": "sp", "gap": gap, "succ": True, "fail": False}


def boundary_cases():
    out = []
    C = {"max_age": 30000, "dmax": 30000}
    # full back-off ladder 1,2,4,8,16,30,30 with probes exactly at each deadline
    ev = [_b(0), _i(0)]
    d = 1000
    for _ in range(7):
        ev += [_f(1), _b(d - 1), _i(1)]      # probe 1 ms before the deadline (still UNCERTAIN), then at the deadline (WORKING)
        d = min(2 * d, 30000)
    out.append({"cfg": C, "events": ev[:40], "tail": 0})
    # success resets, recovery resets
    out.append({"cfg": C, "events": [_b(0), _i(0), _f(10), _f(1000), _s(10), _f(10), _b(999), _b(1), _f(0),
                                      _b(10, cap=False), _b(10), _f(10), _b(999), _b(1)], "tail": 0})
    # silence: each stream alone, exactly at / around the max age
    for g in (4999, 5000, 5001):
        out.append({"cfg": {"max_age": 5000, "dmax": 30000}, "events": [_b(0), _i(0), _b(g), _i(g)], "tail": 5001})
        out.append({"cfg": {"max_age": 5000, "dmax": 30000}, "events": [_b(0), _i(0), _i(g), _b(g), {"t": "idle", "gap": 20000}], "tail": 0})
    # each single fault kind on a working battery, then recovery
    for kw in ({"age": 5001}, {"state": "ERROR"}, {"relay": "OPENED"}, {"errors": ["WARN", "CRITICAL"]}, {"cap": False}):
        out.append({"cfg": {"max_age": 5000, "dmax": 30000}, "events": [_b(0), _i(0), _b(100, **kw), _b(100)], "tail": 100})
    for kw in ({"age": 5001}, {"state": "SWITCHING_OFF"}, {"errors": ["CRITICAL"]}):
        out.append({"cfg": {"max_age": 5000, "dmax": 30000}, "events": [_b(0), _i(0), _i(100, **kw), _i(100)], "tail": 100})
    # late timer: the first notification blocks past the data time-out while fresh data queue up
    out.append({"cfg": {"max_age": 5000, "dmax": 30000}, "events": [_b(0), _i(0), _b(4000), _i(0), _b(3000), _i(0)],
                "tail": 6000, "send_delays": [[0, 6000]]})
    out.append({"cfg": {"max_age": 5000, "dmax": 30000}, "events": [_b(0), _i(0), _f(100), _b(4900), _i(0)],
                "tail": 6000, "send_delays": [[1, 5000]]})
    # data arriving exactly when the timer fires
    out.append({"cfg": {"max_age": 5000, "dmax": 30000}, "events": [_b(0), _i(0), _b(5000), _i(0), _b(5000, age=5000), _i(0, age=4999)], "tail": 1})
    # healthy data stamped in non-UTC zones (same instants), then silence: must time out as in UTC
    for z in ("+05:30", "-08:00", "Europe/Berlin", "Australia/Lord_Howe"):
        out.append({"cfg": {"max_age": 5000, "dmax": 30000}, "events": [_b(0, tz=z), _i(0, tz=z), _b(1000, tz=z), _i(0, tz=z)], "tail": 12000})
    out.append({"cfg": {"max_age": 30000, "dmax": 30000}, "epoch": "berlin_autumn",
                "events": [_b(0, tz="Europe/Berlin"), _i(0, tz="Europe/Berlin"), _b(29000, tz="Europe/Berlin"), _i(0, tz="Europe/Berlin"),
                           _b(29000, tz="Europe/Berlin"), _i(0, tz="Europe/Berlin", age=29000)], "tail": 31000})
    # component clock ahead of ours (observation: the late-timer filter ignores the real time-out)
    out.append({"cfg": {"max_age": 5000, "dmax": 30000}, "events": [_b(0, age=-3000), _i(0, age=-3000)], "tail": 12000})
    return out


def exhaustive_words(maxlen):
    """Every word of length <= maxlen over a 7-letter alphabet, 600 ms apart, max age 2 s,
    d_max 2 s: healthy / faulty battery message, healthy / faulty inverter message, failed /
    succeeded set-power, silence of max age + 1 ms."""
    import itertools
    letters = [
        lambda: _b(600), lambda: _b(600, relay="OPENED"), lambda: _i(600), lambda: _i(600, errors=["CRITICAL"]),
        lambda: _f(600), lambda: _s(600), lambda: {"t": "idle", "gap": 2001},
    ]
    for n in range(1, maxlen + 1):
        for w in itertools.product(range(len(letters)), repeat=n):
            yield {"cfg": {"max_age": 2000, "dmax": 2000}, "events": [letters[k]() for k in w], "tail": 0}


def shrink_case(case):
    ev = case["events"]
    if case.get("send_delays"):
        yield {k: v for k, v in case.items() if k != "send_delays"}
    for i in range(len(ev)):
        rest = ev[:i] + ev[i + 1:]
        if i + 1 < len(ev):   # keep the absolute times of the later events
            rest = ev[:i] + [{**ev[i + 1], "gap": ev[i + 1]["gap"] + ev[i]["gap"]}] + ev[i + 2:]
        yield {**case, "events": rest}
    for i in range(len(ev)):
        yield {**case, "events": ev[:i] + ev[i + 1:]}
    if case.get("tail"):
        yield {**case, "tail": 0}
    if case.get("epoch"):
        yield {k: v for k, v in case.items() if k != "epoch"}
    if any(e.get("tz") for e in ev):
        yield {**case, "events": [{k: v for k, v in e.items() if k != "tz"} for e in ev]}
    for i, e in enumerate(ev):
        if e.get("tz"):
            yield {**case, "events": ev[:i] + [{k: v for k, v in e.items() if k != "tz"}] + ev[i + 1:]}
        if e["gap"] > 0:
            for g in (0, e["gap"] // 2):
                if g != e["gap"]:
                    yield {**case, "events": ev[:i] + [{**e, "gap": g}] + ev[i + 1:]}
        if e["t"] in ("bat", "inv"):
            if e["errors"] and e["errors"] != ["CRITICAL"]:
                yield {**case, "events": ev[:i] + [{**e, "errors": ["CRITICAL"] if "CRITICAL" in e["errors"] else []}] + ev[i + 1:]}
            if e["age"] not in (0,):
                yield {**case, "events": ev[:i] + [{**e, "age": 0}] + ev[i + 1:]}


class TrackerStream(Stream):
    name = "tracker"
    coq_header = TRACKER_HEADER
    n_quick = 700
    n_thorough = 15000

    def gen(self, rng, tier):
        yield from boundary_cases()
        n = self.n_quick if tier == "quick" else self.n_thorough
        for _ in range(n):
            yield gen_case(rng, 40 if rng.random() < 0.6 else 12)
        if tier == "thorough":
            yield from exhaustive_words(5)

    def run_impl(self, case):
        return run_tracker(case)

    def to_coq(self, case, obs):
        return tracker_term(case, obs)

    def show_term(self, case, obs):
        tr = "[" + "; ".join(c_event(case, x, obs) for x in obs["log"]) + "]"
        cf = f"(mkC {cZ(case['cfg']['max_age'] * 1000)} min_blocking_duration_us {cZ(case['cfg']['dmax'] * 1000)})"
        return f"out_codes (outputs {cf} (init {cf} {cZ(obs['ts0'])}) {tr})"

    def oracle(self, case, obs):
        return judge_tracker(case, obs)

    def shrink(self, case):
        return shrink_case(case)

    def key(self, case, obs):
        if not any(x[3] is not None for x in obs["log"]):
            return None
        return json.dumps([case["cfg"], [x[:2] + [x[3]] for x in obs["log"]],
                           [{k: v for k, v in e.items() if k != "gap"} for e in case["events"]]], sort_keys=True)

    def labels(self, case, obs):
        out = [f"len={min(40, (len(case['events']) + 4) // 5 * 5)}"]
        ma = case["cfg"]["max_age"]
        for e in case["events"]:
            if e["t"] in ("bat", "inv"):
                ok, why = healthy(e, ma)
                out.append(f"{e['t']}_{'healthy' if ok else 'fault_' + why}")
                if e["age"] < 0:
                    out.append("clock_ahead")
                if e.get("tz"):
                    out.append("tz_fixed_east" if e["tz"][0] == "+" else "tz_fixed_west" if e["tz"][0] == "-" else "tz_zoneinfo")
            elif e["t"] == "sp":
                out.append("sp_" + ("both" if e["succ"] and e["fail"] else "succeeded" if e["succ"] else "failed" if e["fail"] else "not_mentioned"))
            if e["gap"] > ma:
                out.append("silence_gt_max_age")
        if case.get("send_delays"):
            out.append("blocked_send")
        if case.get("epoch"):
            out.append("epoch_dst_switch")
        log = obs["log"]
        for kind, now, idx, sent in log:
            if sent is not None:
                out.append("notify_" + NAMES[sent])
        # timer events: effective vs ignored-as-late, judged from the recorded trace
        last_ts = {"bt": None, "it": None}
        for kind, now, idx, sent in log:
            if kind in ("bat", "inv"):
                last_ts["bt" if kind == "bat" else "it"] = obs["sent_at"][idx] - case["events"][idx]["age"] * 1000
            elif kind in ("bt", "it") and last_ts[kind] is not None:
                out.append("timer_late_ignored" if now - last_ts[kind] < ma * 1000 else "timer_effective")
        times = [x[1] for x in log]
        if len(times) != len(set(times)):
            out.append("coincident_events")
        stats = {}
        judge_tracker(case, obs, stats)
        out.append(f"backoff_depth={min(stats['max_k'], 6)}")
        return out


# ============================================================================= BlockingStatus stream
BLOCK_HEADER = """From Verif Require Import model.BatteryStatus.
Open Scope Z_scope.
(* op: 0 = block, 1 = unblock, 2 = is_blocked; expected result: block -> returned duration,
   unblock -> 0, is_blocked -> 0/1; then the final (last_blocking_duration, blocked_until) *)
Fixpoint brun (c : cfg) (b : blocking) (ops : list (Z * Z)) : blocking * list Z :=
  match ops with
  | [] => (b, [])
  | (op, now) :: r =>
      let '(b1, res) := if op =? 0 then block c now b
                        else if op =? 1 then (unblock b, 0)
                        else (b, if is_blocked now b then 1 else 0) in
      let '(b2, rs) := brun c b1 r in (b2, res :: rs)
  end.
Definition case_t : Type := ((Z * Z) * list (Z * Z) * list Z * (Z * option Z))%type.
Definition check (x : case_t) : bool :=
  let '(cf, ops, exp, fin) := x in
  let c := mkC 0 (fst cf) (snd cf) in
  let '(b, rs) := brun c (blocking_init c) ops in
  listZ_eqb rs exp && Z.eqb (b_last b) (fst fin) && optZ_eqb (b_until b) (snd fin).
"""


def run_blocking(case):
    I = _imports()
    us = timedelta(microseconds=1)
    res = []
    with I["tm"].travel(BASE, tick=False) as tr:
        b = I["BlockingStatus"](min_duration=timedelta(milliseconds=case["dmin"]), max_duration=timedelta(milliseconds=case["dmax"]))
        for op, t in case["ops"]:
            tr.move_to(BASE + timedelta(milliseconds=t))
            if op == 0:
                res.append(b.block() // us)
            elif op == 1:
                b.unblock()
                res.append(0)
            else:
                res.append(1 if b.is_blocked() else 0)
        until = None if b.blocked_until is None else (b.blocked_until - BASE) // us
        return {"res": res, "last": b.last_blocking_duration // us, "until": until}


def judge_blocking(case, obs):
    """Closed form: the k-th consecutive effective block lasts min(2^(k-1) d_min, d_max)."""
    out = []
    dmin, dmax = case["dmin"] * 1000, case["dmax"] * 1000
    k, until = 0, None
    for n, ((op, t), r) in enumerate(zip(case["ops"], obs["res"])):
        now = t * 1000
        if op == 0:
            if until is not None and until > now:
                want = 0
            else:
                k = 1 if until is None else k + 1
                want = min(2 ** (k - 1) * dmin, dmax)
                until = now + want
        elif op == 1:
            k, until, want = 0, None, 0
        else:
            want = 1 if (until is not None and until > now) else 0
        if r != want:
            out.append({"what": f"backoff: op #{n} {('block', 'unblock', 'is_blocked')[op]} at {now} us returned {r}, the statement requires {want}", "finding": None})
            break
    return out


def gen_blocking(rng):
    dmin = rng.choice([1, 500, 1000, 1000, 1000, 3000])
    dmax = dmin * rng.choice([1, 2, 3, 5, 8, 30, 30, 1000])
    t = rng.randrange(0, 5000)
    ops = []
    d = dmin
    for _ in range(rng.randint(1, 30)):
        r = rng.random()
        op = 0 if r < 0.55 else 1 if r < 0.65 else 2
        ops.append([op, t])
        if op == 0:
            d = min(2 * d, dmax) if rng.random() < 0.7 else d
        if op == 1:
            d = dmin
        t += rng.choice([0, 1, d - 1, d, d + 1, d // 2, 2 * d, dmin, 7])
        if rng.random() < 0.03:
            t = max(0, t - rng.choice([1, d, 10 * d]))   # wall clock stepping back
    return {"dmin": dmin, "dmax": dmax, "ops": ops}


class BlockingStream(Stream):
    name = "blocking"
    coq_header = BLOCK_HEADER

    def gen(self, rng, tier):
        yield {"dmin": 1000, "dmax": 30000, "ops": [[0, 0], [2, 999], [2, 1000], [0, 1000], [2, 2999], [0, 3000], [0, 7000], [0, 15000],
                                                   [0, 31000], [0, 61000], [2, 90999], [2, 91000], [1, 91000], [0, 91000], [2, 91999]]}
        for _ in range(400 if tier == "quick" else 6000):
            yield gen_blocking(rng)

    def run_impl(self, case):
        return run_blocking(case)

    def to_coq(self, case, obs):
        ops = "[" + "; ".join(f"({op}, {cZ(t * 1000)})" for op, t in case["ops"]) + "]"
        return (f"((({cZ(case['dmin'] * 1000)}, {cZ(case['dmax'] * 1000)}), {ops}, {clist(obs['res'])}, "
                f"({cZ(obs['last'])}, {copt(obs['until'])})) : case_t)")

    def oracle(self, case, obs):
        return judge_blocking(case, obs)

    def shrink(self, case):
        ops = case["ops"]
        for i in range(len(ops)):
            yield {**case, "ops": ops[:i] + ops[i + 1:]}

    def key(self, case, obs):
        if not any(op == 0 for op, _ in case["ops"]):
            return None
        return json.dumps(case, sort_keys=True)

    def labels(self, case, obs):
        depth = 0
        out = []
        for (op, _), r in zip(case["ops"], obs["res"]):
            if op == 0 and r > 0:
                out.append("block_effective")
                if r == case["dmax"] * 1000 and case["dmax"] > case["dmin"]:
                    out.append("block_at_max")
            elif op == 0:
                out.append("block_while_blocked")
        return out


# ============================================================================= pool stream
POOL_HEADER = """From Verif Require Import model.BatteryStatus.
Open Scope Z_scope.
Definition st_of (z : Z) : status := if z =? 0 then NotWorking else if z =? 1 then Uncertain else Working.
Fixpoint prun (p : pool) (ms : list (Z * Z)) : list (list Z * list Z) :=
  match ms with
  | [] => []
  | (id, v) :: r => let q := pool_update p id (st_of v) in
                    (sort_z (p_working q), sort_z (p_uncertain q)) :: prun q r
  end.
Definition case_t : Type := (list (Z * Z) * list (list Z * list Z) * list (list Z * list Z))%type.
Definition check (x : case_t) : bool :=
  let '(ms, snaps, qs) := x in
  list_eqb (pair_eqb listZ_eqb listZ_eqb) (prun pool_init ms) snaps &&
  let fin := pool_run pool_init (map (fun m => (fst m, st_of (snd m))) ms) in
  forallb (fun q => listZ_eqb (sort_z (get_working_components fin (fst q))) (snd q)) qs.
"""


def run_pool(case):
    """The real ComponentPoolStatusTracker fed by scripted per-component trackers."""
    I = _imports()
    registry = {}

    class Scripted(I["ComponentStatusTracker"], I["BackgroundService"]):
        def __init__(self, component_id, max_data_age, max_blocking_duration, status_sender, set_power_result_receiver):
            I["BackgroundService"].__init__(self, name=f"scripted{component_id}")
            registry[component_id] = status_sender

        def start(self):
            pass

    values = {0: I["Enum"].NOT_WORKING, 1: I["Enum"].UNCERTAIN, 2: I["Enum"].WORKING}

    async def drive(loop):
        ch = I["Broadcast"](name="pool")
        rx = ch.new_receiver(limit=500)
        pt = I["PoolTracker"](component_ids=set(case["ids"]), component_status_sender=ch.new_sender(),
                              max_data_age=timedelta(seconds=10), max_blocking_duration=timedelta(seconds=30),
                              component_status_tracker_type=Scripted)
        await asyncio.sleep(0.001)
        snaps = []
        for cid, v in case["msgs"]:
            await registry[cid].send(I["ComponentStatus"](cid, values[v]))
            await asyncio.sleep(0.001)
            cur = pt._current_status  # pylint: disable=protected-access
            got = await asyncio.wait_for(rx.receive(), 1.0)
            assert got is cur
            snaps.append([sorted(got.working), sorted(got.uncertain)])
        qs = [sorted(pt.get_working_components(set(q))) for q in case["queries"]]
        direct = I["ComponentPoolStatus"](working=set(cur.working), uncertain=set(cur.uncertain)) if case["msgs"] else I["ComponentPoolStatus"](working=set(), uncertain=set())
        qs2 = [sorted(direct.get_working_components(frozenset(q))) for q in case["queries"]]
        assert qs == qs2
        await pt.stop()
        return {"snaps": snaps, "queries": qs}

    return run_virtual(drive)


def judge_pool(case, obs):
    out = []
    last = {}
    for (cid, v), (w, u) in zip(case["msgs"], obs["snaps"]):
        last[cid] = v
        if sorted(c for c, s in last.items() if s == 2) != w or sorted(c for c, s in last.items() if s == 1) != u:
            out.append({"what": f"pool: working/uncertain sets {w}/{u} do not reflect the latest statuses {sorted(last.items())}", "finding": None})
            break
    for q, res in zip(case["queries"], obs["queries"]):
        working = sorted(c for c in q if last.get(c) == 2)
        uncertain = sorted(c for c in q if last.get(c) == 1)
        want = working if working else uncertain
        if res != want:
            out.append({"what": f"pool: get_working_components({q}) = {res}; latest statuses {sorted(last.items())} require {want} "
                                f"(uncertain components only when no working one is available, never a not-working one)", "finding": None})
    return out


def gen_pool(rng):
    ids = sorted(rng.sample(range(1, 12), rng.randint(1, 6)))
    msgs = [[rng.choice(ids), rng.choice([0, 1, 1, 2, 2])] for _ in range(rng.randint(0, 14))]
    queries = [sorted(rng.sample(range(1, 14), rng.randint(0, 6))) for _ in range(4)] + [ids]
    return {"ids": ids, "msgs": msgs, "queries": queries}


class PoolStream(Stream):
    name = "pool"
    coq_header = POOL_HEADER

    def gen(self, rng, tier):
        for _ in range(150 if tier == "quick" else 3000):
            yield gen_pool(rng)

    def run_impl(self, case):
        return run_pool(case)

    def to_coq(self, case, obs):
        ms = "[" + "; ".join(f"({cZ(c)}, {cZ(v)})" for c, v in case["msgs"]) + "]"
        snaps = "[" + "; ".join(f"({clist(w)}, {clist(u)})" for w, u in obs["snaps"]) + "]"
        qs = "[" + "; ".join(f"({clist(q)}, {clist(r)})" for q, r in zip(case["queries"], obs["queries"])) + "]"
        return f"(({ms}, {snaps}, {qs}) : case_t)"

    def oracle(self, case, obs):
        return judge_pool(case, obs)

    def shrink(self, case):
        for i in range(len(case["msgs"])):
            yield {**case, "msgs": case["msgs"][:i] + case["msgs"][i + 1:]}
        for q in case["queries"]:
            yield {**case, "queries": [q]}

    def key(self, case, obs):
        if not case["msgs"]:
            return None
        return json.dumps(case, sort_keys=True)

    def labels(self, case, obs):
        out = []
        for q, res in zip(case["queries"], obs["queries"]):
            snap = obs["snaps"][-1] if obs["snaps"] else [[], []]
            if res and set(res) <= set(snap[1]):
                out.append("query_fallback_uncertain")
            elif res:
                out.append("query_working")
            else:
                out.append("query_empty")
        return out


# ============================================================================= end-to-end stream
# The real ComponentPoolStatusTracker creates the real BatteryStatusTrackers (as the battery
# manager does): constructor wiring pool -> tracker (max_data_age, max_blocking_duration, the
# per-tracker receiver of the shared set-power-result channel, the per-tracker status channel
# merged into the pool status) is exercised.  Every expectation is computed from the values
# GIVEN TO THE POOL.
E2E_HEADER = """From Verif Require Import model.BatteryStatus.
Open Scope string_scope.
Open Scope Z_scope.
""" + NAMES_HEADER + """
(* the notifications of one history with the instant each was sent at *)
Fixpoint timed_notes (tr : trace) (os : list (option status)) : list (Z * status) :=
  match tr, os with
  | (now, _) :: tr', o :: os' =>
      match o with
      | Some s => (now, s) :: timed_notes tr' os'
      | None => timed_notes tr' os'
      end
  | _, _ => []
  end.
(* case: (max_data_age, max_blocking_duration) given to the POOL, initial last_msg_timestamp,
   per battery (id, recorded boundary events, notification sent while handling each),
   pool status in force after each instant (t, working, uncertain), final queries *)
Definition case_t : Type :=
  ((Z * Z) * Z * list (Z * list (Z * event) * list (option Z)) * list (Z * list Z * list Z)
   * list (list Z * list Z))%type.
Definition check (c : case_t) : bool :=
  let '(cf, ts0, bats, snaps, qs) := c in
  let cfg := mkC (fst cf) min_blocking_duration_us (snd cf) in
  (* the model is run once per battery *)
  let ran := map (fun b => let '(id, tr, exp) := b in (id, tr, outputs cfg (init cfg ts0) tr, exp)) bats in
  forallb (fun b => let '(id, tr, os, exp) := b in list_eqb optZ_eqb (out_codes os) exp) ran &&
  (* all notifications of all batteries with their instants; per battery in order *)
  let notes := flat_map (fun b => let '(id, tr, os, _) := b in
                           map (fun x => (fst x, (id, snd x))) (timed_notes tr os)) ran in
  let pool_at := fun t => pool_run pool_init (map snd (filter (fun x => fst x <=? t) notes)) in
  forallb (fun sn => let '(t, w, u) := sn in
             let p := pool_at t in
             listZ_eqb (sort_z (p_working p)) w && listZ_eqb (sort_z (p_uncertain p)) u) snaps &&
  forallb (fun q => listZ_eqb (sort_z (get_working_components (pool_at 4000000000000000) (fst q))) (snd q)) qs.
"""


def sub_case(case, bid):
    """The history of one battery as a single-tracker case (indices = positions in this list)."""
    ev = []
    for e in case["events"]:
        if e["t"] in ("bat", "inv") and e["b"] == bid:
            ev.append({k: v for k, v in e.items() if k != "b"})
        elif e["t"] == "sp":
            ev.append({"t": "sp", "gap": e["gap"], "succ": bid in e["succ"], "fail": bid in e["fail"]})
    return {"cfg": case["cfg"], "events": ev, "tail": case.get("tail", 0)}


def run_e2e(case):
    I = _imports()
    Receiver = I["Receiver"]
    codes = {I["Enum"].NOT_WORKING: 0, I["Enum"].UNCERTAIN: 1, I["Enum"].WORKING: 2}
    bats = case["bats"]
    inv_of = {b: b - 1 for b in bats}
    logs = {b: [] for b in bats}
    index_of = {b: {} for b in bats}
    sent_at = {b: [] for b in bats}
    pool_log = []

    async def drive(loop):
        class Rec(Receiver):
            def __init__(self, inner, kind, log, idx=None):
                self.inner, self.kind, self.log, self.idx = inner, kind, log, idx

            async def ready(self):
                return await self.inner.ready()

            def consume(self):
                i = None
                try:
                    msg = self.inner.consume()
                    if self.idx is not None:
                        i = self.idx.get(id(msg))
                    return msg
                finally:
                    self.log.append([self.kind, _now_us(loop), i, None])

            def reset(self, **kw):
                return self.inner.reset(**kw)

            def close(self):
                self.inner.close()

        class Forward:
            """Records the notification, then hands it to the sender the pool created."""

            def __init__(self, inner, bid):
                self.inner, self.bid = inner, bid

            async def send(self, msg):
                log = logs[self.bid]
                assert msg.component_id == self.bid, "tracker notifies under a foreign component id"
                assert log and log[-1][3] is None
                log[-1][3] = codes[msg.value]
                await self.inner.send(msg)

        chans = {}
        rx = {}
        for b in bats:
            chans[("bat", b)] = I["Broadcast"](name=f"bat{b}")
            chans[("inv", b)] = I["Broadcast"](name=f"inv{b}")
            rx[("bat", b)] = Rec(chans[("bat", b)].new_receiver(limit=500), "bat", logs[b], index_of[b])
            rx[("inv", b)] = Rec(chans[("inv", b)].new_receiver(limit=500), "inv", logs[b], index_of[b])

        async def battery_data(cid):
            return rx[("bat", cid)]

        async def inverter_data(cid):
            return rx[("inv", {v: k for k, v in inv_of.items()}[cid])]

        graph = SimpleNamespace(predecessors=lambda bid: [
            SimpleNamespace(component_id=bid + 1000, category=I["cm"].ComponentCategory.METER),
            SimpleNamespace(component_id=inv_of[bid], category=I["cm"].ComponentCategory.INVERTER)])
        cmgr = I["connection_manager"]
        saved = cmgr._CONNECTION_MANAGER  # pylint: disable=protected-access
        cmgr._CONNECTION_MANAGER = SimpleNamespace(component_graph=graph, api_client=SimpleNamespace(battery_data=battery_data, inverter_data=inverter_data))
        try:
            pool_ch = I["Broadcast"](name="pool")
            pool_rx = pool_ch.new_receiver(limit=2000)
            pt = I["PoolTracker"](component_ids=set(bats), component_status_sender=pool_ch.new_sender(),
                                  max_data_age=timedelta(milliseconds=case["cfg"]["max_age"]),
                                  max_blocking_duration=timedelta(milliseconds=case["cfg"]["dmax"]),
                                  component_status_tracker_type=I["Tracker"])
            # probes, installed before the pool's task (which starts the trackers) has run
            trackers = {t.battery_id: t for t in pt._component_status_trackers}  # pylint: disable=protected-access
            assert sorted(trackers) == sorted(bats)
            ts0 = None
            for b, t in trackers.items():
                ts0 = t._battery.last_msg_timestamp  # pylint: disable=protected-access
                t._battery.data_recv_timer = Rec(t._battery.data_recv_timer, "bt", logs[b])  # pylint: disable=protected-access
                t._inverter.data_recv_timer = Rec(t._inverter.data_recv_timer, "it", logs[b])  # pylint: disable=protected-access
                t._set_power_result_receiver = Rec(t._set_power_result_receiver, "sp", logs[b], index_of[b])  # pylint: disable=protected-access
                t._status_sender = Forward(t._status_sender, b)  # pylint: disable=protected-access

            async def watch_pool():
                async for st in pool_rx:
                    pool_log.append([_now_us(loop), sorted(st.working), sorted(st.uncertain)])
            watcher = asyncio.create_task(watch_pool())
            tx = {k: ch.new_sender() for k, ch in chans.items()}
            keep = []
            n_stim = {b: 0 for b in bats}
            for e in case["events"]:
                await asyncio.sleep(e["gap"] / 1000)
                now = _now_us(loop)
                if e["t"] in ("bat", "inv"):
                    b = e["b"]
                    m = mk_battery(e, now, b) if e["t"] == "bat" else mk_inverter(e, now, inv_of[b])
                    keep.append(m)
                    index_of[b][id(m)] = len(sent_at[b])
                    sent_at[b].append(now)
                    n_stim[b] += 1
                    await tx[(e["t"], b)].send(m)
                elif e["t"] == "sp":
                    succ, fail = set(e["succ"]), set(e["fail"])
                    # the Broadcast hands the same object to every tracker: index it per battery
                    sender = pt._set_power_result_sender  # pylint: disable=protected-access
                    m = I["SetPowerResult"](succeeded=succ, failed=fail)
                    keep.append(m)
                    for b in bats:
                        index_of[b][id(m)] = len(sent_at[b])
                        sent_at[b].append(now)
                        n_stim[b] += 1
                    if e.get("via", "api") == "api":
                        # the public entry point builds its own message: remember it by interception
                        orig = sender.send

                        async def send(msg, _orig=orig):
                            keep.append(msg)
                            for bb in bats:
                                index_of[bb][id(msg)] = index_of[bb][id(m)]
                            await _orig(msg)
                        sender.send = send
                        try:
                            await pt.update_status(succ, fail)
                        finally:
                            del sender.send
                    else:
                        await sender.send(m)
            await asyncio.sleep(case.get("tail", 0) / 1000)
            for it in range(1500):
                await asyncio.sleep(0)
                if it >= 20 and all(sum(1 for x in logs[b] if x[0] in ("bat", "inv", "sp")) == n_stim[b] for b in bats) \
                        and len(pool_log) == sum(1 for b in bats for x in logs[b] if x[3] is not None):
                    break
            end = _now_us(loop)
            queries = [sorted(pt.get_working_components(set(q))) for q in case["queries"]]
            watcher.cancel()
            await pt.stop()
            ts0_us = (ts0 - _CUR["base"]) // timedelta(microseconds=1)
            return {"per": {str(b): {"log": [list(x) for x in logs[b]], "sent_at": sent_at[b], "end": end, "ts0": ts0_us} for b in bats},
                    "pool": pool_log, "queries": queries, "end": end, "ts0": ts0_us}
        finally:
            cmgr._CONNECTION_MANAGER = saved  # pylint: disable=protected-access

    return run_virtual(drive, case.get("epoch"))


def snapshots_by_instant(obs):
    last = {}
    for t, w, u in obs["pool"]:
        last[t] = [w, u]
    return [[t, w, u] for t, (w, u) in sorted(last.items())]


def judge_e2e(case, obs):
    out = []
    n_notes = 0
    notes = []   # (time, battery, status)
    for b in case["bats"]:
        sc, so = sub_case(case, b), obs["per"][str(b)]
        for v in judge_tracker(sc, so):
            out.append({"what": v["what"].split(":")[0] + f": [battery {b} of a pool created with max_data_age={case['cfg']['max_age']} ms, "
                                f"max_blocking_duration={case['cfg']['dmax']} ms]" + v["what"].split(":", 1)[1], "finding": None})
        for kind, now, idx, sent in so["log"]:
            if sent is not None:
                notes.append((now, b, sent))
                n_notes += 1
    if len(obs["pool"]) != n_notes:
        out.append({"what": f"pool: {n_notes} tracker notifications but {len(obs['pool'])} pool status messages", "finding": None})
    for t, w, u in snapshots_by_instant(obs):
        latest = {}
        for now, b, s in sorted(notes, key=lambda x: x[0]):   # stable: per battery in log order
            if now <= t:
                latest[b] = s
        ww = sorted(b for b, s in latest.items() if s == 2)
        uu = sorted(b for b, s in latest.items() if s == 1)
        if (ww, uu) != (w, u):
            out.append({"what": f"pool: at t={t} us the pool reports working={w} uncertain={u}; the trackers' latest notifications give {ww}/{uu}", "finding": None})
            break
    latest = {}
    for now, b, s in sorted(notes, key=lambda x: x[0]):
        latest[b] = s
    for q, res in zip(case["queries"], obs["queries"]):
        working = sorted(c for c in q if latest.get(c) == 2)
        uncertain = sorted(c for c in q if latest.get(c) == 1)
        want = working if working else uncertain
        if res != want:
            out.append({"what": f"pool: get_working_components({q}) = {res}; latest statuses {sorted(latest.items())} require {want}", "finding": None})
    return out


def e2e_term(case, obs):
    bats = []
    for b in case["bats"]:
        sc, so = sub_case(case, b), obs["per"][str(b)]
        tr = "[" + "; ".join(c_event(sc, x, so) for x in so["log"]) + "]"
        exp = clist([x[3] for x in so["log"]], copt)
        bats.append(f"({cZ(b)}, {tr}, {exp})")
    snaps = "[" + "; ".join(f"({cZ(t)}, {clist(w)}, {clist(u)})" for t, w, u in snapshots_by_instant(obs)) + "]"
    qs = "[" + "; ".join(f"({clist(q)}, {clist(r)})" for q, r in zip(case["queries"], obs["queries"])) + "]"
    return (f"((({cZ(case['cfg']['max_age'] * 1000)}, {cZ(case['cfg']['dmax'] * 1000)}), {cZ(obs['ts0'])}, "
            f"[{'; '.join(bats)}], {snaps}, {qs}) : case_t)")


def _all_healthy(rng, bats, ma, gap):
    ev = []
    for b in bats:
        ev.append({**gen_bat(rng, ma), "age": 0, "b": b, "gap": gap})
        gap = 0
        ev.append({**gen_inv(rng, ma), "age": 0, "b": b, "gap": 0})
    return ev


def gen_e2e_ladder(rng):
    """Long failure ladder on one battery of a pool, healthy data for every battery throughout
    (heartbeats well inside max_data_age), probes around each predicted deadline; max_data_age
    and max_blocking_duration drawn independently and away from the defaults."""
    ma = rng.choice([4000, 7000, 12000, 21000, 45000])
    dmax = rng.choice([2000, 3000, 5000, 9000, 20000, 40000])
    bats = rng.choice([[9, 19], [9, 19], [9, 19, 29], [9]])
    target = rng.choice(bats)
    others = [b for b in bats if b != target]
    ev = _all_healthy(rng, bats, ma, 0)
    hb = max(500, ma // 2 - 1)
    k = 0
    for _ in range(rng.randint(4, 7)):
        k += 1
        d = min(2 ** (k - 1) * DMIN_MS, dmax)
        fail = [target] + ([rng.choice(others)] if others and rng.random() < 0.15 else [])
        succ = [b for b in others if b not in fail and rng.random() < 0.5]
        ev.append({"t": "sp", "succ": sorted(succ), "fail": sorted(fail), "gap": rng.choice([1, 1, 200]), "via": rng.choice(["api", "api", "raw"])})
        offs = sorted(set([d] + rng.sample([d - 1, d + 1, (3 * d) // 4, d // 2 + 1], 2) + list(range(hb, d, hb))))
        spent = 0
        for off in offs:
            if off <= spent:
                continue
            ev += _all_healthy(rng, bats, ma, off - spent)
            spent = off
        if rng.random() < 0.08:
            ev.append({"t": "sp", "succ": [target], "fail": [], "gap": 1, "via": "api"})
            k = 0
    queries = [bats, [target], others, [b for b in bats if rng.random() < 0.5] + [77]]
    return add_zones(rng, {"cfg": {"max_age": ma, "dmax": dmax}, "bats": bats, "events": ev, "tail": rng.choice([0, 1, ma + 1]),
                           "queries": [sorted(q) for q in queries]})


def gen_e2e_random(rng):
    """A random single-tracker word spread over the batteries of a pool."""
    while True:
        c = gen_case(rng, 40)
        if not c.get("send_delays"):
            break
    ma = c["cfg"]["max_age"]
    bats = rng.choice([[9, 19], [9, 19, 29]])
    ev = _all_healthy(rng, bats, ma, 0) if rng.random() < 0.6 else []
    for e in c["events"]:
        if e["t"] in ("bat", "inv"):
            ev.append({**e, "b": rng.choice(bats)})
        elif e["t"] == "sp":
            fail = [b for b in bats if rng.random() < 0.4]
            succ = [b for b in bats if rng.random() < 0.25]
            ev.append({"t": "sp", "gap": e["gap"], "succ": succ, "fail": fail, "via": rng.choice(["api", "raw"])})
        else:
            ev.append(dict(e))
    return {"cfg": {"max_age": ma, "dmax": rng.choice([2000, 5000, 9000, 40000])}, "bats": bats, "events": ev, "tail": c["tail"],
            "queries": [bats, bats[:1], bats[1:] + [77]]}


class E2EStream(Stream):
    name = "e2e"
    coq_header = E2E_HEADER

    def gen(self, rng, tier):
        n = 120 if tier == "quick" else 2500
        for i in range(n):
            yield gen_e2e_ladder(rng) if i % 3 != 2 else gen_e2e_random(rng)

    def run_impl(self, case):
        return run_e2e(case)

    def to_coq(self, case, obs):
        return e2e_term(case, obs)

    def oracle(self, case, obs):
        return judge_e2e(case, obs)

    def shrink(self, case):
        ev = case["events"]
        if len(case["bats"]) > 1:
            for b in case["bats"]:
                keep = [x for x in case["bats"] if x != b]
                evs = []
                carry = 0
                for e in ev:
                    if e["t"] in ("bat", "inv") and e["b"] == b:
                        carry += e["gap"]
                        continue
                    e2 = {**e, "gap": e["gap"] + carry}
                    carry = 0
                    if e["t"] == "sp":
                        e2["succ"] = [x for x in e["succ"] if x != b]
                        e2["fail"] = [x for x in e["fail"] if x != b]
                    evs.append(e2)
                yield {**case, "bats": keep, "events": evs, "queries": [[x for x in q if x != b] for q in case["queries"]]}
        for i in range(len(ev) - 1, -1, -1):     # drop from the end first: ladders shrink to their shortest failing prefix
            if i + 1 < len(ev):
                yield {**case, "events": ev[:i] + [{**ev[i + 1], "gap": ev[i + 1]["gap"] + ev[i]["gap"]}] + ev[i + 2:]}
            else:
                yield {**case, "events": ev[:i]}
        if case.get("tail"):
            yield {**case, "tail": 0}

    def key(self, case, obs):
        if not obs["pool"]:
            return None
        return json.dumps([case["cfg"], case["bats"], [[k, v["log"]] for k, v in sorted(obs["per"].items())]], sort_keys=True)

    def labels(self, case, obs):
        out = [f"batteries={len(case['bats'])}", "dmax_lt_max_age" if case["cfg"]["dmax"] < case["cfg"]["max_age"] else
               "dmax_gt_max_age" if case["cfg"]["dmax"] > case["cfg"]["max_age"] else "dmax_eq_max_age"]
        for b in case["bats"]:
            stats = {}
            judge_tracker(sub_case(case, b), obs["per"][str(b)], stats)
            out.append(f"backoff_depth={min(stats['max_k'], 7)}")
        if any(e["t"] == "sp" and len(e["fail"]) and len(e["fail"]) < len(case["bats"]) for e in case["events"]):
            out.append("failure_for_some_batteries_only")
        out.append(f"pool_messages={min(40, len(obs['pool']) // 10 * 10)}+")
        return out


# ============================================================================= battery-manager stream
# Set-power outcomes produced by PRODUCTION code: the real BatteryManager (which owns the real
# ComponentPoolStatusTracker and BatteryStatusTrackers) distributes requests over a fault-injecting
# fake microgrid API (set_power accepted / rejected / left hanging per inverter and request).  Who is
# mentioned as succeeded / failed therefore comes from BatteryManager._distribute_power; the oracle
# knows independently, from the API's call log, which battery was actually commanded and how it went.
MGR_MAX_AGE_MS, MGR_DMAX_MS = 10000, 30000   # BatteryManager's constants (T-tied: default_max_*_us)


def _mgr_imports():
    I = _imports()
    if "Manager" not in I:
        from frequenz.quantities import Power
        from frequenz.sdk.microgrid._power_distributing._component_managers._battery_manager import BatteryManager
        from frequenz.sdk.microgrid._power_distributing.request import Request
        from frequenz.sdk.microgrid.component_graph import _MicrogridComponentGraph
        I.update(dict(Manager=BatteryManager, Request=Request, Graph=_MicrogridComponentGraph, Power=Power))
    return I


def run_mgr(case):
    I = _mgr_imports()
    cm = I["cm"]
    Receiver = I["Receiver"]
    codes = {I["Enum"].NOT_WORKING: 0, I["Enum"].UNCERTAIN: 1, I["Enum"].WORKING: 2}
    bats = case["bats"]
    inv_of = {b: b - 1 for b in bats}
    bat_of = {v: k for k, v in inv_of.items()}
    logs = {b: [] for b in bats}
    index_of = {b: {} for b in bats}
    sent_at = {b: [] for b in bats}
    stim = {b: [] for b in bats}          # ["d", event index] | ["sp", outcome index]
    outcomes = []                          # one per update_status message the manager produced
    requests = []                          # one per request: API calls, result type, outcome index
    pool_log = []
    notes_log = []                         # every tracker notification, in the order they were sent

    async def drive(loop):
        import sys

        class Rec(Receiver):
            def __init__(self, inner, kind, log, idx=None):
                self.inner, self.kind, self.log, self.idx = inner, kind, log, idx

            async def ready(self):
                return await self.inner.ready()

            def consume(self):
                i = None
                try:
                    msg = self.inner.consume()
                    if self.idx is not None:
                        i = self.idx.get(id(msg))
                    return msg
                finally:
                    self.log.append([self.kind, _now_us(loop), i, None])

            def reset(self, **kw):
                return self.inner.reset(**kw)

            def close(self):
                self.inner.close()

        class Forward:
            def __init__(self, inner, bid):
                self.inner, self.bid = inner, bid

            async def send(self, msg):
                log = logs[self.bid]
                assert msg.component_id == self.bid
                assert log and log[-1][3] is None
                log[-1][3] = codes[msg.value]
                notes_log.append([_now_us(loop), self.bid, codes[msg.value]])
                await self.inner.send(msg)

        def calling_tracker():
            """The BatteryStatusTracker on whose behalf the API is being called, if any."""
            f = sys._getframe(2)  # pylint: disable=protected-access
            while f is not None:
                me = f.f_locals.get("self")
                if isinstance(me, I["Tracker"]):
                    return me
                f = f.f_back
            return None

        chans = {}
        for b in bats:
            chans[("bat", b)] = I["Broadcast"](name=f"bat{b}")
            chans[("inv", b)] = I["Broadcast"](name=f"inv{b}")
        handed = {b: [] for b in bats}
        cur = {"plan": {}, "calls": []}

        class Api:
            async def battery_data(self, cid, maxsize=50):
                rx = chans[("bat", cid)].new_receiver(limit=500)
                if calling_tracker() is not None:
                    handed[cid].append("bat")
                    return Rec(rx, "bat", logs[cid], index_of[cid])
                return rx

            async def inverter_data(self, cid, maxsize=50):
                rx = chans[("inv", bat_of[cid])].new_receiver(limit=500)
                if calling_tracker() is not None:
                    handed[bat_of[cid]].append("inv")
                    return Rec(rx, "inv", logs[bat_of[cid]], index_of[bat_of[cid]])
                return rx

            async def set_power(self, cid, power_w):
                how = cur["plan"].get(str(cid), "ok")
                cur["calls"].append([cid, how])
                if how == "reject":
                    raise cm.ApiClientError(server_url="fake://microgrid", operation="set_power",
                                            description="injected failure", retryable=False)
                if how == "hang":
                    await asyncio.sleep(3600)

        comps = {cm.Component(1, cm.ComponentCategory.GRID)}
        conns = set()
        for b in bats:
            comps.add(cm.Component(inv_of[b], cm.ComponentCategory.INVERTER, cm.InverterType.BATTERY))
            comps.add(cm.Component(b, cm.ComponentCategory.BATTERY))
            conns.add(cm.Connection(1, inv_of[b]))
            conns.add(cm.Connection(inv_of[b], b))
        cmgr = I["connection_manager"]
        saved = cmgr._CONNECTION_MANAGER  # pylint: disable=protected-access
        cmgr._CONNECTION_MANAGER = SimpleNamespace(component_graph=I["Graph"](components=comps, connections=conns), api_client=Api())
        try:
            pool_ch = I["Broadcast"](name="pool")
            pool_rx = pool_ch.new_receiver(limit=5000)
            res_ch = I["Broadcast"](name="results")
            res_rx = res_ch.new_receiver(limit=5000)
            mgr = I["Manager"](component_pool_status_sender=pool_ch.new_sender(), results_sender=res_ch.new_sender(),
                               api_power_request_timeout=timedelta(seconds=2.0))
            pt = mgr._component_pool_status_tracker  # pylint: disable=protected-access
            trackers = {t.battery_id: t for t in pt._component_status_trackers}  # pylint: disable=protected-access
            assert sorted(trackers) == sorted(bats)
            ts0 = None
            for b, t in trackers.items():
                ts0 = t._battery.last_msg_timestamp  # pylint: disable=protected-access
                t._battery.data_recv_timer = Rec(t._battery.data_recv_timer, "bt", logs[b])  # pylint: disable=protected-access
                t._inverter.data_recv_timer = Rec(t._inverter.data_recv_timer, "it", logs[b])  # pylint: disable=protected-access
                t._set_power_result_receiver = Rec(t._set_power_result_receiver, "sp", logs[b], index_of[b])  # pylint: disable=protected-access
                t._status_sender = Forward(t._status_sender, b)  # pylint: disable=protected-access
            # what the manager tells the pool, as it leaves the manager
            sp_sender = pt._set_power_result_sender  # pylint: disable=protected-access
            orig_send = sp_sender.send

            async def spy(msg):
                now = _now_us(loop)
                outcomes.append({"at": now, "succeeded": sorted(msg.succeeded), "failed": sorted(msg.failed)})
                for b in bats:
                    index_of[b][id(msg)] = len(sent_at[b])
                    sent_at[b].append(now)
                    stim[b].append(["sp", len(outcomes) - 1])
                keep.append(msg)
                await orig_send(msg)
            sp_sender.send = spy
            keep = []

            async def watch_pool():
                async for st in pool_rx:
                    pool_log.append([_now_us(loop), sorted(st.working), sorted(st.uncertain)])
            watcher = asyncio.create_task(watch_pool())
            await mgr.start()
            for _ in range(200):   # every tracker has subscribed to its two data streams
                if all(sorted(handed[b]) == ["bat", "inv"] for b in bats):
                    break
                await asyncio.sleep(0)
            tx = {k: ch.new_sender() for k, ch in chans.items()}
            for n, e in enumerate(case["events"]):
                await asyncio.sleep(e["gap"] / 1000)
                now = _now_us(loop)
                if e["t"] in ("bat", "inv"):
                    b = e["b"]
                    m = mk_battery(e, now, b, rich=True) if e["t"] == "bat" else mk_inverter(e, now, inv_of[b], rich=True)
                    keep.append(m)
                    index_of[b][id(m)] = len(sent_at[b])
                    sent_at[b].append(now)
                    stim[b].append(["d", n])
                    await tx[(e["t"], b)].send(m)
                elif e["t"] == "req":
                    for _ in range(30):      # the trackers and the manager's caches have seen everything sent so far
                        await asyncio.sleep(0)
                    cur["plan"], cur["calls"] = dict(e.get("plan", {})), []
                    n_out = len(outcomes)
                    n_notes = len(notes_log)
                    usable = sorted(pt.get_working_components(set(e["ids"])))
                    await mgr.distribute_power(I["Request"](power=I["Power"].from_watts(float(e["power"])), component_ids=set(e["ids"])))
                    res = await asyncio.wait_for(res_rx.receive(), 1.0)
                    requests.append({"event": n, "at": now, "done": _now_us(loop), "notes_before": n_notes, "ids": sorted(e["ids"]), "usable_before": usable,
                                     "calls": sorted(cur["calls"]), "result": type(res).__name__,
                                     "outcome": n_out if len(outcomes) > n_out else None})
                    assert len(outcomes) <= n_out + 1
            await asyncio.sleep(case.get("tail", 0) / 1000)
            n_stim = {b: len(sent_at[b]) for b in bats}
            for it in range(1500):
                await asyncio.sleep(0)
                if it >= 20 and all(sum(1 for x in logs[b] if x[0] in ("bat", "inv", "sp")) == n_stim[b] for b in bats) \
                        and len(pool_log) == sum(1 for b in bats for x in logs[b] if x[3] is not None):
                    break
            end = _now_us(loop)
            watcher.cancel()
            del sp_sender.send
            await mgr.stop()
            ts0_us = (ts0 - _CUR["base"]) // timedelta(microseconds=1)
            return {"per": {str(b): {"log": [list(x) for x in logs[b]], "sent_at": sent_at[b], "stim": stim[b], "end": end, "ts0": ts0_us}
                            for b in bats},
                    "handed": {str(b): sorted(handed[b]) for b in bats},
                    "outcomes": outcomes, "requests": requests, "pool": pool_log, "notes": notes_log, "end": end, "ts0": ts0_us}
        finally:
            cmgr._CONNECTION_MANAGER = saved  # pylint: disable=protected-access

    return run_virtual(drive, case.get("epoch"))


def mgr_truth(case, obs):
    """Per outcome message: which batteries were really commanded, and how it went (from the fake
    API's call log, not from what the manager reported)."""
    truth = {}
    for r in obs["requests"]:
        if r["outcome"] is None:
            continue
        ok = sorted(c + 1 for c, how in r["calls"] if how == "ok")
        bad = sorted(c + 1 for c, how in r["calls"] if how != "ok")
        truth[r["outcome"]] = {"succeeded": ok, "failed": bad, "request": r}
    return truth


def mgr_sub_case(case, obs, bid, source):
    """History of one battery; set-power outcomes as REPORTED by the manager (source="reported",
    what the tracker saw: for the model) or as they really happened (source="truth": for the oracle)."""
    truth = mgr_truth(case, obs)
    ev = []
    for kind, k in obs["per"][str(bid)]["stim"]:
        if kind == "d":
            ev.append({x: y for x, y in case["events"][k].items() if x != "b"})
        else:
            o = obs["outcomes"][k] if source == "reported" else truth[k]
            ev.append({"t": "sp", "gap": 0, "succ": bid in o["succeeded"], "fail": bid in o["failed"]})
    return {"cfg": {"max_age": MGR_MAX_AGE_MS, "dmax": MGR_DMAX_MS}, "events": ev, "tail": case.get("tail", 0)}


def judge_mgr(case, obs):
    out = []
    truth = mgr_truth(case, obs)
    for b in case["bats"]:
        if obs["handed"][str(b)] != ["bat", "inv"]:
            out.append({"what": f"harness: tracker of battery {b} asked the API for {obs['handed'][str(b)]}", "finding": None})
    # (1) who is mentioned: exactly the commanded batteries, with the outcome of their own command
    for k, o in enumerate(obs["outcomes"]):
        t = truth.get(k)
        if t is None:
            out.append({"what": f"mention: outcome message #{k} {o} does not belong to any request", "finding": None})
            continue
        r = t["request"]
        if o["succeeded"] != t["succeeded"] or o["failed"] != t["failed"]:
            extra = sorted((set(o["succeeded"]) | set(o["failed"])) - set(t["succeeded"]) - set(t["failed"]))
            out.append({"what": f"mention: request #{r['event']} named {r['ids']} (usable before: {r['usable_before']}); set_power calls "
                                f"{[[c, how] for c, how in r['calls']]} => commanded ok {t['succeeded']}, failed {t['failed']}; but the manager "
                                f"reported succeeded={o['succeeded']} failed={o['failed']}"
                                + (f" -- batteries {extra} received no command and must not be mentioned" if extra else ""), "finding": None})
    # (2) the statuses, judged against what really happened to each battery
    notes = []
    for b in case["bats"]:
        so = obs["per"][str(b)]
        for v in judge_tracker(mgr_sub_case(case, obs, b, "truth"), so):
            out.append({"what": v["what"].split(":")[0] + f": [battery {b} behind the real BatteryManager; outcomes judged by the commands the API "
                                f"actually received]" + v["what"].split(":", 1)[1], "finding": None})
        for kind, now, idx, sent in so["log"]:
            if sent is not None:
                notes.append((now, b, sent))
    if len(obs["pool"]) != len(notes):
        out.append({"what": f"pool: {len(notes)} tracker notifications but {len(obs['pool'])} pool status messages", "finding": None})
    # (3) a battery the pool reports neither working nor uncertain is never commanded; uncertain ones only as fallback
    for r in obs["requests"]:
        latest = {}
        for now, b, s in obs["notes"][:r["notes_before"]]:
            latest[b] = s
        commanded = sorted(c + 1 for c, _ in r["calls"])
        working = [b for b in r["ids"] if latest.get(b) == 2]
        allowed = working if working else [b for b in r["ids"] if latest.get(b) == 1]
        if not set(commanded) <= set(allowed):
            out.append({"what": f"pool: request #{r['event']} for {r['ids']} commanded {commanded} while the trackers' latest statuses were "
                                f"{sorted(latest.items())} (allowed: {allowed})", "finding": None})
    return out


def mgr_term(case, obs):
    bats = []
    for b in case["bats"]:
        sc, so = mgr_sub_case(case, obs, b, "reported"), obs["per"][str(b)]
        tr = "[" + "; ".join(c_event(sc, x, so) for x in so["log"]) + "]"
        exp = clist([x[3] for x in so["log"]], copt)
        bats.append(f"({cZ(b)}, {tr}, {exp})")
    snaps = "[" + "; ".join(f"({cZ(t)}, {clist(w)}, {clist(u)})" for t, w, u in snapshots_by_instant(obs)) + "]"
    return (f"((({cZ(MGR_MAX_AGE_MS * 1000)}, {cZ(MGR_DMAX_MS * 1000)}), {cZ(obs['ts0'])}, "
            f"[{'; '.join(bats)}], {snaps}, []) : case_t)")


def gen_mgr(rng):
    """Periodic requests naming (mostly) the whole pool while healthy data keep flowing; per request
    each inverter's set_power is accepted / rejected / left hanging.  Inverters are 'flaky' for a
    while so that consecutive failures of one battery (1, 2, 4, 8 s ...) interleave with requests
    that the other batteries serve alone."""
    bats = rng.choice([[9, 19], [9, 19], [9, 19, 29]])
    step = rng.choice([250, 500, 500, 1000])
    n_steps = rng.randint(8, 60)
    broken = {b: False for b in bats}
    p_break = rng.choice([0.05, 0.15, 0.3])
    p_heal = rng.choice([0.0, 0.05, 0.3])
    if rng.random() < 0.5:
        broken[rng.choice(bats)] = True
    ev = []
    gap = 0
    for s in range(n_steps):
        for b in bats:
            fault_b = rng.choice(["stale", "state", "relay", "critical", "capacity"]) if rng.random() < 0.01 else None
            if rng.random() < 0.97:
                ev.append({**gen_bat(rng, MGR_MAX_AGE_MS, fault_b), "age": 0 if not fault_b == "stale" else MGR_MAX_AGE_MS + 1, "b": b, "gap": gap})
                gap = 0
            if rng.random() < 0.97:
                ev.append({**gen_inv(rng, MGR_MAX_AGE_MS), "age": 0, "b": b, "gap": gap})
                gap = 0
        for b in bats:
            if broken[b] and rng.random() < p_heal:
                broken[b] = False
            elif not broken[b] and rng.random() < p_break:
                broken[b] = True
        if s >= 1 and rng.random() < 0.8:
            ids = bats if rng.random() < 0.8 else sorted(rng.sample(bats, rng.randint(1, len(bats))))
            plan = {str(b - 1): ("hang" if rng.random() < 0.04 else "reject") for b in bats if broken[b]}
            ev.append({"t": "req", "ids": ids, "power": rng.choice([1000, 1000, -1000, 3000, 0, 20000]), "plan": plan, "gap": gap + rng.choice([0, 1, 10])})
            gap = 0
        gap += step
    return add_zones(rng, {"bats": bats, "events": ev, "tail": rng.choice([0, 1, 500])})


def mgr_boundary_cases():
    """Inverter 8 rejects everything; the same request {9,19} every 0.5 s; data every 0.5 s."""
    out = []
    for bats in ([9, 19], [9, 19, 29]):
        ev = []
        for s in range(40):
            g = 500 if s else 0
            for b in bats:
                ev.append({**_b(g), "b": b})
                g = 0
                ev.append({**_i(0), "b": b})
            if s >= 2:
                ev.append({"t": "req", "ids": bats, "power": 1000, "plan": {"8": "reject"}, "gap": 10})
        out.append({"bats": bats, "events": ev, "tail": 0})
    return out


class ManagerStream(Stream):
    name = "manager"
    coq_header = E2E_HEADER

    def gen(self, rng, tier):
        yield from mgr_boundary_cases()
        for _ in range(60 if tier == "quick" else 1200):
            yield gen_mgr(rng)

    def run_impl(self, case):
        return run_mgr(case)

    def to_coq(self, case, obs):
        return mgr_term(case, obs)

    def oracle(self, case, obs):
        return judge_mgr(case, obs)

    def shrink(self, case):
        ev = case["events"]
        n = len(ev)
        for cut in (n // 2, n - n // 4, n - 8, n - 2, n - 1):     # shortest failing prefix first
            if 0 < cut < n:
                yield {**case, "events": ev[:cut]}
        idx = [i for i, e in enumerate(ev) if e["t"] == "req"]
        for i in idx:
            rest = ev[:i] + ([{**ev[i + 1], "gap": ev[i + 1]["gap"] + ev[i]["gap"]}] + ev[i + 2:] if i + 1 < n else [])
            yield {**case, "events": rest}
        if case.get("epoch"):
            yield {k: v for k, v in case.items() if k != "epoch"}
        if any(e.get("tz") for e in ev):
            yield {**case, "events": [{k: v for k, v in e.items() if k != "tz"} for e in ev]}

    def key(self, case, obs):
        if not obs["requests"]:
            return None
        return json.dumps([case["bats"], obs["requests"], [[k, v["log"]] for k, v in sorted(obs["per"].items())]], sort_keys=True)

    def labels(self, case, obs):
        out = [f"batteries={len(case['bats'])}"]
        truth = mgr_truth(case, obs)
        for r in obs["requests"]:
            out.append("result_" + r["result"])
            if r["outcome"] is not None:
                t = truth[r["outcome"]]
                named_not_commanded = set(r["ids"]) - set(t["succeeded"]) - set(t["failed"])
                if named_not_commanded:
                    out.append("request_names_uncommanded_battery")
                    if not t["failed"]:
                        out.append("served_by_others_while_one_blocked")
                if t["failed"] and t["succeeded"]:
                    out.append("partial_failure")
                if any(how == "hang" for _, how in r["calls"]):
                    out.append("set_power_timeout")
        for b in case["bats"]:
            stats = {}
            judge_tracker(mgr_sub_case(case, obs, b, "truth"), obs["per"][str(b)], stats)
            out.append(f"backoff_depth={min(stats['max_k'], 7)}")
        return out
